/-
  FtModel.Basic — the shared model of a fibertree.

  A fiber (`Fiber.coords` / `Fiber.payloads` zipped) is an association list; a tree of
  uniform depth `d` is `Tree κ ν d` (depth-indexed, defined by recursion on `d`, see
  DESIGN.md §4.1).  Everything in FtModel is Mathlib-free and executable: the same
  definitions are run by the driver and reasoned about in FtProofs.
-/
namespace Ft

/-- What the proofs need from a coordinate order (Python ints, or same-arity tuples
    compared lexicographically).  Mathlib-free on purpose. -/
class StrictTotal (κ : Type) [LT κ] : Prop where
  irrefl : ∀ a : κ, ¬ a < a
  trans  : ∀ {a b c : κ}, a < b → b < c → a < c
  tri    : ∀ a b : κ, a < b ∨ a = b ∨ b < a

instance : StrictTotal Int where
  irrefl := fun a => Int.lt_irrefl a
  trans  := fun h1 h2 => Int.lt_trans h1 h2
  tri    := fun a b => by omega

instance : StrictTotal Nat where
  irrefl := fun a => Nat.lt_irrefl a
  trans  := fun h1 h2 => Nat.lt_trans h1 h2
  tri    := fun a b => by omega

/-- A fibertree of uniform depth `d`: depth 0 is a (boxed) leaf value, depth `d+1` is a
    fiber whose payloads are trees of depth `d`. -/
def Tree (κ ν : Type) : Nat → Type
  | 0     => ν
  | d + 1 => List (κ × Tree κ ν d)

/-- A fiber whose payloads have type `π` (leaf values, sub-trees, references …). -/
abbrev Fib (κ π : Type) := List (κ × π)

section
variable {κ ν : Type}

/-- `Fiber._checkOrdered` + `_checkUnique`: strictly increasing coordinates. -/
def Sorted [LT κ] {π : Type} (f : Fib κ π) : Prop := f.Pairwise (fun x y => x.1 < y.1)

/-- executable sortedness -/
def sortedB [LT κ] [DecidableRel (α := κ) (· < ·)] {π : Type} : Fib κ π → Bool
  | [] => true
  | [_] => true
  | x :: y :: r => decide (x.1 < y.1) && sortedB (y :: r)

/-- `Payload.isEmpty` / `Fiber.isEmpty`: a leaf is empty iff it equals the default, a
    fiber iff all its payloads are empty. -/
def isEmpty [DecidableEq ν] (dflt : ν) : (d : Nat) → Tree κ ν d → Bool
  | 0,     v => decide ((show ν from v) = dflt)
  | d + 1, f => (show List (κ × Tree κ ν d) from f).all (fun e => isEmpty dflt d e.2)

/-- What iteration of a compressed rank presents: the non-empty elements. -/
def present [DecidableEq ν] (dflt : ν) (d : Nat) (f : Tree κ ν (d + 1)) : Fib κ (Tree κ ν d) :=
  (show List (κ × Tree κ ν d) from f).filter (fun e => !isEmpty dflt d e.2)

/-- The content of a tree: its non-default leaves with their points, in storage order. -/
def content [DecidableEq ν] (dflt : ν) : (d : Nat) → Tree κ ν d → List (List κ × ν)
  | 0,     v => if (show ν from v) = dflt then [] else [([], (show ν from v))]
  | d + 1, f => (show List (κ × Tree κ ν d) from f).flatMap
                  (fun e => (content dflt d e.2).map (fun pv => (e.1 :: pv.1, pv.2)))

/-- Every fiber of the tree is sorted (C01's order clause). -/
def WF [LT κ] : (d : Nat) → Tree κ ν d → Prop
  | 0,     _ => True
  | d + 1, f => Sorted (show List (κ × Tree κ ν d) from f) ∧
                ∀ e ∈ (show List (κ × Tree κ ν d) from f), WF d e.2

def wfB [LT κ] [DecidableRel (α := κ) (· < ·)] : (d : Nat) → Tree κ ν d → Bool
  | 0,     _ => true
  | d + 1, f => sortedB (show List (κ × Tree κ ν d) from f) &&
                (show List (κ × Tree κ ν d) from f).all (fun e => wfB d e.2)

/-- `Fiber.countValues` (recursive). -/
def countValues [DecidableEq ν] (dflt : ν) : (d : Nat) → Tree κ ν d → Nat
  | 0,     v => if (show ν from v) = dflt then 0 else 1
  | d + 1, f => ((show List (κ × Tree κ ν d) from f).map (fun e => countValues dflt d e.2)).sum

/-- `Fiber.nonEmpty`: recursive copy without empty elements. -/
def nonEmpty [DecidableEq ν] (dflt : ν) : (d : Nat) → Tree κ ν d → Tree κ ν d
  | 0,     v => v
  | d + 1, f => ((show List (κ × Tree κ ν d) from f).filter (fun e => !isEmpty dflt d e.2)).map
                  (fun e => (e.1, nonEmpty dflt d e.2))

/-- no explicit default and no empty sub-fiber anywhere (what `nonEmpty` / `fromUncompressed`
    produce) -/
def Canonical [DecidableEq ν] (dflt : ν) : (d : Nat) → Tree κ ν d → Prop
  | 0,     _ => True
  | d + 1, f => ∀ e ∈ (show List (κ × Tree κ ν d) from f), isEmpty dflt d e.2 = false ∧ Canonical dflt d e.2

def canonicalB [DecidableEq ν] (dflt : ν) : (d : Nat) → Tree κ ν d → Bool
  | 0,     _ => true
  | d + 1, f => (show List (κ × Tree κ ν d) from f).all (fun e => !isEmpty dflt d e.2 && canonicalB dflt d e.2)

/-- Lower bound: number of leading coordinates `< c` (what `bisect_left` returns on a
    sorted list; also the linear search of `_coord2pos`). -/
def lowerBound [LT κ] [DecidableRel (α := κ) (· < ·)] {π : Type} (f : Fib κ π) (c : κ) : Nat :=
  (f.takeWhile (fun e => decide (e.1 < c))).length

/-- assoc lookup by coordinate -/
def lookup [DecidableEq κ] {π : Type} (f : Fib κ π) (c : κ) : Option π :=
  (f.find? (fun e => e.1 = c)).map (·.2)

end
end Ft
