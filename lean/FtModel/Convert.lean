/-
  FtModel.Convert — conversions between representations (C13), mirroring

  * `Fiber.fromUncompressed` / `Fiber._makeFiber` (fiber.py:349-434): zero squeezing,
    `None` for an all-default subtree, the empty root for an all-default nest;
  * `Tensor._calc_shape` (tensor.py:305-322) and `Fiber.getShape` of the un-owned
    fibers `_makeFiber` builds (fiber.py:2600-2660);
  * `Fiber.uncompress` / `Fiber._fillempty` (fiber.py:2887-2961) AS WRITTEN (after fix
    cc544e6): the union with a dense "shape fiber", and the walk down `payloads[0]` to find
    the leaf default, which stops at a fiber without payloads and takes that fiber's default
    (free fiber) or the default of the owning tensor's last rank (fix ecc4474);
  * `Fiber.fiber2dict` / `Fiber.dict2fiber` / `Payload.payload2dict`
    (fiber.py:4825-4914, payload.py:669-684), `Tensor.dump` / `Tensor.parse` /
    `Tensor.fromYAMLfile` (tensor.py:219-247, 1944-2025), `Fiber.__eq__`;
  * `Fiber.fromRandom` (fiber.py:437-522) as a function of the recorded draws.

  Everything is Mathlib-free and executable.  The YAML *text* layer is not modelled:
  it is abstracted as the identity on dictionaries (what `yaml.dump` + the tuple-aware
  safe loader do for the values that occur: ints, floats, strings, lists, tuples).
-/
import FtModel.Basic
import FtModel.Coiter
namespace Ft

/-- An uncompressed nest of lists of uniform depth `d` (depth 0 = an entry). -/
def Nest (ν : Type) : Nat → Type
  | 0     => ν
  | d + 1 => List (Nest ν d)

/-- `enumerate(l)` starting at `k`. -/
def enumFrom {α : Type} : Nat → List α → List (Nat × α)
  | _, []      => []
  | k, x :: xs => (k, x) :: enumFrom (k + 1) xs

section Nest
variable {ν : Type}

/-- The nest is rectangular with the given dimensions (outermost first). -/
def rectB : (d : Nat) → List Nat → Nest ν d → Bool
  | 0,     [],      _ => true
  | 0,     _ :: _,  _ => false
  | _ + 1, [],      _ => false
  | d + 1, n :: ns, l => decide ((show List (Nest ν d) from l).length = n) &&
                         (show List (Nest ν d) from l).all (rectB d ns)

/-- every entry equals the default -/
def allDefault [DecidableEq ν] (dflt : ν) : (d : Nat) → Nest ν d → Bool
  | 0,     v => decide ((show ν from v) = dflt)
  | d + 1, l => (show List (Nest ν d) from l).all (allDefault dflt d)

/-- The non-default entries of a nest with their index points, row-major
    (the specification side of "content equal to the nest's non-default entries"). -/
def nestContent [DecidableEq ν] (dflt : ν) : (d : Nat) → Nest ν d → List (List Nat × ν)
  | 0,     v => if (show ν from v) = dflt then [] else [([], (show ν from v))]
  | d + 1, l => (enumFrom 0 (show List (Nest ν d) from l)).flatMap
                  (fun e => (nestContent dflt d e.2).map (fun pv => (e.1 :: pv.1, pv.2)))

/-- a nest of the given dimensions filled with one value -/
def constNest (v : ν) : (d : Nat) → List Nat → Nest ν d
  | 0,     _       => v
  | d + 1, []      => (show List (Nest ν d) from [])
  | d + 1, n :: ns => (show List (Nest ν d) from List.replicate n (constNest v d ns))

/-! ### `Fiber._makeFiber` / `Fiber.fromUncompressed` -/

/-- `_makeFiber`: `none` is Python's `None` (an all-default subtree).  At the leaf level
    `zipped` keeps the entries `!= default`; above it every sub-list is kept
    (`list != default` is always true) and the `None` children are dropped. -/
def makeFiber [DecidableEq ν] (dflt : ν) : (d : Nat) → Nest ν (d + 1) → Option (Tree Nat ν (d + 1))
  | 0, l =>
    let zipped : List (Nat × ν) :=
      (enumFrom 0 (show List ν from l)).filter (fun e => !decide (e.2 = dflt))
    if zipped.isEmpty then none else some (show List (Nat × Tree Nat ν 0) from zipped)
  | d + 1, l =>
    let zipped := enumFrom 0 (show List (Nest ν (d + 1)) from l)
    if zipped.isEmpty then none else
    let items : List (Nat × Tree Nat ν (d + 1)) :=
      zipped.filterMap (fun e => (makeFiber dflt d e.2).map (fun t => (e.1, t)))
    if items.isEmpty then none else some (show List (Nat × Tree Nat ν (d + 1)) from items)

/-- `Fiber.fromUncompressed`: an all-default nest gives the empty fiber. -/
def fromUncompressed [DecidableEq ν] (dflt : ν) (d : Nat) (l : Nest ν (d + 1)) : Tree Nat ν (d + 1) :=
  match makeFiber dflt d l with
  | some t => t
  | none   => (show List (Nat × Tree Nat ν d) from [])

/-! ### shapes -/

/-- the `rest[i] = max(rest[i], ns)` / `rest.append(ns)` loop of `Fiber.getShape` -/
def maxMerge : List Nat → List Nat → List Nat
  | [],      ns      => ns
  | r,       []      => r
  | r :: rs, n :: ns => max r n :: maxMerge rs ns

/-- `getShape()` of the (un-owned) fiber `_makeFiber` returns when it is not `None`:
    its own `shape=len(payload_list)` followed by the level-wise maximum over the
    shapes of its (all non-empty) children. -/
def fiberShapeSome [DecidableEq ν] (dflt : ν) : (d : Nat) → Nest ν (d + 1) → List Nat
  | 0,     l => [(show List ν from l).length]
  | d + 1, l =>
    (show List (Nest ν (d + 1)) from l).length ::
      (((show List (Nest ν (d + 1)) from l).filter (fun c => (makeFiber dflt d c).isSome)).foldl
        (fun rest c => maxMerge rest (fiberShapeSome dflt d c)) [])

/-- `Fiber.fromUncompressed(nest).getShape()`: the all-default root is
    `Fiber([], [], shape=len(nest))`, which knows only its own extent. -/
def fiberShape [DecidableEq ν] (dflt : ν) (d : Nat) (l : Nest ν (d + 1)) : List Nat :=
  if (makeFiber dflt d l).isSome then fiberShapeSome dflt d l
  else [(show List (Nest ν d) from l).length]

/-- `Tensor._calc_shape(ll)[1:]` for a non-leaf `ll` -/
def calcShapeRest (cs : Nest ν d → List Nat) : List (Nest ν d) → List Nat
  | []      => []           -- `ll[0]` raises; unreachable for non-empty nests
  | [x]     => cs x
  | x :: xs => List.zipWith max (cs x) (calcShapeRest cs xs)

/-- `Tensor._calc_shape` as written (first child against the shape of the rest, zipped
    with `max`) — the shape a tensor built by `Tensor.fromUncompressed` gets. -/
def calcShape : (d : Nat) → Nest ν (d + 1) → List Nat
  | 0,     l => [(show List ν from l).length]
  | d + 1, l => (show List (Nest ν (d + 1)) from l).length ::
                  calcShapeRest (calcShape d) (show List (Nest ν (d + 1)) from l)

end Nest

/-! ### `Fiber.uncompress` / `Fiber._fillempty` -/

section Uncompress
variable {ν : Type}

/-- `Fiber(coords=range(n), initial=1)` -/
def rangeFib (n : Nat) : Fib Nat Unit := (List.range n).map (fun c => (c, ()))

/-- `_fillempty`'s leaf default (after fixes cc544e6, ecc4474):
    `f = self; while len(f.payloads) > 0 and isinstance(f.payloads[0], Fiber): f = f.payloads[0]`;
    the descent stops at the leaf level or at a fiber without payloads above it.  Then, for a
    tensor-owned fiber, the default of the LAST rank of the owning tensor is returned (the leaf
    default `dflt`); for a free fiber `f.getDefault()`, which is `dflt` too (`_makeFiber` /
    `fromUncompressed` build every level with `default=default`).  Both legs are kept apart
    because they are different code. -/
def chainLeaf {κ : Type} (owned : Bool) (dflt : ν) : (d : Nat) → Tree κ ν (d + 1) → Option ν
  | 0,     _ => some dflt
  | d + 1, f => match (show List (κ × Tree κ ν (d + 1)) from f) with
                | []     => (match owned with
                             | true  => some dflt     -- last rank's default
                             | false => some dflt)    -- the fiber's own default
                | e :: _ => chainLeaf owned dflt d e.2

/-- `_fillempty(shape, level)`: a nest of the remaining shape filled with the leaf
    default (`leaf = none`: no value available — cannot happen after fix ecc4474). -/
def fillEmpty (leaf : Option ν) : (d : Nat) → List Nat → Option (Nest ν d)
  | 0,     _       => leaf
  | _ + 1, []      => none
  | d + 1, n :: ns =>
    if n = 0 then some (show List (Nest ν d) from [])
    else (fillEmpty leaf d ns).map (fun x => (show List (Nest ν d) from List.replicate n x))

/-- the loop body of `uncompress` over the rows of `self | shape_fiber` -/
def uncRows {π β : Type} (onAB : π → Option β) (onB : Option β) :
    Fib Nat (Mask × Option π × Option Unit) → Option (List β)
  | [] => some []
  | (_, (Mask.AB, some p, _)) :: r =>
    match onAB p, uncRows onAB onB r with
    | some x, some xs => some (x :: xs)
    | _, _ => none
  | (_, (Mask.AB, none, _)) :: _ => none
  | (_, (Mask.B, _, _)) :: r =>
    match onB, uncRows onAB onB r with
    | some x, some xs => some (x :: xs)
    | _, _ => none
  | (_, (Mask.A, _, _)) :: r => uncRows onAB onB r

/-- `Fiber.uncompress(shape)`; `owned` = the fiber belongs to a tensor; `none` = no nest of
    values comes back (an exception, or a nest filled with non-values). -/
def uncompress [DecidableEq ν] (owned : Bool) (dflt : ν) :
    (d : Nat) → List Nat → Tree Nat ν (d + 1) → Option (Nest ν (d + 1))
  | _,     [],      _ => none
  | 0,     n :: ns, f =>
    (uncRows (fun (v : Tree Nat ν 0) => some (show Nest ν 0 from (show ν from v)))
      (fillEmpty (chainLeaf owned dflt 0 f) 0 ns)
      (orMerge (present dflt 0 f) (rangeFib n)) : Option (List (Nest ν 0)))
  | d + 1, n :: ns, f =>
    (uncRows (fun (t : Tree Nat ν (d + 1)) => uncompress owned dflt d ns t)
      (fillEmpty (chainLeaf owned dflt (d + 1) f) (d + 1) ns)
      (orMerge (present dflt (d + 1) f) (rangeFib n)) : Option (List (Nest ν (d + 1))))

/-- no stored element is empty (no explicit default leaf, no all-empty sub-fiber) -/
def noEmptyB {κ : Type} [DecidableEq ν] (dflt : ν) : (d : Nat) → Tree κ ν d → Bool
  | 0,     _ => true
  | d + 1, f => (show List (κ × Tree κ ν d) from f).all
                  (fun e => !isEmpty dflt d e.2 && noEmptyB dflt d e.2)

end Uncompress

/-! ### dictionary form, YAML abstraction, `==` -/

section Dict
variable {κ ν : Type}

/-- `{'fiber': {'coords': [...], 'payloads': [...]}}` (struct of lists); a scalar at depth 0 -/
def YDict (κ ν : Type) : Nat → Type
  | 0     => ν
  | d + 1 => List κ × List (YDict κ ν d)

/-- `Fiber.fiber2dict` / `Payload.payload2dict` -/
def fiber2dict : (d : Nat) → Tree κ ν d → YDict κ ν d
  | 0,     v => (show ν from v)
  | d + 1, f => (show List κ × List (YDict κ ν d) from
                  ((show List (κ × Tree κ ν d) from f).map (·.1),
                   (show List (κ × Tree κ ν d) from f).map (fun e => fiber2dict d e.2)))

def mapMOpt {α β : Type} (g : α → Option β) : List α → Option (List β)
  | [] => some []
  | x :: xs => match g x, mapMOpt g xs with
               | some y, some ys => some (y :: ys)
               | _, _ => none

/-- `Fiber.dict2fiber`; `none` = the length assertion of `Fiber.__init__` fires -/
def dict2fiber : (d : Nat) → YDict κ ν d → Option (Tree κ ν d)
  | 0,     v => some (show ν from v)
  | d + 1, y =>
    let cs := (show List κ × List (YDict κ ν d) from y).1
    let ps := (show List κ × List (YDict κ ν d) from y).2
    match mapMOpt (dict2fiber d) ps with
    | some ps' => if cs.length = ps'.length then some (show List (κ × Tree κ ν d) from cs.zip ps') else none
    | none => none

/-- `Fiber.__eq__` (and `Payload.__eq__` at depth 0): every row of `self | other` must be
    two-sided with equal payloads; each side presents its non-empty elements relative to
    its OWN leaf default. -/
def eqB [LT κ] [DecidableRel (α := κ) (· < ·)] [DecidableEq κ] [DecidableEq ν] (da db : ν) :
    (d : Nat) → Tree κ ν d → Tree κ ν d → Bool
  | 0,     a, b => decide ((show ν from a) = (show ν from b))
  | d + 1, a, b =>
    (orMerge (present da d a) (present db d b)).all (fun row =>
      match row.2 with
      | (Mask.AB, some pa, some pb) => eqB da db d pa pb
      | _ => false)

/-- every coordinate of the tree satisfies `p` -/
def allCoords (p : κ → Bool) : (d : Nat) → Tree κ ν d → Bool
  | 0,     _ => true
  | d + 1, f => (show List (κ × Tree κ ν d) from f).all (fun e => p e.1 && allCoords p d e.2)

end Dict

/-- a coordinate (or a rank shape) as it appears in a dumped dictionary -/
inductive YCoord
  | int (i : Int)
  | tup (l : List Int)
  /-- anything else that occurs as a shape entry (e.g. the nested tuple `((2, 2), 2)` of a rank
      flattened twice), kept as its canonical text; never a coordinate -/
  | other (s : String)
  deriving DecidableEq, Repr

def YCoord.plain : YCoord → Bool
  | .int _ => true
  | .tup _ => false
  | .other _ => false

def YCoord.lt : YCoord → YCoord → Bool
  | .int a, .int b => decide (a < b)
  | .tup a, .tup b => decide (a < b)
  | _, _ => false

instance : LT YCoord := ⟨fun a b => YCoord.lt a b = true⟩
instance : DecidableRel (α := YCoord) (· < ·) := fun a b => inferInstanceAs (Decidable (YCoord.lt a b = true))

/-- what `Tensor.dump` writes (depth 0 = rank-0 tensor whose root is a payload) and what
    `Tensor.fromYAMLfile` rebuilds -/
structure TRep (κ ν : Type) (d : Nat) where
  rankIds : List String
  shape   : List κ
  name    : String
  root    : Tree κ ν d
  /-- the leaf rank's default (meaningless for a rank-0 tensor, which has no rank) -/
  dflt    : ν

structure TDict (κ ν : Type) (d : Nat) where
  rankIds : List String
  shape   : List κ
  name    : String
  root    : YDict κ ν d
  /-- the "default" entry; a rank-0 tensor has none -/
  dflt    : Option ν

section Yaml
variable {κ ν : Type}

/-- `Tensor.dump`: the dictionary handed to `yaml.dump`; the "default" entry is written
    for tensors of rank ≥ 1 -/
def tensorDump {d : Nat} (t : TRep κ ν d) : TDict κ ν d :=
  { rankIds := t.rankIds, shape := t.shape, name := t.name, root := fiber2dict d t.root,
    dflt := (if d = 0 then none else some t.dflt) }

/-- ABSTRACTION of `yaml.dump` followed by `yaml.load(…, Loader=FibertreeLoader)` (the text
    layer is not modelled): identity — ints, floats, strings, lists and, through the loader's
    tuple constructor, (nested) tuples all come back as they were written. -/
def yamlText {d : Nat} (x : TDict κ ν d) : Option (TDict κ ν d) := some x

/-- `Tensor.parse` + `Tensor.fromYAMLfile`: the fibers are rebuilt by `dict2fiber` with the
    file's default (`zero` when the file has no entry), which also becomes the tensor's. -/
def tensorLoad {d : Nat} (zero : ν) (x : TDict κ ν d) : Option (TRep κ ν d) :=
  match dict2fiber d x.root with
  | some r => some { rankIds := x.rankIds, shape := x.shape, name := x.name, root := r,
                     dflt := x.dflt.getD zero }
  | none => none

/-- dump → text → load -/
def tensorYamlRoundtrip {d : Nat} (zero : ν) (t : TRep κ ν d) : Option (TRep κ ν d) :=
  match yamlText (tensorDump t) with
  | some x => tensorLoad zero x
  | none => none

/-- the deprecated loader `Tensor(yamlfile=file)`: same parse; a root that is not a fiber
    (rank 0) is boxed as the root payload, like `Tensor.fromYAMLfile` does — the two loaders
    agree on everything the property observes (they differ in code, hence two definitions) -/
def tensorCtorRoundtrip {d : Nat} (zero : ν) (t : TRep κ ν d) : Option (TRep κ ν d) :=
  match yamlText (tensorDump t) with
  | some x => tensorLoad zero x
  | none => none

/-- `Fiber.dump` → text → `Fiber.fromYAMLfile(file, default=x)`: the stored tree comes
    back; every fiber of the result has default `x` (`Fiber.parse` hands it to
    `dict2fiber`), so its leaf default is `x`. -/
def fiberYamlRoundtrip (d : Nat) (t : Tree κ ν (d + 1)) : Option (Tree κ ν (d + 1)) :=
  dict2fiber (d + 1) (fiber2dict (d + 1) t)

/-- `Tensor.__eq__` -/
def tensorEqB [LT κ] [DecidableRel (α := κ) (· < ·)] [DecidableEq κ] [DecidableEq ν] {d : Nat}
    (da db : ν) (a b : TRep κ ν d) : Bool :=
  decide (a.rankIds = b.rankIds) && eqB da db d a.root b.root

end Yaml

/-! ### `Fiber.fromRandom` as a function of the recorded draws -/

/-- the draws of one run: `random.random()` results scaled by 2^53 (exact integers) and
    `random.randint(1, interval)` results, each in call order -/
structure Draws where
  us : List Nat
  is : List Int
  deriving DecidableEq, Repr

/-- the `for c in range(shape[0])` loop; `body` returns the payload to append (`none` =
    `continue`) and the remaining draws; `none` overall = draws exhausted / not modelled -/
def randLoop {π : Type} (body : Draws → Option (Option π × Draws)) :
    List Nat → Draws → Option (Fib Nat π × Draws)
  | [],      s => some ([], s)
  | c :: cs, s =>
    match body s with
    | none => none
    | some (p, s1) =>
      match randLoop body cs s1 with
      | none => none
      | some (r, s2) =>
        match p with
        | some v => some ((c, v) :: r, s2)
        | none   => some (r, s2)

/-- leaf level: `random() < density` → `randint`, dropped when it equals the default;
    otherwise nothing (default 0) or an explicit 0 (default ≠ 0) -/
def randLeafBody (dflt : Int) (q : Nat) (s : Draws) : Option (Option Int × Draws) :=
  match s.us with
  | [] => none
  | u :: us' =>
    if u < q then
      match s.is with
      | [] => none
      | v :: is' => some ((if v = dflt then none else some v), { us := us', is := is' })
    else if dflt = 0 then some (none, { s with us := us' })
    else some (some 0, { s with us := us' })

/-- `Fiber.fromRandom(shape, density, interval, default=dflt)` given the draws.  Above
    the leaf level the "`payload = 0`" leg (default ≠ 0 and a miss) stores an integer
    among fibers; that input class is excluded by the docstring and is not modelled
    (`none`). -/
def fromRandom (dflt : Int) : (d : Nat) → List Nat → List Nat → Draws →
    Option (Tree Nat Int (d + 1) × Draws)
  | 0, n :: _, q :: _, s =>
    (randLoop (randLeafBody dflt q) (List.range n) s : Option (Fib Nat Int × Draws))
  | d + 1, n :: ns, q :: qs, s =>
    (randLoop (fun s0 =>
        match s0.us with
        | [] => none
        | u :: us' =>
          if u < q then
            match fromRandom dflt d ns qs { s0 with us := us' } with
            | none => none
            | some (t, s1) => some ((if isEmpty dflt (d + 1) t then none else some t), s1)
          else if dflt = 0 then some (none, { s0 with us := us' })
          else none)
      (List.range n) s : Option (Fib Nat (Tree Nat Int (d + 1)) × Draws))
  | _, _, _, _ => none

/-- every coordinate at level `i` is below `shape[i]` -/
def inShapeB {ν : Type} : (d : Nat) → List Nat → Tree Nat ν d → Bool
  | 0,     _,       _ => true
  | _ + 1, [],      _ => false
  | d + 1, n :: ns, f => (show List (Nat × Tree Nat ν d) from f).all
                           (fun e => decide (e.1 < n) && inShapeB d ns e.2)

/-- all points of a shape, row-major -/
def allPoints : List Nat → List (List Nat)
  | []      => [[]]
  | n :: ns => (List.range n).flatMap (fun c => (allPoints ns).map (fun p => c :: p))

/-- the points at which a tree stores a non-default value -/
def points {κ ν : Type} [DecidableEq ν] (dflt : ν) (d : Nat) (t : Tree κ ν d) : List (List κ) :=
  (content dflt d t).map (·.1)

end Ft
