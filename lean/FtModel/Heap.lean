/-
  FtModel.Heap — a small object-heap model for C10 ("value-returning operations never disturb
  or alias their operands; readers are pure").

  The Python objects the property speaks about (Fiber, Payload box, Rank, RankAttrs, Tensor and
  the list objects they hold) are *objects with fields pointing to objects*: an object is
  `data` (its immutable scalar content: coordinates, boxed value, rank id, shape, format …) plus
  `ptrs` (its references to other mutable objects, in field order).  A heap is an association
  list address ↦ object (`set` shadows).  What an observer holding a root can see is `view`
  (the unfolding of the graph from the root — the structural snapshot of harness/props/c10.py).

  The mechanisms of the code are mirrored as heap programs:
  * `copyWith ρ` — `pickle.loads(pickle.dumps(x))` (`Fiber/Tensor/Rank/RankAttrs/Payload
    .__deepcopy__`, fiber.py:4630, tensor.py:2030): every object of a closed set is rebuilt at a
    fresh address `ρ a`, all references redirected through `ρ`;
  * `Step` — one field-level mutation (a write of a whole object record at an address, or an
    allocation) performed on behalf of one *side* (`false` = operand side, `true` = result side);
    `_splitGeneric`, `mergeRanks`, `Tensor.updateCoords/updatePayloads/swizzleRanks/_modifyRoot`
    are "deepcopy, then steps on the copy's side"; `getPayload/_createDefault(addtorank=False)` and
    the co-iterators are "steps that only allocate".
  * `stepOkB` — the discipline those programs obey (and the harness checks on the real objects):
    a side writes only its own or fresh objects and stores only references to its own or fresh
    objects.

  Everything here is executable (the driver runs `reachList`, `closedB`, `validB`, `runOnly`,
  `agreeOnB` on the object graph of the real Python objects) and Mathlib-free.
-/
namespace Ft.C10

/-- an object: immutable scalar content + references to other objects -/
structure Obj (δ : Type) where
  data : δ
  ptrs : List Nat
  deriving DecidableEq, Repr

/-- association-list heap; the first binding of an address wins -/
abbrev Heap (δ : Type) := List (Nat × Obj δ)

section
variable {δ : Type}

def get : Heap δ → Nat → Option (Obj δ)
  | [], _ => none
  | (b, o) :: h, a => if a = b then some o else get h a

/-- write / allocate -/
def set (h : Heap δ) (a : Nat) (o : Obj δ) : Heap δ := (a, o) :: h

/-- tokens of the unfolded view of a root -/
inductive Tok (δ : Type) where
  | cut | dangling | close
  | opn (d : δ)
  deriving DecidableEq, Repr

/-- what an observer holding `a` sees, unfolded to depth `n` (pre-order token stream): the
    id-free structural snapshot -/
def view (h : Heap δ) : Nat → Nat → List (Tok δ)
  | 0, _ => [Tok.cut]
  | n + 1, a =>
    match get h a with
    | none => [Tok.dangling]
    | some o => Tok.opn o.data :: (o.ptrs.flatMap (fun p => view h n p)) ++ [Tok.close]

/-- `b` is reachable from `a` by following references -/
inductive Reach (h : Heap δ) : Nat → Nat → Prop where
  | refl (a : Nat) : Reach h a a
  | step {a b c : Nat} (o : Obj δ) : Reach h a b → get h b = some o → c ∈ o.ptrs → Reach h a c

/-- `S` is closed under following references -/
def Closed (h : Heap δ) (S : List Nat) : Prop :=
  ∀ a ∈ S, ∀ o, get h a = some o → ∀ p ∈ o.ptrs, p ∈ S

def closedB (h : Heap δ) (S : List Nat) : Bool :=
  S.all (fun a => match get h a with
    | none => true
    | some o => o.ptrs.all (fun p => S.contains p))

def disjointB (A B : List Nat) : Bool := A.all (fun a => !B.contains a)

/-- one round of the breadth-first closure -/
def addNew (acc : List Nat) (ps : List Nat) : List Nat :=
  ps.foldl (fun acc p => if acc.contains p then acc else acc ++ [p]) acc

def expand (h : Heap δ) (S : List Nat) : List Nat :=
  S.foldl (fun acc a => match get h a with
    | none => acc
    | some o => addNew acc o.ptrs) S

/-- executable reach set: iterate `expand` until nothing is added (or the fuel runs out; the
    driver checks `closedB` on the result, so the fuel is not trusted) -/
def reachList (h : Heap δ) : Nat → List Nat → List Nat
  | 0, S => S
  | n + 1, S =>
    let S' := expand h S
    if S'.length = S.length then S else reachList h n S'

/-- the two heaps hold the same record at every address of `S` -/
def agreeOnB [DecidableEq δ] (S : List Nat) (h1 h2 : Heap δ) : Bool :=
  S.all (fun a => decide (get h1 a = get h2 a))

/-! ### mutation histories on two sides -/

/-- a field-level mutation: side `false` = operand side, `true` = result side -/
structure Step (δ : Type) where
  side : Bool
  addr : Nat
  obj  : Obj δ
  deriving DecidableEq, Repr

/-- the heap together with the address sets the two sides own (over-approximations of their
    reach sets, closed under references) -/
structure St (δ : Type) where
  heap : Heap δ
  sa : List Nat
  sb : List Nat

def St.mine (st : St δ) (s : Bool) : List Nat := if s then st.sb else st.sa

/-- the discipline: write only your own or fresh objects, never the other side's; store only
    references to your own objects, to the written object itself, or to fresh addresses the other
    side does not own -/
def stepOkB (st : St δ) (w : Step δ) : Bool :=
  !(st.mine (!w.side)).contains w.addr &&
  ((st.mine w.side).contains w.addr || (get st.heap w.addr).isNone) &&
  w.obj.ptrs.all (fun p => (st.mine w.side).contains p || p == w.addr ||
    ((get st.heap p).isNone && !(st.mine (!w.side)).contains p))

def applyStep (st : St δ) (w : Step δ) : St δ :=
  if w.side then { heap := set st.heap w.addr w.obj, sa := st.sa, sb := w.addr :: (w.obj.ptrs ++ st.sb) }
  else { heap := set st.heap w.addr w.obj, sa := w.addr :: (w.obj.ptrs ++ st.sa), sb := st.sb }

def validB : St δ → List (Step δ) → Bool
  | _, [] => true
  | st, w :: ws => stepOkB st w && validB (applyStep st w) ws

def runAll : St δ → List (Step δ) → St δ
  | st, [] => st
  | st, w :: ws => runAll (applyStep st w) ws

/-- the independent state of side `s`: only that side's mutations are replayed -/
def runOnly (s : Bool) : Heap δ → List (Step δ) → Heap δ
  | h, [] => h
  | h, w :: ws => if w.side = s then runOnly s (set h w.addr w.obj) ws else runOnly s h ws

/-- all writes of a history, whoever performs them -/
def writeAll : Heap δ → List (Step δ) → Heap δ
  | h, [] => h
  | h, w :: ws => writeAll (set h w.addr w.obj) ws

/-- separation of the two sides -/
def sepB (st : St δ) : Bool :=
  closedB st.heap st.sa && closedB st.heap st.sb && disjointB st.sa st.sb

/-! ### deep copy -/

def renObj (ρ : Nat → Nat) (o : Obj δ) : Obj δ := { data := o.data, ptrs := o.ptrs.map ρ }

/-- the new objects a pickle round trip of the closed set `S` creates: object `a` is rebuilt at
    `ρ a` with every reference redirected through `ρ` -/
def copyWith (ρ : Nat → Nat) (h : Heap δ) : List Nat → Heap δ
  | [] => []
  | a :: S => match get h a with
    | none => copyWith ρ h S
    | some o => (ρ a, renObj ρ o) :: copyWith ρ h S

def deepcopy (ρ : Nat → Nat) (h : Heap δ) (S : List Nat) : Heap δ := copyWith ρ h S ++ h

/-- executable side conditions of a copy: `ρ` is injective on `S` and sends `S` to fresh
    addresses outside `S` -/
def freshRenB (ρ : Nat → Nat) (h : Heap δ) (S : List Nat) : Bool :=
  S.all (fun a => (get h (ρ a)).isNone && !S.contains (ρ a)) &&
  S.all (fun a => S.all (fun b => a == b || ρ a != ρ b))

end
end Ft.C10
