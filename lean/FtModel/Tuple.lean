/-
  FtModel.Tuple — tuple coordinates (Python tuples of ints, compared lexicographically) and the
  prefix-matching path of `and_iterator`: the operand with shorter tuples is padded with `ANY`
  (equal to everything), so it matches every coordinate of the other operand that extends it, and
  on a match only the longer side advances.
-/
import FtModel.Basic
import FtModel.Coiter
namespace Ft

/-- Python's lexicographic comparison of integer tuples -/
def lexLt : List Int → List Int → Bool
  | [], [] => false
  | [], _ :: _ => true
  | _ :: _, [] => false
  | a :: as, b :: bs => decide (a < b) || (decide (a = b) && lexLt as bs)

/-- a tuple coordinate (an int `c` is the 1-tuple `(c,)`) -/
structure TCoord where
  v : List Int
  deriving DecidableEq, Repr

instance : LT TCoord := ⟨fun x y => lexLt x.v y.v = true⟩
instance : DecidableRel (α := TCoord) (· < ·) := fun x y => inferInstanceAs (Decidable (lexLt x.v y.v = true))

def TCoord.take (k : Nat) (c : TCoord) : TCoord := ⟨c.v.take k⟩

section
variable {α β : Type}

/-- `a & b` where `a`'s coordinates are `k`-tuples and `b`'s are longer tuples: compare `a`'s
    coordinate with the `k`-prefix of `b`'s; on a match yield `b`'s coordinate and advance `b` only -/
def prefixAndMerge (k : Nat) : Fib TCoord α → Fib TCoord β → Fib TCoord (α × β)
  | [], _ => []
  | _ :: _, [] => []
  | (ca, pa) :: ra, (cb, pb) :: rb =>
    if ca = cb.take k then (cb, (pa, pb)) :: prefixAndMerge k ((ca, pa) :: ra) rb
    else if ca < cb.take k then prefixAndMerge k ra ((cb, pb) :: rb)
    else prefixAndMerge k ((ca, pa) :: ra) rb
termination_by a b => a.length + b.length

/-- truth table: the elements of the long operand whose `k`-prefix the short operand presents -/
def prefixAndSpec (k : Nat) (a : Fib TCoord α) (b : Fib TCoord β) : Fib TCoord (α × β) :=
  b.filterMap (fun e => (lookup a (e.1.take k)).map (fun pa => (e.1, (pa, e.2))))

end
end Ft
