/-
  FtModel.Split — the splitters of fibertree/core/fiber.py (C08).

  Mirrors, loop by loop:
    * `_SplitterUniform.__iter__`            (fiber.py:3447-3513)  → `uLoop` / `splitUniformIter`
    * `_splitNonUniform_iter`                (fiber.py:3591-3704)  → `nuLoop` / `splitNonUniformIter`
    * boundary selection of `splitEqual`     (fiber.py:3750-3764)  → `equalBounds`
    * boundary selection of `splitUnEqual`   (fiber.py:3821-3842)  → `unequalBounds`
    * `__truediv__` / `__floordiv__`         (fiber.py:3311-3397)  → `truedivStep` / `floordivStep`
    * `_splitGeneric` + `updatePayloads`     (fiber.py:3868-3943, 2516-2564) → `splitAt`

  The splitters only look at what iteration of a compressed ("C") rank presents: the non-empty
  elements, in storage order, and at the fiber's active range `[as, ae)`.  They are polymorphic
  in the payload type `π`, so "payloads unchanged" is carried by the type.
  A Python `ValueError` (`min()` of an empty list) is `none`.

  The second half of the file is the declarative side: partition membership predicates and the
  specifications `uSpec`, `nuSpec`, `chunksOf`, `takeChunks`.
-/
import FtModel.Basic
namespace Ft

/-- What a splitter yields per partition (`build_elem`): the upper coordinate, the lower
    fiber's elements and the lower fiber's active range `[lo, hi)`. -/
structure Part (π : Type) where
  start : Int
  elems : Fib Int π
  lo : Int
  hi : Int
  deriving Repr, DecidableEq

/-- decidable equality of trees (the type is defined by recursion on the depth) -/
def Tree.decEq {κ ν : Type} [DecidableEq κ] [DecidableEq ν] : (d : Nat) → DecidableEq (Tree κ ν d)
  | 0 => inferInstanceAs (DecidableEq ν)
  | d + 1 =>
    have := Tree.decEq (κ := κ) (ν := ν) d
    inferInstanceAs (DecidableEq (List (κ × Tree κ ν d)))

instance {κ ν : Type} [DecidableEq κ] [DecidableEq ν] {d : Nat} : DecidableEq (Tree κ ν d) :=
  Tree.decEq d

section
variable {π : Type}

/-- `build_elem`: optional relative coordinates, active range handed in by the caller -/
def mkPart (rel : Bool) (P lo hi : Int) (b : Fib Int π) : Part π :=
  ⟨P, if rel then b.map (fun e => (e.1 - P, e.2)) else b,
   -- since /repo COMMIT:C14-03 the range of a relative partition is relative too
   if rel then lo - P else lo, if rel then hi - P else hi⟩

/-- `min(inds)` -/
def minOf : List Nat → Option Nat
  | [] => none
  | a :: r => some (r.foldl min a)

/-! ### `_SplitterUniform` -/

/-- The partitions built so far: `upper_coords` zipped with `lower_coords/lower_payloads`. -/
abbrev Buckets (π : Type) := Fib Int (Fib Int π)

/-- `if part in upper_coords[search_start:]: i = upper_coords.index(part)` else append a new
    partition; then append the element to partition `i`.  Returns the new state and `i`. -/
def uAdd (st : Buckets π) (ss : Nat) (P : Int) (x : Int × π) : Buckets π × Nat :=
  if (st.drop ss).any (fun b => b.1 == P) then
    let i := st.findIdx (fun b => b.1 == P)
    (st.modify i (fun b => (b.1, b.2 ++ [x])), i)
  else (st ++ [(P, [x])], st.length)

/-- the `while part < part_end` loop, over the successive values of `part` -/
def uParts (step as ae : Int) (x : Int × π) (ss : Nat) :
    List Int → Buckets π → List Nat → Buckets π × List Nat
  | [], st, inds => (st, inds)
  | P :: rest, st, inds =>
    if P + step ≤ as then uParts step as ae x ss rest st inds      -- before the active range: continue
    else if ae ≤ P then (st, inds)                                  -- after the active range: break
    else
      let r := uAdd st ss P x
      uParts step as ae x ss rest r.1 (inds ++ [r.2])

/-- the values `part` takes: `(c-post)//step*step`, … , `(c+pre)//step*step` -/
def uPartList (step pre post c : Int) : List Int :=
  let k0 := (c - post) / step
  let k1 := (c + pre) / step
  (List.range (k1 + 1 - k0).toNat).map (fun (j : Nat) => (k0 + (j : Int)) * step)

/-- the `for c, p in self.fiber` loop -/
def uLoop (step pre post as ae : Int) : Fib Int π → Buckets π → Nat → Option (Buckets π)
  | [], st, _ => some st
  | x :: rest, st, ss =>
    if x.1 < as - pre then uLoop step pre post as ae rest st ss
    else if ae + post ≤ x.1 then some st
    else
      let r := uParts step as ae x ss (uPartList step pre post x.1) st []
      match minOf r.2 with
      | none => none                                              -- ValueError: min() of empty list
      | some m => uLoop step pre post as ae rest r.1 m

/-- `_SplitterUniform.__iter__` on the presented elements of a fiber with active range `[as, ae)` -/
def splitUniformIter (step pre post as ae : Int) (rel : Bool) (elems : Fib Int π) :
    Option (List (Part π)) :=
  (uLoop step pre post as ae elems [] 0).map
    (fun st => st.map (fun b => mkPart rel b.1 (max b.1 as) (min (b.1 + step) ae) b.2))

/-! ### `_splitNonUniform_iter` -/

/-- `splits[i] <= x` where `splits` has `∞` appended (`none`) -/
def leInf (b : Option Int) (x : Int) : Bool :=
  match b with
  | some s => decide (s ≤ x)
  | none => false

/-- `self.splits[i+1] + post_halo` (∞ stays ∞) -/
def addInf (b : Option Int) (h : Int) : Option Int := b.map (· + h)

/-- `splitNonUniform(splits=<Fiber>)`: `splits.getCoords()` — boundaries handed over as a fiber are all
    its stored coordinates, whatever their payloads (explicit defaults, empty sub-fibers included) -/
def fiberCoords {ρ : Type} (f : Fib Int ρ) : List Int := f.map (·.1)

/-- the `while i < len(splits)` loop on the remaining boundaries `splits[i:]`; returns `inds` -/
def nuInner (as ae pre post c : Int) : Nat → List Int → List Nat
  | _, [] => []
  | i, s :: rest =>
    if leInf rest.head? as then nuInner as ae pre post c (i + 1) rest               -- continue
    else if ae ≤ s then []                                                          -- break
    else if leInf (addInf rest.head? post) c then nuInner as ae pre post c (i + 1) rest  -- continue
    else if c < s - pre then []                                                     -- break
    else i :: nuInner as ae pre post c (i + 1) rest

/-- the `for c, p in self.fiber` loop; `bk` = `lower_coords/lower_payloads`, one per boundary -/
def nuLoop (S : List Int) (as ae pre post : Int) :
    Fib Int π → List (Fib Int π) → Nat → Option (List (Fib Int π))
  | [], bk, _ => some bk
  | x :: rest, bk, ss =>
    if x.1 < as - pre then nuLoop S as ae pre post rest bk ss
    else if ae + post ≤ x.1 then some bk
    else if (match S[ss]? with | some s => decide (x.1 < s - pre) | none => true) then
      nuLoop S as ae pre post rest bk ss
    else
      let inds := nuInner as ae pre post x.1 ss (S.drop ss)
      let bk' := inds.foldl (fun b i => b.modify i (· ++ [x])) bk
      match minOf inds with
      | none => nuLoop S as ae pre post rest bk' ss               -- `if inds:` (fix 9ea13c4): search_start stays
      | some m => nuLoop S as ae pre post rest bk' m

/-- upper end of partition `i`: `min(splits[i+1], active_end)` with `splits[len] = ∞` -/
def nuHi (S : List Int) (ae : Int) (i : Nat) : Int :=
  match S[i + 1]? with
  | some t => min t ae
  | none => ae

/-- `_splitNonUniform_iter.__iter__` -/
def splitNonUniformIter (S : List Int) (pre post as ae : Int) (rel : Bool) (elems : Fib Int π) :
    Option (List (Part π)) :=
  (nuLoop S as ae pre post elems (List.replicate S.length []) 0).map
    (fun bk => (bk.zipIdx).filterMap (fun bi =>
      if bi.1.isEmpty then none
      else some (mkPart rel (S.getD bi.2 0) (max (S.getD bi.2 0) as) (nuHi S ae bi.2) bi.1)))

/-! ### position-space boundary selection -/

/-- `fiber.iterActive()`: stop at the first coordinate `≥ ae`, emit those `≥ as` -/
def iterActive (as ae : Int) (elems : Fib Int π) : Fib Int π :=
  (elems.takeWhile (fun e => decide (e.1 < ae))).filter (fun e => decide (as ≤ e.1))

/-- `_SplitterEqual.__init__`: `for i, (c, _) in enumerate(fiber.iterActive())` -/
def equalBounds (step as : Int) (act : Fib Int π) : List Int :=
  (act.zipIdx).filterMap (fun ei =>
    if ei.2 = 0 then some as
    else if (ei.2 : Int) % step = 0 then some ei.1.1
    else none)

/-- `_SplitterUnEqual.__init__`: the loop with `j` and `base` -/
def unequalLoop (sizes : List Int) (as : Int) : List ((Int × π) × Nat) → Nat → Nat → List Int
  | [], _, _ => []
  | ei :: rest, j, base =>
    -- (the first boundary is recorded before the sizes are tested: /repo COMMIT:C08-01)
    if ei.2 = 0 then as :: unequalLoop sizes as rest j base
    else if j = sizes.length then []                                                 -- break
    else if (ei.2 : Int) - (base : Int) = sizes.getD j 0 then
      ei.1.1 :: unequalLoop sizes as rest (j + 1) ei.2
    else unequalLoop sizes as rest j base

def unequalBounds (sizes : List Int) (as : Int) (act : Fib Int π) : List Int :=
  unequalLoop sizes as act.zipIdx 0 0

def splitEqualIter (step pre post as ae : Int) (rel : Bool) (elems : Fib Int π) :
    Option (List (Part π)) :=
  splitNonUniformIter (equalBounds step as (iterActive as ae elems)) pre post as ae rel elems

def splitUnEqualIter (sizes : List Int) (pre post as ae : Int) (rel : Bool) (elems : Fib Int π) :
    Option (List (Part π)) :=
  splitNonUniformIter (unequalBounds sizes as (iterActive as ae elems)) pre post as ae rel elems

/-- `__truediv__`: `(shape+partitions-1)//partitions` -/
def truedivStep (shape n : Int) : Int := (shape + n - 1) / n

/-- `__floordiv__`: `(len(self.coords)+partitions-1)//partitions` (raw occupancy) -/
def floordivStep (occupancy : Nat) (n : Int) : Int := ((occupancy : Int) + n - 1) / n

end

/-- `Tensor._splitGeneric`: the rank ids of the result — the rank that is split (`rankid=` names it and
    overrides `depth=`) is replaced by its two halves `id.1`, `id.0`, every other rank keeps its id -/
def splitRankIds (ids : List String) (k : Nat) : List String :=
  ids.take k ++ (match ids[k]? with
    | some i => [i ++ ".1", i ++ ".0"]
    | none => []) ++ ids.drop (k + 1)

/-! ### the splits on fibers, and the descent to a depth -/

inductive SplitOp
  | uniform (step : Int)
  | nonuniform (splits : List Int)
  | equal (step : Int)
  | unequal (sizes : List Int)
  deriving Repr, DecidableEq

structure SplitCfg where
  op : SplitOp
  pre : Int := 0
  post : Int := 0
  rel : Bool := false
  /-- `some (as, ae)`: an explicit active range / a declared or rank-wide shape;
      `none`: `getActive()` falls back to `(0, estimateShape())` of the fiber itself -/
  act : Option (Int × Int) := none
  /-- the rank being split has format "U" (`Fiber.__iter__` = `iterActiveShape`) -/
  fmtU : Bool := false
  deriving Repr

/-- dispatch on the kind of split, on presented elements -/
def splitIter {π : Type} (op : SplitOp) (pre post as ae : Int) (rel : Bool) (elems : Fib Int π) :
    Option (List (Part π)) :=
  match op with
  | .uniform step => splitUniformIter step pre post as ae rel elems
  | .nonuniform S => splitNonUniformIter S pre post as ae rel elems
  | .equal step => splitEqualIter step pre post as ae rel elems
  | .unequal sizes => splitUnEqualIter sizes pre post as ae rel elems

/-- the same with the two iterations kept apart: the position-space boundaries come from
    `iterActive()` (occupancy: `occ`), the partitions are filled from `Fiber.__iter__` (`elems`);
    the two differ for a rank of format "U" -/
def splitIterOn {π : Type} (op : SplitOp) (pre post as ae : Int) (rel : Bool) (occ elems : Fib Int π) :
    Option (List (Part π)) :=
  match op with
  | .uniform step => splitUniformIter step pre post as ae rel elems
  | .nonuniform S => splitNonUniformIter S pre post as ae rel elems
  | .equal step => splitNonUniformIter (equalBounds step as (iterActive as ae occ)) pre post as ae rel elems
  | .unequal sizes => splitNonUniformIter (unequalBounds sizes as (iterActive as ae occ)) pre post as ae rel elems

section
variable {ν : Type} [DecidableEq ν]

/-- what an uncompressed rank delivers for an absent coordinate: the default value / an empty fiber -/
def splitDefault (dflt : ν) : (d : Nat) → Tree Int ν d
  | 0 => dflt
  | _ + 1 => ([] : List (Int × Tree Int ν _))

/-- `Fiber.__iter__` of a rank of format "U" (`iterActiveShape` → `iterRangeShape(as, ae)`): every
    coordinate of the active range with its stored payload, or the default where nothing is stored -/
def presentU (dflt : ν) (d : Nat) (as ae : Int) (f : Tree Int ν (d + 1)) : Fib Int (Tree Int ν d) :=
  (List.range (ae - as).toNat).map (fun (i : Nat) =>
    (as + (i : Int), (lookup (show List (Int × Tree Int ν d) from f) (as + (i : Int))).getD (splitDefault dflt d)))

/-- what the splitters iterate over, by format.  (`if len(self.fiber) == 0: return` — a fiber that
    stores nothing is not iterated at all; this only matters for format "U", which would otherwise
    present a default for every coordinate of the range.) -/
def presentFmt (fmtU : Bool) (dflt : ν) (d : Nat) (as ae : Int) (f : Tree Int ν (d + 1)) :
    Fib Int (Tree Int ν d) :=
  if fmtU then
    (if (show List (Int × Tree Int ν d) from f).isEmpty then [] else presentU dflt d as ae f)
  else present dflt d f

/-- `Fiber.getActive()` of a fiber without explicit range / declared shape:
    `(0, maxCoord()+1)` where `maxCoord` is the last stored coordinate; `(0, 0)` when empty -/
def estActive {π : Type} (f : Fib Int π) : Int × Int :=
  match f.getLast? with
  | some e => (0, e.1 + 1)
  | none => (0, 0)

def effActive {π : Type} (act : Option (Int × Int)) (f : Fib Int π) : Int × Int :=
  match act with
  | some a => a
  | none => estActive f

/-- `_splitFiber`: the upper fiber as a list of partitions (`none`: the splitter raised) -/
def splitFiberParts (cfg : SplitCfg) (dflt : ν) (d : Nat) (f : Tree Int ν (d + 1)) :
    Option (List (Part (Tree Int ν d))) :=
  let a := effActive cfg.act (show List (Int × Tree Int ν d) from f)
  splitIterOn cfg.op cfg.pre cfg.post a.1 a.2 cfg.rel (present dflt d f)
    (presentFmt cfg.fmtU dflt d a.1 a.2 f)

/-- forget the active ranges: the result as a tree one level deeper -/
def partsTree (d : Nat) (ps : List (Part (Tree Int ν d))) : Tree Int ν (d + 2) :=
  show List (Int × Tree Int ν (d + 1)) from
    ps.map (fun p => (p.start, (show Tree Int ν (d + 1) from p.elems)))

def splitFiber (cfg : SplitCfg) (dflt : ν) (d : Nat) (f : Tree Int ν (d + 1)) :
    Option (Tree Int ν (d + 2)) :=
  (splitFiberParts cfg dflt d f).map (partsTree d)

/-- all-or-nothing map (an exception anywhere aborts the whole split) -/
def mapM? {α β : Type} (g : α → Option β) : List α → Option (List β)
  | [] => some []
  | a :: r => match g a with
    | none => none
    | some b => (mapM? g r).map (b :: ·)

/-- `_splitGeneric(splitter, depth=k)`: `updatePayloads` recurses over all stored payloads down to
    depth `k-1` and there replaces every stored payload — empty ones included, each at its own
    position (fiber.py:2557-2562 after fix 66a6b4f) — by its `_splitFiber` -/
def splitAt (cfg : SplitCfg) (dflt : ν) (d : Nat) : (k : Nat) → Tree Int ν (d + 1 + k) →
    Option (Tree Int ν (d + 2 + k))
  | 0, f => splitFiber cfg dflt d f
  | k + 1, f =>
    (mapM? (fun e => (splitAt cfg dflt d k e.2).map (fun t => (e.1, t)))
      (show List (Int × Tree Int ν (d + 1 + k)) from f)).map
      (fun l => show List (Int × Tree Int ν (d + 2 + k)) from l)

end

/-- the sub-tree reached by following a coordinate path of length `k` -/
def subAt {ν : Type} (d' : Nat) : (k : Nat) → Tree Int ν (d' + k) → List Int → Option (Tree Int ν d')
  | 0, t, [] => some t
  | 0, _, _ :: _ => none
  | _ + 1, _, [] => none
  | k + 1, t, c :: cs =>
    (lookup (show List (Int × Tree Int ν (d' + k)) from t) c).bind (fun s => subAt d' k s cs)

/-! ### Declarative side: partition membership and the specifications -/

section
variable {π : Type}

/-- the element is looked at at all: inside the active range extended by the halos -/
def inWindow (as ae pre post c : Int) : Bool :=
  decide (as - pre ≤ c) && decide (c < ae + post)

/-- uniform split: `c` lies in `[P - pre, P + step + post)` -/
def uMemb (step pre post as ae P c : Int) : Bool :=
  inWindow as ae pre post c && decide (P - pre ≤ c) && decide (c < P + step + post)

/-- the partition starts `k·step` whose interval `[P, P+step)` meets the active range, ascending -/
def uCands (step as ae : Int) : List Int :=
  let ka := as / step
  let kb := (ae - 1) / step
  (List.range (kb + 1 - ka).toNat).map (fun (j : Nat) => (ka + (j : Int)) * step)

/-- **Specification of the uniform split**: for every candidate partition start, ascending, the
    presented elements inside its halo-extended interval (and the halo-extended active range), in
    order; empty partitions are not created; active range = interval clipped to the parent's. -/
def uSpec (step pre post as ae : Int) (rel : Bool) (elems : Fib Int π) : List (Part π) :=
  (uCands step as ae).filterMap (fun P =>
    let b := elems.filter (fun e => uMemb step pre post as ae P e.1)
    if b.isEmpty then none else some (mkPart rel P (max P as) (min (P + step) ae) b))

/-- non-uniform split: partition `i` is `[S[i], S[i+1])` (the last one unbounded); it exists only
    if it meets the active range; `c` lies in its halo-extended interval -/
def nuMemb (S : List Int) (pre post as ae : Int) (i : Nat) (c : Int) : Bool :=
  match S[i]? with
  | none => false
  | some s =>
    inWindow as ae pre post c && !leInf S[i + 1]? as && decide (s < ae) &&
    decide (s - pre ≤ c) && !leInf (addInf S[i + 1]? post) c

/-- **Specification of the non-uniform split** -/
def nuSpec (S : List Int) (pre post as ae : Int) (rel : Bool) (elems : Fib Int π) : List (Part π) :=
  (List.range S.length).filterMap (fun i =>
    let b := elems.filter (fun e => nuMemb S pre post as ae i e.1)
    if b.isEmpty then none
    else some (mkPart rel (S.getD i 0) (max (S.getD i 0) as) (nuHi S ae i) b))

/-- consecutive chunks of `n` elements, remainder last (`splitEqual`) -/
def chunksOf {α : Type} (n : Nat) (l : List α) : List (List α) :=
  if h : n = 0 ∨ l = [] then [] else l.take n :: chunksOf n (l.drop n)
termination_by l.length
decreasing_by
  have h1 : n ≠ 0 := fun e => h (Or.inl e)
  have h2 : l ≠ [] := fun e => h (Or.inr e)
  have : 0 < l.length := List.length_pos_iff.2 h2
  simp only [List.length_drop]; omega

/-- chunks of the stated sizes, whatever remains goes into one last chunk (`splitUnEqual`) -/
def takeChunks {α : Type} : List Nat → List α → List (List α)
  | [], l => if l.isEmpty then [] else [l]
  | s :: ss, l => if l.isEmpty then [] else l.take s :: takeChunks ss (l.drop s)

/-- The declarative result of each kind of split, on presented elements.  For the splits in
    position space the boundaries are those the code selects; `chunkParts` below says what
    they amount to. -/
def specIter (op : SplitOp) (pre post as ae : Int) (rel : Bool) (elems : Fib Int π) : List (Part π) :=
  match op with
  | .uniform step => uSpec step pre post as ae rel elems
  | .nonuniform S => nuSpec S pre post as ae rel elems
  | .equal step => nuSpec (equalBounds step as (iterActive as ae elems)) pre post as ae rel elems
  | .unequal sizes => nuSpec (unequalBounds sizes as (iterActive as ae elems)) pre post as ae rel elems

/-- the declarative result with occupancy and iteration kept apart (format "U") -/
def specIterOn (op : SplitOp) (pre post as ae : Int) (rel : Bool) (occ elems : Fib Int π) : List (Part π) :=
  match op with
  | .uniform step => uSpec step pre post as ae rel elems
  | .nonuniform S => nuSpec S pre post as ae rel elems
  | .equal step => nuSpec (equalBounds step as (iterActive as ae occ)) pre post as ae rel elems
  | .unequal sizes => nuSpec (unequalBounds sizes as (iterActive as ae occ)) pre post as ae rel elems

/-- partitions made of consecutive non-empty chunks of the active elements: the first starts
    at the active start, every other at its first coordinate; each ends where the next starts,
    the last at the active end -/
def chunkPartsFrom (ae : Int) (rel : Bool) : Int → List (Fib Int π) → List (Part π)
  | _, [] => []
  | s, c :: rest =>
    let nxt := match rest with
      | (e :: _) :: _ => e.1
      | _ => ae
    mkPart rel s s nxt c :: chunkPartsFrom ae rel nxt rest

def chunkParts (as ae : Int) (rel : Bool) (cs : List (Fib Int π)) : List (Part π) :=
  chunkPartsFrom ae rel as cs

/-- position-space reading (halo 0): equal → chunks of `step`, remainder last; unequal → chunks of
    the stated sizes, whatever remains in one last chunk -/
def chunkSpec (op : SplitOp) (as ae : Int) (rel : Bool) (elems : Fib Int π) : Option (List (Part π)) :=
  let act := elems.filter (fun e => decide (as ≤ e.1) && decide (e.1 < ae))
  match op with
  | .equal step => some (chunkParts as ae rel (chunksOf step.toNat act))
  | .unequal sizes => some (chunkParts as ae rel (takeChunks (sizes.map Int.toNat) act))
  | _ => none

end
end Ft
