/-
  FtModel.Ranks — a tensor's rank bookkeeping (`Tensor.ranks[i].getFibers()`), with a fiber
  identified by its coordinate path from the root.  `pathsAt t i` is what a raw walk finds at
  depth `i`; the bookkeeping operations below mirror what the code does to the rank lists:
  `_addFiber` (depth-first registration), `_create_payload` → `_createDefault(addtorank=True)`
  → `Rank.append` on insertion, `_unregisterSubfibers` on `clear` / fiber assignment.
-/
import FtModel.Basic
import FtModel.Point
import FtModel.Mutate
namespace Ft

section
variable {κ ν : Type}

/-- the paths of the fibers found at depth `i` of a tree of `d` ranks (depth 0 = the root fiber) -/
def pathsAt : (d : Nat) → Tree κ ν d → Nat → List (List κ)
  | 0,     _, _     => []
  | _ + 1, _, 0     => [[]]
  | d + 1, f, i + 1 => (show List (κ × Tree κ ν d) from f).flatMap (fun e => (pathsAt d e.2 i).map (e.1 :: ·))

/-- rank lists: entry `i` lists the paths registered in rank `i` -/
abbrev RankLists (κ : Type) := List (List (List κ))

/-- `setRoot` / `_addFiber`: depth-first registration of every fiber -/
def regAll (d : Nat) (t : Tree κ ν d) : RankLists κ := (List.range d).map (pathsAt d t)

/-- append a path to rank `i` -/
def regAppend (R : RankLists κ) (i : Nat) (p : List κ) : RankLists κ :=
  R.mapIdx (fun j l => if j = i then l ++ [p] else l)

/-- `q` is a proper prefix of `p` -/
def properPrefix [DecidableEq κ] (q p : List κ) : Bool := q.length < p.length && q.isPrefixOf p

/-- `_unregisterSubfibers` of the fiber at `q`: every registered fiber strictly below it is removed -/
def unregBelow [DecidableEq κ] (R : RankLists κ) (q : List κ) : RankLists κ :=
  R.map (fun l => l.filter (fun p => !properPrefix q p))

end

section
variable {κ ν : Type} [LT κ] [DecidableRel (α := κ) (· < ·)] [DecidableEq κ]

/-- the registrations performed by `getPayloadRef(*p)`: one per created *fiber* (a created leaf
    payload is not a fiber), in top-down order, as (rank index, path from the root of `t`) -/
def refReg (dflt : ν) : (d : Nat) → Tree κ ν d → List κ → List (Nat × List κ)
  | 0,     _, _       => []
  | _ + 1, _, []      => []
  | d + 1, f, c :: cs =>
    match posLookup (show List (κ × Tree κ ν d) from f) c with
    | some s => (refReg dflt d s cs).map (fun r => (r.1 + 1, c :: r.2))
    | none =>
      (match d with
       | 0 => []
       | _ + 1 => [(1, [c])]) ++
      (refReg dflt d (defaultTree dflt d) cs).map (fun r => (r.1 + 1, c :: r.2))

/-- `Tensor.getPayloadRef(*p)` on the pair (tree, rank lists) -/
def refStepR (dflt : ν) (d : Nat) (t : Tree κ ν d) (R : RankLists κ) (p : List κ) : Tree κ ν d × RankLists κ :=
  (refAt dflt d t p, (refReg dflt d t p).foldl (fun R r => regAppend R r.1 r.2) R)

/-- `Fiber.clear()` of the fiber at path `q` on the pair (tree, rank lists) -/
def clearStepR (d : Nat) (t : Tree κ ν (d + 1)) (R : RankLists κ) (q : List κ) : Tree κ ν (d + 1) × RankLists κ :=
  ((atPath (fun _ _ => (([] : List _), Outcome.ok)) d t q).1, unregBelow R q)

/-- the rank lists after the sub-fiber at `q` has been replaced by `sub` the way fiber assignment does
    it: everything registered strictly below `q` is unregistered, then the fibers of the new sub-tree are
    registered in creation (depth-first) order -/
def replaceBelowR [DecidableEq κ] (R : RankLists κ) (q : List κ) (d' : Nat) (sub : Tree κ ν (d' + 1)) : RankLists κ :=
  (unregBelow R q).mapIdx (fun i l =>
    if q.length < i then l ++ (pathsAt (d' + 1) sub (i - q.length)).map (q ++ ·) else l)

/-- the rank lists after a populate loop (`z << a`, nested or not) has run on the fiber at `q`, turning
    the sub-tree `z` into `z'`: `_create_payload` appends every fiber it creates to the next rank and the
    clean-up pops it again if the body left it empty, so what remains appended are the fibers of `z'` that
    `z` did not have, in creation (= depth-first) order -/
def popRanksR [DecidableEq κ] (R : RankLists κ) (q : List κ) (d' : Nat) (z z' : Tree κ ν (d' + 1)) : RankLists κ :=
  R.mapIdx (fun i l =>
    if q.length < i then
      l ++ ((pathsAt (d' + 1) z' (i - q.length)).filter
              (fun p => !(pathsAt (d' + 1) z (i - q.length)).contains p)).map (q ++ ·)
    else l)

/-- the fiber reached by `path`, as a dependent pair (remaining payload depth, fiber) -/
def locate : (d : Nat) → Tree κ ν (d + 1) → List κ → Option (Σ d' : Nat, Tree κ ν (d' + 1))
  | d, f, [] => some ⟨d, f⟩
  | 0, _, _ :: _ => none
  | d + 1, f, c :: cs =>
    match lookup (show List (κ × Tree κ ν (d + 1)) from f) c with
    | none => none
    | some s => locate d s cs

inductive RankOp (κ : Type)
  | ref (p : List κ)
  | clear (q : List κ)

def rankStep (dflt : ν) (d : Nat) (s : Tree κ ν (d + 1) × RankLists κ) : RankOp κ → Tree κ ν (d + 1) × RankLists κ
  | .ref p => refStepR dflt (d + 1) s.1 s.2 p
  | .clear q => clearStepR d s.1 s.2 q

def rankRun (dflt : ν) (d : Nat) (s : Tree κ ν (d + 1) × RankLists κ) : List (RankOp κ) → Tree κ ν (d + 1) × RankLists κ
  | [] => s
  | op :: ops => rankRun dflt d (rankStep dflt d s op) ops

/-- executable Mirror: rank `i` is a permutation of the fibers found at depth `i` -/
def mirrorB (d : Nat) (t : Tree κ ν d) (R : RankLists κ) : Bool :=
  R.length == d && (List.range d).all (fun i => (R.getD i []).isPerm (pathsAt d t i))

end
end Ft

namespace Ft
section
variable {ν : Type} [DecidableEq ν]

/-- fiber assignment `f <<= g` at the fiber reached by `q`, on the pair (tree, rank lists): the
    tree transformer of `Mutate.lean` plus unregister-below / register-the-new-sub-tree -/
def assignStepR (dflt : ν) (d : Nat) (t : Tree Int ν (d + 1)) (R : RankLists Int) (q : List Int) (g : TreeArg ν) :
    Tree Int ν (d + 1) × RankLists Int :=
  match locate d t q with
  | some ⟨d', s⟩ => ((mstep dflt d t (.assignF q g)).1, replaceBelowR R q d' (fiberStep dflt (.assignF q g) d' s).1)
  | none => (t, R)

/-- a (nested) populate loop at the fiber reached by `q`, on the pair (tree, rank lists) -/
def populateStepR (dflt : ν) (d : Nat) (t : Tree Int ν (d + 1)) (R : RankLists Int) (q : List Int) (a : TreeArg ν)
    (leafF : List Int → ν → ν → ν) (inner : List Int → Inner Int) : Tree Int ν (d + 1) × RankLists Int :=
  match locate d t q with
  | some ⟨d', s⟩ => ((mstep dflt d t (.populate q a leafF inner)).1,
                    popRanksR R q d' s (fiberStep dflt (.populate q a leafF inner) d' s).1)
  | none => (t, R)

end
end Ft
