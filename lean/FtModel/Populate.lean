/-
  FtModel.Populate — `z << a` (iterators.py `lshift_iterator`, metrics off).

  `popLoop` mirrors the loop as written: the running position `a_pos` advanced by a lower
  bound in the *suffix* `coords[a_pos:]`, the `get_payload_pos` shortcut handed to
  `getPayload(.., allocate=False, start_pos=..)`, creation of the missing element *at
  `a_pos`*, the yield, the removal test with Python's operator precedence
  (`(maybe_remove and fiber and len == 0) or (not fiber and payload == default)`),
  deletion at `bisect_left(coords, b_coord)` and the `a_pos -= 1 … a_pos += 1` dance.

  The loop body (which runs between the yield and the removal test and may update the
  offered reference) is the parameter `body : coordinate → current payload → source payload
  → new payload`.  `popSpec` is the declarative two-list merge the loop is proved equal to.
-/
import FtModel.Basic
import FtModel.Point
namespace Ft

section
variable {κ π β : Type} [LT κ] [DecidableRel (α := κ) (· < ·)] [DecidableEq κ]

/-- `getPositionRef(c)`: create the element with payload `mk` if it is missing -/
def insertIfMissing (mk : π) (f : Fib κ π) (c : κ) : Fib κ π :=
  match posLookup f c with
  | some _ => f
  | none => insertAt f c mk

/-- one iteration's search, exactly as coded: returns (a_pos after the bisect, index found by
    getPayload's own search) -/
def popSearch (z : Fib κ π) (apos : Nat) (bc : κ) : Nat × Nat :=
  let apos1 := if z.isEmpty then apos else apos + lowerBound (z.drop apos) bc
  let gpp : Option Nat :=
    if z.isEmpty then none else
      match z[apos1]? with
      | some e => if e.1 = bc then some apos1 else (if apos1 = 0 then none else some (apos1 - 1))
      | none => if apos1 = 0 then none else some (apos1 - 1)
  let idx := match gpp with
    | some sp => coord2posFrom z sp bc
    | none => lowerBound z bc
  (apos1, idx)

/-- `mk` = the default payload `_create_payload` inserts; `rm new p` = the removal test -/
def popLoop (mk : π) (rm : Bool → π → Bool) (body : κ → π → β → π) :
    Fib κ π → Nat → Fib κ β → Fib κ π × List (κ × π × β)
  | z, _, [] => (z, [])
  | z, apos, (bc, bp) :: rest =>
    let s := popSearch z apos bc
    let ex : Option π := match z[s.2]? with
      | some e => if e.1 = bc then some e.2 else none
      | none => none
    let new := ex.isNone
    let cur := ex.getD mk
    let nv := body bc cur bp
    -- the element as it stands after the body ran (created at a_pos if it was missing)
    let z2 := if new then z.take s.1 ++ (bc, nv) :: z.drop s.1 else z.set s.2 (bc, nv)
    if rm new nv then
      let r := popLoop mk rm body (z2.eraseIdx (lowerBound z2 bc)) s.1 rest
      (r.1, (bc, cur, bp) :: r.2)
    else
      let r := popLoop mk rm body z2 (s.1 + 1) rest
      (r.1, (bc, cur, bp) :: r.2)

/-- what one offered coordinate leaves behind -/
def popKeep (rm : Bool → π → Bool) (new : Bool) (c : κ) (nv : π) : Fib κ π :=
  if rm new nv then [] else [(c, nv)]

/-- declarative populate: a merge of the destination with the source's coordinates -/
def popSpec (mk : π) (rm : Bool → π → Bool) (body : κ → π → β → π) : Fib κ π → Fib κ β → Fib κ π
  | z, [] => z
  | [], (bc, bp) :: rb => popKeep rm true bc (body bc mk bp) ++ popSpec mk rm body [] rb
  | (zc, zp) :: rz, (bc, bp) :: rb =>
    if zc < bc then (zc, zp) :: popSpec mk rm body rz ((bc, bp) :: rb)
    else if zc = bc then popKeep rm false bc (body bc zp bp) ++ popSpec mk rm body rz rb
    else popKeep rm true bc (body bc mk bp) ++ popSpec mk rm body ((zc, zp) :: rz) rb
termination_by z b => z.length + b.length

/-- the element a source coordinate `c` (with source payload `bp`) leaves in the destination -/
def popAt (mk : π) (rm : Bool → π → Bool) (body : κ → π → β → π) (z : Fib κ π) (c : κ) (bp : β) : Option π :=
  if rm (lookup z c).isNone (body c ((lookup z c).getD mk) bp) then none
  else some (body c ((lookup z c).getD mk) bp)

/-- the destination after the loop, as a function of the coordinate -/
def popExpect (mk : π) (rm : Bool → π → Bool) (body : κ → π → β → π) (z : Fib κ π) (b : Fib κ β) (c : κ) : Option π :=
  match lookup b c with
  | none => lookup z c
  | some bp => popAt mk rm body z c bp

/-- executable structural spec of populate on a candidate result `out` -/
def popSpecB [DecidableEq π] (mk : π) (rm : Bool → π → Bool) (body : κ → π → β → π)
    (z : Fib κ π) (b : Fib κ β) (out : Fib κ π) : Bool :=
  sortedB out &&
  (out.map (·.1) ++ z.map (·.1) ++ b.map (·.1)).all (fun c => decide (lookup out c = popExpect mk rm body z b c))

/-- what the loop yields: every source coordinate with the destination's current payload
    (the default if absent) and the source payload -/
def popYields (mk : π) (z : Fib κ π) (b : Fib κ β) : List (κ × π × β) :=
  b.map (fun e => (e.1, (lookup z e.1).getD mk, e.2))

end

/-! ### instantiation on trees -/
section
variable {κ ν β : Type} [LT κ] [DecidableRel (α := κ) (· < ·)] [DecidableEq κ] [DecidableEq ν]

/-- leaf rank: `a_payload == default` (whether new or not) -/
def rmLeaf (dflt : ν) : Bool → Tree κ ν 0 → Bool := fun _ v => decide ((show ν from v) = dflt)
/-- interior rank: newly created and still `len == 0` -/
def rmFiber (d : Nat) : Bool → Tree κ ν (d + 1) → Bool :=
  fun new f => new && (show List (κ × Tree κ ν d) from f).isEmpty

def rmOf (dflt : ν) : (d : Nat) → Bool → Tree κ ν d → Bool
  | 0 => rmLeaf dflt
  | d + 1 => rmFiber d

/-- `z << a` at one level of a tree, source already presented -/
def populate (dflt : ν) (d : Nat) (body : κ → Tree κ ν d → β → Tree κ ν d)
    (z : Tree κ ν (d + 1)) (src : Fib κ β) : Tree κ ν (d + 1) × List (κ × Tree κ ν d × β) :=
  popLoop (defaultTree dflt d) (rmOf dflt d) body (show List (κ × Tree κ ν d) from z) 0 src

end
end Ft

namespace Ft
section
variable {κ ν : Type} [LT κ] [DecidableRel (α := κ) (· < ·)] [DecidableEq κ] [DecidableEq ν]

/-- what the loop body does with an offered *sub-fiber*: run the nested populate loop over it,
    leave it alone, or only touch it (`getPositionRef(c')`: create an element below it without
    writing a leaf value) -/
inductive Inner (κ : Type) | recurse | skip | touch (c : κ)

/-- nested populate loops, one per rank, with a leaf body `leafF point current source` and an
    `inner` decision at every interior point -/
def popNest (dflt : ν) (leafF : List κ → ν → ν → ν) (inner : List κ → Inner κ) :
    (d : Nat) → List κ → Tree κ ν (d + 1) → Tree κ ν (d + 1) → Tree κ ν (d + 1)
  | 0, pre, z, a =>
    (populate dflt 0 (fun c (cur : Tree κ ν 0) (av : Tree κ ν 0) =>
      (leafF (pre ++ [c]) (show ν from cur) (show ν from av) : ν)) z (present dflt 0 a)).1
  | d + 1, pre, z, a =>
    (populate dflt (d + 1) (fun c (cur : Tree κ ν (d + 1)) (av : Tree κ ν (d + 1)) =>
      match inner (pre ++ [c]) with
      | .skip => cur
      | .touch c' => insertIfMissing (defaultTree dflt d) (show List (κ × Tree κ ν d) from cur) c'
      | .recurse => popNest dflt leafF inner d (pre ++ [c]) cur av) z
      (present dflt (d + 1) a)).1

end
end Ft
