/-
  FtModel.Intersect — the intersection cost models of fibertree/model/intersect.py
  (`LeaderFollowerIntersector`, `SkipAheadIntersector`, `TwoFingerIntersector`) together
  with the `intersect_<i>` trace emission of `Fiber.__and__` (and_iterator) and of the
  leader of `Fiber.intersection(style="leader-follower")` (fibertree/core/iterators.py),
  and the specifications of C19's first sentence.

  A trace is a list of rows.  A data row is what `Metrics.addUse` appends,
      iteration[:n] ++ point[:n-1] ++ [coord] ++ [pos]          (n = number of loop ranks),
  the header is the list of 2n+1 column names (only its length is ever read).
  The intersectors read the slice `row[n:2n]` (the point) of every data row.
-/
import FtModel.Basic
namespace Ft

/-- a point `prefix ++ [coord]` as the intersectors slice it out of a row -/
abbrev c19_Pt := List Int

/-- one row of a trace -/
inductive TRow
  | hdr (len : Nat)            -- the header row (column names); only `len()` of it is used
  | data (cells : List Int)
  deriving DecidableEq, Repr

def TRow.len : TRow → Nat
  | .hdr n => n
  | .data c => c.length

/-- `row[n:2n]`; a header row in data position is outside the model -/
def TRow.point (n : Nat) : TRow → Option c19_Pt
  | .hdr _ => none
  | .data c => some ((c.drop n).take n)

/-- Python's `<` on lists of ints (lexicographic) -/
def c19_lexLt : List Int → List Int → Bool
  | [], [] => false
  | [], _ :: _ => true
  | _ :: _, [] => false
  | x :: xs, y :: ys => if x < y then true else if x = y then c19_lexLt xs ys else false

/-- `point is None or fiber != point[:-1]` for the element after the finger -/
def endOf (fiber : List Int) : List c19_Pt → Bool
  | [] => true
  | q :: _ => decide (fiber ≠ q.dropLast)

/-- `fiber = point0[:-1] if point0 else None` -/
def fiberOf : List c19_Pt → Option (List Int)
  | [] => none
  | q :: _ => if q.isEmpty then none else some q.dropLast

/-! ### TwoFingerIntersector.addTraces

The lists are the not yet consumed parts of the two traces, the heads are `point0` /
`point1`, `[]` is `None`.  At the top of every iteration a finger that is still in an
earlier fiber (smaller outer point) is moved on without a comparison; then `fiber` is
`point0[:-1]`. -/

def tfLoop : List c19_Pt → List c19_Pt → Nat
  | p0 :: r0, p1 :: r1 =>
    if p0.isEmpty || p1.isEmpty then 0            -- `while point0 and point1`
    else if c19_lexLt p0.dropLast p1.dropLast then tfLoop r0 (p1 :: r1)     -- `continue`
    else if c19_lexLt p1.dropLast p0.dropLast then tfLoop (p0 :: r0) r1     -- `continue`
    else
      let fiber := p0.dropLast
      if p0 = p1 then 1 + tfLoop r0 r1
      else if c19_lexLt p0 p1 then
        -- advance finger 0; at the end of the fiber also forward finger 1
        if endOf fiber r0 then 1 + tfLoop r0 r1 else 1 + tfLoop r0 (p1 :: r1)
      else
        if endOf fiber r1 then 1 + tfLoop r0 r1 else 1 + tfLoop (p0 :: r0) r1
  | _, _ => 0
termination_by a b => a.length + b.length
decreasing_by all_goals (simp only [List.length_cons]; omega)

/-! ### SkipAheadIntersector.addTraces (`curr` ∈ {None, 0, 1}) -/

def saLoop : Option Nat → List c19_Pt → List c19_Pt → Nat
  | curr, p0 :: r0, p1 :: r1 =>
    if p0.isEmpty || p1.isEmpty then 0
    else if c19_lexLt p0.dropLast p1.dropLast then saLoop none r0 (p1 :: r1)   -- `curr = None; continue`
    else if c19_lexLt p1.dropLast p0.dropLast then saLoop none (p0 :: r0) r1
    else
      let fiber := p0.dropLast
      if p0 = p1 then
        1 + saLoop none r0 r1
      else if c19_lexLt p0 p1 then
        let inc := if curr ≠ some 0 then 1 else 0
        let r1' := if endOf fiber r0 then r1 else p1 :: r1
        -- `if fiber != old_fiber: curr = None`
        let curr' := if fiberOf r0 ≠ some fiber then none else some 0
        inc + saLoop curr' r0 r1'
      else
        let inc := if curr ≠ some 1 then 1 else 0
        let r0' := if endOf fiber r1 then r0 else p0 :: r0
        let curr' := if fiberOf r0' ≠ some fiber then none else some 1
        inc + saLoop curr' r0' r1
  | _, _, _ => 0
termination_by _ a b => a.length + b.length
decreasing_by
  all_goals simp only [List.length_cons]
  all_goals (try split) <;> (try simp only [List.length_cons]) <;> omega

/-- the state of an `Intersector` object -/
structure IState where
  started : Bool := false
  numRanks : Nat := 0
  count : Int := 0
  deriving DecidableEq, Repr

/-- first lines of both loops: the points and the `None` test (`return`).  `none` = a
    header row in data position (outside the model). -/
def startPts (n : Nat) (t0 t1 : List TRow) : Option (Option (List c19_Pt × List c19_Pt)) := do
  let q0 ← t0.mapM (TRow.point n)
  let q1 ← t1.mapM (TRow.point n)
  match q0, q1 with
  | _ :: _, _ :: _ => pure (some (q0, q1))
  | _, _ => pure none                                                    -- `return`

/-- `TwoFingerIntersector.addTraces(trace0, trace1)`: the header is thrown away on the first
    call that receives a non-empty `trace0` (`if not self.started and trace0`).  `none` only
    for a header row in data position (outside the model). -/
def tfAdd (s : IState) (t0 t1 : List TRow) : Option IState := do
  let (s, t0, t1) :=
    match s.started, t0 with
    | false, h :: r => ({ s with started := true, numRanks := (h.len - 1) / 2 }, r, t1.drop 1)
    | _, _ => (s, t0, t1)
  match ← startPts s.numRanks t0 t1 with
  | none => pure s
  | some (q0, q1) => pure { s with count := s.count + tfLoop q0 q1 }

/-- `SkipAheadIntersector.addTraces(trace0, trace1)` -/
def saAdd (s : IState) (t0 t1 : List TRow) : Option IState := do
  let (s, t0, t1) :=
    match s.started, t0 with
    | false, h :: r => ({ s with started := true, numRanks := (h.len - 1) / 2 }, r, t1.drop 1)
    | _, _ => (s, t0, t1)
  match ← startPts s.numRanks t0 t1 with
  | none => pure s
  | some (q0, q1) => pure { s with count := s.count + saLoop none q0 q1 }

/-- `LeaderFollowerIntersector.addTraces(trace)` -/
def lfAdd (s : IState) (t : List TRow) : IState :=
  if !s.started && !t.isEmpty then                   -- `if not self.started and traces[0]`
    { s with started := true, count := s.count + ((t.length : Int) - 1) }
  else { s with count := s.count + t.length }

/-- successive `addTraces` calls on a fresh object, then `getNumIntersects()` -/
def feed2 (add : IState → List TRow → List TRow → Option IState) :
    IState → List (List TRow × List TRow) → Option IState
  | s, [] => some s
  | s, (t0, t1) :: r => (add s t0 t1).bind (fun s' => feed2 add s' r)

def tfTotal (batches : List (List TRow × List TRow)) : Option Int :=
  (feed2 tfAdd {} batches).map (·.count)

def saTotal (batches : List (List TRow × List TRow)) : Option Int :=
  (feed2 saAdd {} batches).map (·.count)

def lfTotal (batches : List (List TRow)) : Int :=
  (batches.foldl lfAdd {}).count

/-! ### Trace emission of `a & b` (and_iterator) and of the leader of a leader-follower
intersection, for one pair of presented coordinate lists -/

/-- the uses `Metrics.addUse(rank, coord, pos, "intersect_i")` of and_iterator as
    (iteration stamp of the rank, coordinate), per operand, including the trailing use of
    the operand that is not exhausted.  `s` = number of merge steps done so far (every
    step ends in an `incIter`, the trailing uses come before the last one). -/
def andUses : Nat → List Int → List Int → List (Nat × Int) × List (Nat × Int)
  | _, [], [] => ([], [])
  | s, a :: _, [] => ([(s, a)], [])
  | s, [], b :: _ => ([], [(s, b)])
  | s, a :: ra, b :: rb =>
    if a = b then
      let r := andUses (s + 1) ra rb
      ((s, a) :: r.1, (s, b) :: r.2)
    else if a < b then
      let r := andUses (s + 1) ra (b :: rb)
      ((s, a) :: r.1, r.2)
    else
      let r := andUses (s + 1) (a :: ra) rb
      (r.1, (s, b) :: r.2)
termination_by _ a b => a.length + b.length
decreasing_by all_goals (simp only [List.length_cons]; omega)

/-- `iteration[:n] ++ point[:n-1] ++ [coord] ++ [pos]`; `pos` is and_iterator's own
    counter `a_pos`/`b_pos` (the number of uses emitted before). -/
def mkRows (oi pre : List Int) (uses : List (Nat × Int)) : List TRow :=
  uses.zipIdx.map (fun u => TRow.data (oi ++ [(u.1.1 : Int)] ++ pre ++ [u.1.2, (u.2 : Int)]))

/-- one intersected fiber pair as the loop nest presents it: iteration stamps and
    coordinates of the outer loop ranks, and the presented coordinates of the operands -/
structure FiberIn where
  oi  : List Int
  pre : List Int
  a   : List Int
  b   : List Int
  deriving DecidableEq, Repr

def FiberIn.rows (f : FiberIn) : List TRow × List TRow :=
  let u := andUses 0 f.a f.b
  (mkRows f.oi f.pre u.1, mkRows f.oi f.pre u.2)

/-- leader trace of `Fiber.intersection(a, b, style="leader-follower")`: one use per
    presented leader element, position = enumeration index, one `incIter` per element -/
def FiberIn.leaderRows (f : FiberIn) : List TRow :=
  mkRows f.oi f.pre (f.a.zipIdx.map (fun c => (c.2, c.1)))

/-- A walk of `a & b` over a coordinate window with upper bound `hi`
    (`(a & b).iterRange(lo, hi)`, `iterActive()` under an active range) is abandoned at the
    first element the intersection delivers at or beyond `hi` — a match; its two uses have been
    recorded, nothing follows (the and_iterator is not resumed, so no trailing use either).
    The uses are therefore those of a full walk of the operands cut behind that coordinate.
    The lower bound only suppresses deliveries, it does not change the uses. -/
def windowCut (hi : Int) (a b : List Int) : List Int × List Int :=
  match (a.filter (fun c => decide (hi ≤ c) && b.contains c)).head? with
  | none => (a, b)
  | some m => (a.filter (fun c => decide (c ≤ m)), b.filter (fun c => decide (c ≤ m)))

/-- the leader-follower intersection delivers every leader element: the walk is abandoned at
    the first leader coordinate at or beyond `hi` (its use has been recorded) -/
def windowCutLeader (hi : Int) (a : List Int) : List Int :=
  match (a.filter (fun c => decide (hi ≤ c))).head? with
  | none => a
  | some m => a.filter (fun c => decide (c ≤ m))

/-- rows accumulated by the consumable traces over a group of consecutive fibers -/
def groupRows (g : List FiberIn) : List TRow × List TRow :=
  (g.flatMap (fun f => f.rows.1), g.flatMap (fun f => f.rows.2))

/-- what successive `consumeTrace` calls return when the traces are consumed after each
    group of consecutive fibers.  A group may be empty (two consumptions with no intersection
    in between).  The header is written when the rank is registered, i.e. when the first
    intersection starts: it comes with the first non-empty group, consumptions before that
    return nothing at all. -/
def batchesOf (n : Nat) : List (List FiberIn) → List (List TRow × List TRow)
  | [] => []
  | [] :: r => ([], []) :: batchesOf n r
  | (f :: g) :: r =>
    (TRow.hdr (2 * n + 1) :: (groupRows (f :: g)).1, TRow.hdr (2 * n + 1) :: (groupRows (f :: g)).2)
      :: r.map groupRows

def leaderBatchesOf (n : Nat) : List (List FiberIn) → List (List TRow)
  | [] => []
  | [] :: r => [] :: leaderBatchesOf n r
  | (f :: g) :: r =>
    (TRow.hdr (2 * n + 1) :: (f :: g).flatMap FiberIn.leaderRows)
      :: r.map (fun g => g.flatMap FiberIn.leaderRows)

/-! ### Specifications (independent of traces: merges of the raw coordinate lists) -/

inductive Lab | M | L | R          -- match / advance the left operand / advance the right one
  deriving DecidableEq, Repr

/-- the steps of a two-finger merge of two coordinate lists, until either is exhausted -/
def mergeLabels {κ : Type} [LT κ] [DecidableRel (α := κ) (· < ·)] [DecidableEq κ] :
    List κ → List κ → List Lab
  | a :: ra, b :: rb =>
    if a = b then Lab.M :: mergeLabels ra rb
    else if a < b then Lab.L :: mergeLabels ra (b :: rb)
    else Lab.R :: mergeLabels (a :: ra) rb
  | _, _ => []
termination_by a b => a.length + b.length
decreasing_by all_goals (simp only [List.length_cons]; omega)

/-- two-finger cost: number of comparison steps before either list is exhausted -/
def tfSpec (a b : List Int) : Nat := (mergeLabels a b).length

/-- number of maximal runs of equal non-match labels: positions holding `L`/`R` whose
    predecessor is not the same label -/
def sameSideRuns (l : List Lab) : Nat :=
  ((none :: l.map some).zip l).countP (fun px => decide (px.2 ≠ Lab.M) && decide (px.1 ≠ some px.2))

/-- skip-ahead cost: maximal same-side runs plus matches -/
def saSpec (a b : List Int) : Nat :=
  sameSideRuns (mergeLabels a b) + (mergeLabels a b).count Lab.M

def tfSpecAll (fs : List FiberIn) : Nat := (fs.map (fun f => tfSpec f.a f.b)).sum
def saSpecAll (fs : List FiberIn) : Nat := (fs.map (fun f => saSpec f.a f.b)).sum
/-- leader-follower cost: the elements the leader presented -/
def lfSpecAll (fs : List FiberIn) : Nat := (fs.map (fun f => f.a.length)).sum

/-! ### Fibers that end with a lone trailing row (reported as branch tags by the driver)

`cleanEnd a b`: the merge of `a` and `b` does not end with a match that exhausts exactly
one of the operands (then the trailing use of the other operand directly follows a row
that both fingers have passed).  `clean`: additionally not exactly one operand is empty. -/

def cleanEnd {κ : Type} [LT κ] [DecidableRel (α := κ) (· < ·)] [DecidableEq κ] :
    List κ → List κ → Bool
  | a :: ra, b :: rb =>
    if a = b then (ra.isEmpty == rb.isEmpty) && cleanEnd ra rb
    else if a < b then cleanEnd ra (b :: rb)
    else cleanEnd (a :: ra) rb
  | _, _ => true
termination_by a b => a.length + b.length
decreasing_by all_goals (simp only [List.length_cons]; omega)

def clean (a b : List Int) : Bool := (a.isEmpty == b.isEmpty) && cleanEnd a b

/-- executable form of "strictly ascending" for presented coordinate lists -/
def c19_ascB : List Int → Bool
  | [] => true
  | [_] => true
  | x :: y :: r => decide (x < y) && c19_ascB (y :: r)

/-- the outer-loop points of the fibers of a group ascend (what a loop nest produces:
    every loop walks its fiber in coordinate order) -/
def ascPre : List FiberIn → Bool
  | [] => true
  | f :: g => g.all (fun h => c19_lexLt f.pre h.pre) && ascPre g

/-- row shape: `n` loop ranks -/
def FiberIn.shapeOk (n : Nat) (f : FiberIn) : Bool :=
  decide (f.oi.length + 1 = n) && decide (f.pre.length + 1 = n) && c19_ascB f.a && c19_ascB f.b

end Ft
