/-
  FtModel.Mutate — the public mutators of a fiber (fiber.py): `append`, `extend`,
  `__setitem__`, `getPositionRef`, `clear`, `updateCoords` (affine, depth 0), `updatePayloads`
  (depth 0), in-place scaling, dense reference iteration, fiber assignment, applied at any
  sub-fiber of a tree; each returns the new tree and an outcome class.  Where the code checks
  before it writes, a rejection leaves the tree as it was — mirrored here.
-/
import FtModel.Basic
import FtModel.Point
import FtModel.Populate
namespace Ft

inductive Outcome | ok | rejectedOrder | rejectedIndex | rejectedOther | badPath
  deriving DecidableEq, Repr

def Outcome.toString : Outcome → String
  | .ok => "ok" | .rejectedOrder => "rejected-order" | .rejectedIndex => "rejected-index"
  | .rejectedOther => "rejected-other" | .badPath => "bad-path"

section
variable {κ π : Type} [LT κ] [DecidableRel (α := κ) (· < ·)] [DecidableEq κ]

/-- `Fiber.append`: the order check (`maxCoord() < coord`, maxCoord = last coordinate) precedes the write -/
def appendF (f : Fib κ π) (c : κ) (v : π) : Fib κ π × Outcome :=
  match f.getLast? with
  | none => (f ++ [(c, v)], .ok)
  | some e => if e.1 < c then (f ++ [(c, v)], .ok) else (f, .rejectedOrder)

/-- `Fiber.extend`: a no-op for an `isEmpty` argument, otherwise `maxCoord() < other.coords[0]` -/
def extendF (emptyArg : Bool) (f g : Fib κ π) : Fib κ π × Outcome :=
  if emptyArg then (f, .ok) else
  match f.getLast?, g.head? with
  | some e, some h => if e.1 < h.1 then (f ++ g, .ok) else (f, .rejectedOrder)
  | _, _ => (f ++ g, .ok)

/-- left neighbour check of `__setitem__`: `position > 0 and coord <= coords[position-1]` rejects -/
def leftOk (f : Fib κ π) (pos : Nat) (c : Option κ) : Bool :=
  match c with
  | none => true
  | some c => pos == 0 || (match f[pos - 1]? with | some l => decide (l.1 < c) | none => true)

/-- right neighbour check: `position+1 < len and coord >= coords[position+1]` rejects -/
def rightOk (f : Fib κ π) (pos : Nat) (c : Option κ) : Bool :=
  match c with
  | none => true
  | some c => (match f[pos + 1]? with | some r => decide (c < r.1) | none => true)

/-- `Fiber.__setitem__(pos, CoordPayload(c?, v?))`: neighbour checks, then the writes -/
def setitemF (f : Fib κ π) (pos : Nat) (c : Option κ) (v : Option π) : Fib κ π × Outcome :=
  match f[pos]? with
  | none => (f, if c.isNone && v.isNone then .ok else if leftOk f pos c then .rejectedIndex else .rejectedOrder)
  | some old =>
    if leftOk f pos c && rightOk f pos c then (f.set pos (c.getD old.1, v.getD old.2), .ok)
    else (f, .rejectedOrder)

/-- `Fiber.getPositionRef(c)`: create the element if missing -/
def posrefF (mk : π) (f : Fib κ π) (c : κ) : Fib κ π := insertIfMissing mk f c

end

section
variable {π : Type}
/-- `Fiber.updateCoords` with the affine map `c ↦ k*c + m` (k ≠ 0): rewrite, re-sort if needed -/
def updCoordsF (k m : Int) (f : Fib Int π) : Fib Int π :=
  let g := f.map (fun e => (k * e.1 + m, e.2))
  if k < 0 then g.reverse else g
end

section
variable {κ ν : Type} [LT κ] [DecidableRel (α := κ) (· < ·)] [DecidableEq κ]

/-- apply a fiber-level transformer at the sub-fiber reached by `path` -/
def atPath (F : (d : Nat) → Tree κ ν (d + 1) → Tree κ ν (d + 1) × Outcome) :
    (d : Nat) → Tree κ ν (d + 1) → List κ → Tree κ ν (d + 1) × Outcome
  | d, f, [] => F d f
  | 0, f, _ :: _ => (f, .badPath)
  | d + 1, f, c :: cs =>
    match lookup (show List (κ × Tree κ ν (d + 1)) from f) c with
    | none => (f, .badPath)
    | some s =>
      let r := atPath F d s cs
      ((show List (κ × Tree κ ν (d + 1)) from f).map (fun e => if e.1 = c then (e.1, r.1) else e), r.2)

/-- dense reference iteration `iterRangeShapeRef(s, e, step)` at a fiber: `getPayloadRef(c)` for
    every visited coordinate (creating the default where absent) -/
def denseRefF (dflt : ν) (d : Nat) (f : Tree κ ν (d + 1)) (cs : List κ) : Tree κ ν (d + 1) :=
  cs.foldl (fun t c => refAt dflt (d + 1) t [c]) f

end
end Ft

namespace Ft
section
variable {ν : Type} [DecidableEq ν]

/-- an argument that is a tree whose depth is fixed by where it is used (a leaf value where a
    leaf is expected, a fiber of the right depth elsewhere) -/
structure TreeArg (ν : Type) where
  get : (d : Nat) → Option (Tree Int ν d)

/-- the public mutators of C01, applied at the sub-fiber reached by `at` -/
inductive MutOp (ν : Type)
  | ref (p : List Int)
  | posref (at_ : List Int) (c : Int)
  | append (at_ : List Int) (c : Int) (v : TreeArg ν)
  | extend (at_ : List Int) (g : TreeArg ν)
  | setitem (at_ : List Int) (pos : Nat) (c : Option Int) (v : Option (TreeArg ν))
  | clear (at_ : List Int)
  | updCoords (at_ : List Int) (k m : Int)
  | updPayloads (at_ : List Int) (g : ν → ν)
  | denseRef (at_ : List Int) (cs : List Int) (w : List (Int × ν))
  | assignF (at_ : List Int) (g : TreeArg ν)
  | populate (at_ : List Int) (a : TreeArg ν) (leafF : List Int → ν → ν → ν) (inner : List Int → Inner Int)

/-- write `v` at the (existing) leaf coordinate `c` of a leaf fiber -/
def writeLeaf (f : Tree Int ν 1) (c : Int) (v : ν) : Tree Int ν 1 :=
  (show List (Int × Tree Int ν 0) from f).map (fun e => if e.1 = c then (e.1, (v : ν)) else e)

def fiberStep (dflt : ν) : MutOp ν → (d : Nat) → Tree Int ν (d + 1) → Tree Int ν (d + 1) × Outcome
  | .ref _, _, f => (f, .ok)       -- handled at the root
  | .posref _ c, d, f => (posrefF (defaultTree dflt d) (show List (Int × Tree Int ν d) from f) c, .ok)
  | .append _ c v, d, f =>
    match v.get d with
    | some x => appendF (show List (Int × Tree Int ν d) from f) c x
    | none => (f, .rejectedOther)
  | .extend _ g, d, f =>
    match g.get (d + 1) with
    | some x => extendF (isEmpty dflt (d + 1) x) (show List (Int × Tree Int ν d) from f) (show List (Int × Tree Int ν d) from x)
    | none => (f, .rejectedOther)
  | .setitem _ pos c v, d, f =>
    match v with
    | none => setitemF (show List (Int × Tree Int ν d) from f) pos c none
    | some a =>
      match a.get d with
      | some x => setitemF (show List (Int × Tree Int ν d) from f) pos c (some x)
      | none => (f, .rejectedOther)
  | .clear _, _, _ => (([] : List _), .ok)
  | .updCoords _ k m, d, f =>
    if k = 0 then (f, .rejectedOther) else (updCoordsF k m (show List (Int × Tree Int ν d) from f), .ok)
  | .updPayloads _ g, d, f =>
    match d, f with
    | 0, f => ((show List (Int × Tree Int ν 0) from f).map (fun e => (e.1, (g (show ν from e.2) : ν))), .ok)
    | _ + 1, f => (f, .rejectedOther)
  | .denseRef _ cs w, d, f =>
    let t := denseRefF dflt d f cs
    match d, t with
    | 0, t => (w.foldl (fun t cv => if cs.contains cv.1 then writeLeaf t cv.1 cv.2 else t) t, .ok)
    | _ + 1, t => (t, .ok)
  | .assignF _ g, d, f =>
    match g.get (d + 1) with
    | some x => (nonEmpty dflt (d + 1) x, .ok)
    | none => (f, .rejectedOther)
  | .populate _ a leafF inner, d, f =>
    match a.get (d + 1) with
    | some x => (popNest dflt leafF inner d [] f x, .ok)
    | none => (f, .rejectedOther)

def MutOp.at : MutOp ν → List Int
  | .ref _ => []
  | .posref a _ | .append a _ _ | .extend a _ | .setitem a _ _ _ | .clear a | .updCoords a _ _
  | .updPayloads a _ | .denseRef a _ _ | .assignF a _ | .populate a _ _ _ => a

/-- one step of a history on a tree of `d+1` ranks -/
def mstep (dflt : ν) (d : Nat) (t : Tree Int ν (d + 1)) (op : MutOp ν) : Tree Int ν (d + 1) × Outcome :=
  match op with
  | .ref p => (refAt dflt (d + 1) t p, .ok)
  | op => atPath (fiberStep dflt op) d t op.at

def mrun (dflt : ν) (d : Nat) (t : Tree Int ν (d + 1)) : List (MutOp ν) → Tree Int ν (d + 1)
  | [] => t
  | op :: ops => mrun dflt d (mstep dflt d t op).1 ops

end
end Ft
