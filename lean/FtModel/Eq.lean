/-
  FtModel.Eq — `Fiber.__eq__` (fiber.py): iterate the union of the two fibers' presented
  elements; any one-sided row means "different"; two-sided rows compare payloads with
  `!=` (values at the leaves, recursively `__eq__` for sub-fibers).  Each side presents
  its elements relative to its own default.
-/
import FtModel.Basic
import FtModel.Coiter
namespace Ft

section
variable {κ ν : Type} [LT κ] [DecidableRel (α := κ) (· < ·)] [DecidableEq κ] [DecidableEq ν]

/-- verdict of one union row in `__eq__` -/
def eqRow {π : Type} (P : π → π → Bool) (r : κ × Mask × Option π × Option π) : Bool :=
  match r.2 with
  | (.AB, some x, some y) => P x y
  | _ => false

def fiberEq (da db : ν) : (d : Nat) → Tree κ ν d → Tree κ ν d → Bool
  | 0,     x, y => decide ((show ν from x) = (show ν from y))
  | d + 1, a, b => (orMerge (present da d a) (present db d b)).all (eqRow (fiberEq da db d))

end
end Ft
