/-
  FtModel.Trace — C16: the trace side of `fibertree/core/metrics.py` and the trace emission of the
  instrumented iterators (`iterRange`, `and_iterator`, leader-follower `intersection`,
  `lshift_iterator` incl. inserting / to_insert / move phase, `project_iterator`,
  `Fiber.getPayload(trace=…)`), metrics ON.

  Three layers (everything lives in `Ft.C16`):

  1. `MState` / `step` / `run` — the Metrics class as a state machine over the calls it receives
     (`Ev`): `trace`, `matchRanks`, `registerRank` (+ `_startTrace`), `addUse` (+ `_writeTrace` at
     `num_cached_uses`), `incIter`, `endIter`, `consumeTrace`, `endCollect`.  Files are `disk`,
     what `consumeTrace` returned is `consumed`.
  2. `Nest` — the grammar of what a perfect loop nest makes the iterators call, with the local
     `iteration = Metrics.getIter().copy()` / `iteration[i] += 1` registers of `lshift_iterator`
     and `project_iterator` as `save` / `bump` / `useSaved`; `flatten` turns a nest into the
     call sequence, `rowsNest` is the buffer-free, odometer-free reading of the same nest
     (explicit counters instead of the global `iteration` / `point` lists).
  3. the emission of the individual iterators (`andSteps`, `lfSteps`, `projSteps`, `iterItems`,
     `lazyItems`, `popItems`) and `interp`, the interpreter of a loop nest over operand trees.

  Not modelled: tuple coordinates (`rank_flatten`), union traces, `fiber_label` (labels are
  assigned statically per loop form), `project(start_pos=…, tick=True)`, reversed projections.
-/
import FtModel.Basic
import FtModel.Coiter
import FtModel.Point
import FtModel.Populate
namespace Ft.C16

/-! ## 1. The Metrics class (trace side) -/

abbrev Key := String × String          -- (rank, type_)

/-- one line of a trace: the header or a data row -/
inductive Line
  | hdr (names : List String)
  | dat (vals : List Int)
  deriving DecidableEq, Repr, Inhabited

/-- `cls.traces[rank][type_] = (file_trace, mem_trace, is_started)` -/
structure Slot where
  file : Option (List Line) := none
  mem : Option (List Line) := none
  started : Bool := false
  deriving DecidableEq, Repr

def upd {α β : Type} [DecidableEq α] (f : α → β) (k : α) (v : β) : α → β :=
  fun k' => if k' = k then v else f k'

def aget {α β : Type} [DecidableEq α] (l : List (α × β)) (k : α) : Option β :=
  (l.find? (fun e => e.1 = k)).map (·.2)

def aset {α β : Type} [DecidableEq α] (l : List (α × β)) (k : α) (v : β) : List (α × β) :=
  if l.any (fun e => e.1 = k) then l.map (fun e => if e.1 = k then (k, v) else e) else l ++ [(k, v)]

structure MState where
  iteration : List Nat := []
  point : List Int := []
  loopOrder : List String := []                 -- `loop_order`; `line_order[r]` = index of `r` in it
  allMatches : List (String × List String) := []
  rankMatches : List (String × String) := []
  declared : List Key := []                     -- keys of `cls.traces`, in insertion order
  slots : Key → Option Slot := fun _ => none
  disk : Key → Option (List Line) := fun _ => none   -- `none` = the file does not exist
  consumed : Key → List Line := fun _ => []     -- everything `consumeTrace` has returned so far
  ncu : Nat := 1000                             -- `num_cached_uses`
  fault : Bool := false                         -- an `assert` of the class fired
  restarted : Bool := false                     -- ghost: irregular use of the API — a trace that already has
                                                -- lines is started or declared again, or a trace is declared
                                                -- after its rank was registered / matched

/-- the calls the class receives -/
inductive Ev
  | trace (r ty : String) (consumable : Bool)
  | matchR (r1 r2 : String)
  | reg (r : String)
  | use (r : String) (c pos : Int) (ty : String) (ovr : Option (List Nat))
  | inc (r : String)
  | endI (r : String)
  | consume (r ty : String)
  | endCollect
  deriving DecidableEq, Repr

def lineOrder (st : MState) (r : String) : Option Nat :=
  if st.loopOrder.idxOf r < st.loopOrder.length then some (st.loopOrder.idxOf r) else none

/-- `line_order[rank]` if registered, else `line_order[rank_matches[rank]]` -/
def levelOf (st : MState) (r : String) : Option Nat :=
  match lineOrder st r with
  | some i => some i
  | none => (aget st.rankMatches r).bind (lineOrder st)

def headerOf (names : List String) : Line :=
  .hdr (names.map (· ++ "_pos") ++ names ++ ["fiber_pos"])

/-- what the file of `k` holds once everything buffered has been written -/
def content (st : MState) (k : Key) : List Line :=
  (st.disk k).getD [] ++ (((st.slots k).bind (·.file)).getD [])

/-- everything the consumable trace of `k` has delivered or still holds -/
def memAll (st : MState) (k : Key) : List Line :=
  st.consumed k ++ (((st.slots k).bind (·.mem)).getD [])

/-- `_writeTrace`: append the buffer to the file, empty the buffer.  (Since the C15 repair the code opens the
    file of a trace that was never started with mode "w" instead of "a"; inside one session that begins with no
    file of that name — the only situation this machine describes — an unstarted trace has an empty file, so the
    two modes coincide.  The cross-session effect is modelled in FtModel/Metrics.lean, `fileBase`.) -/
def writeTrace (st : MState) (k : Key) : MState :=
  match st.slots k with
  | some s =>
    match s.file with
    | some buf =>
      { st with disk := upd st.disk k (some ((st.disk k).getD [] ++ buf)),
                slots := upd st.slots k (some { s with file := some [], started := true }) }
    | none => { st with fault := true }
  | none => { st with fault := true }

/-- `_startTrace`: (re)create the file, buffer the header -/
def startTrace (st : MState) (k : Key) : MState :=
  match levelOf st k.1 with
  | none => { st with fault := true }
  | some i =>
    match st.slots k with
    | none => { st with fault := true }
    | some s =>
      let h := headerOf (st.loopOrder.take (i + 1))
      let s' : Slot := ⟨s.file.map (· ++ [h]), s.mem.map (· ++ [h]), true⟩
      { st with disk := if s.file.isSome then upd st.disk k (some []) else st.disk,
                slots := upd st.slots k (some s'),
                restarted := st.restarted || !(content st k).isEmpty || !(memAll st k).isEmpty }

def startRank (st : MState) (r : String) : MState :=
  (st.declared.filter (fun k => k.1 = r)).foldl startTrace st

/-- `registerRank` -/
def registerRank (st : MState) (r : String) : MState :=
  if r ∈ st.loopOrder then st else
  let st1 := { st with iteration := st.iteration ++ [0], loopOrder := st.loopOrder ++ [r],
                       point := st.point ++ [0] }
  let st2 := startRank st1 r
  st.allMatches.foldl (fun s e =>
    if r ∈ e.2 then startRank { s with rankMatches := aset s.rankMatches e.1 r } e.1 else s) st2

/-- all ranks matched (directly or not) with `r1` or `r2` -/
def matchClosure (st : MState) (r1 r2 : String) : List String :=
  ((aget st.allMatches r1).getD [] ++ (aget st.allMatches r2).getD [] ++ [r1, r2]).eraseDups

/-- a rank `src` matched with the registered rank `r`: matched now unless it is registered or matched already -/
def matchApplySrc (r : String) (s : MState) (src : String) : MState :=
  if src ∈ s.loopOrder || (aget s.rankMatches src).isSome then s
  else startRank { s with rankMatches := aset s.rankMatches src r } src

def matchApplyRank (all : List String) (s : MState) (r : String) : MState :=
  if r ∈ s.loopOrder then (all.filter (· ≠ r)).foldl (matchApplySrc r) s else s

/-- `matchRanks`: the symmetric closure is recorded; a match with a rank that is already part of the
    loop order takes effect at once for every matched rank that is neither registered nor matched yet
    (otherwise `registerRank` applies it when the rank is registered) -/
def matchRanks (st : MState) (r1 r2 : String) : MState :=
  let all := matchClosure st r1 r2
  all.foldl (matchApplyRank all)
    { st with allMatches := all.foldl (fun am r => aset am r (all.filter (· ≠ r))) st.allMatches }

/-- the data row `iteration[:i+1] + point[:i] + [coord] + [pos]` -/
def dataRow (itn : List Nat) (pt : List Int) (i : Nat) (c pos : Int) : Line :=
  .dat ((itn.take (i + 1)).map Int.ofNat ++ pt.take i ++ [c] ++ [pos])

/-- `addUse` -/
def addUse (st : MState) (r : String) (c pos : Int) (ty : String) (ovr : Option (List Nat)) : MState :=
  match levelOf st r with
  | none => { st with fault := true }
  | some i =>
    let st1 := if r ∈ st.loopOrder then { st with point := st.point.set i c } else st
    match st1.slots (r, ty) with
    | none => st1
    | some s =>
      let data := dataRow (ovr.getD st1.iteration) st1.point i c pos
      let s' : Slot := { s with file := s.file.map (· ++ [data]), mem := s.mem.map (· ++ [data]) }
      let st2 := { st1 with slots := upd st1.slots (r, ty) (some s') }
      match s'.file with
      | some buf => if buf.length = st.ncu then writeTrace st2 (r, ty) else st2
      | none => st2

def incIter (st : MState) (r : String) : MState :=
  match levelOf st r with
  | some i => { st with iteration := st.iteration.modify i (· + 1) }
  | none => { st with fault := true }

def endIter (st : MState) (r : String) : MState :=
  match levelOf st r with
  | some i => { st with iteration := st.iteration.set i 0 }
  | none => { st with fault := true }

/-- `trace(rank, type_, consumable)` -/
def declTrace (st : MState) (r ty : String) (consumable : Bool) : MState :=
  let k : Key := (r, ty)
  let s := (st.slots k).getD {}
  { st with declared := if (st.slots k).isSome then st.declared else st.declared ++ [k],
            slots := upd st.slots k (some (if consumable then { s with mem := some [] } else { s with file := some [] })),
            restarted := st.restarted || !(content st k).isEmpty || !(memAll st k).isEmpty ||
                           (levelOf st r).isSome }

/-- `consumeTrace` -/
def consumeTrace (st : MState) (k : Key) : MState :=
  match st.slots k with
  | some s =>
    match s.mem with
    | some m => { st with consumed := upd st.consumed k (st.consumed k ++ m),
                          slots := upd st.slots k (some { s with mem := some [] }) }
    | none => { st with fault := true }
  | none => { st with fault := true }

/-- `endCollect`: write every file trace, consumable traces must have been consumed -/
def endCollect (st : MState) : MState :=
  st.declared.foldl (fun s k =>
    match s.slots k with
    | some sl =>
      let s1 := if sl.file.isSome then writeTrace s k else s
      match sl.mem with
      | some (_ :: _) => { s1 with fault := true }
      | _ => s1
    | none => s) st

def step (st : MState) : Ev → MState
  | .trace r ty c => declTrace st r ty c
  | .matchR r1 r2 => matchRanks st r1 r2
  | .reg r => registerRank st r
  | .use r c pos ty ovr => addUse st r c pos ty ovr
  | .inc r => incIter st r
  | .endI r => endIter st r
  | .consume r ty => consumeTrace st (r, ty)
  | .endCollect => endCollect st

def run (st : MState) (evs : List Ev) : MState := evs.foldl step st

/-- `beginCollect` followed by `setNumCachedUses n` -/
def init (n : Nat) : MState := { ncu := n }

/-! ## 2. Loop nests -/

/-- what the iterators of one loop level do between `registerRank` and `endIter` -/
inductive Item (σ : Type)
  | use (rank ty : String) (c pos : Int)                    -- `Metrics.addUse(rank, c, pos, type_=ty)`
  | useSaved (slot : Nat) (rank ty : String) (c pos : Int)  -- … with `iteration_num=iteration`
  | inc                                                     -- `Metrics.incIter(rank)`
  | save (slot : Nat)                                       -- `iteration = Metrics.getIter().copy()`
  | bump (slot : Nat)                                       -- `iteration[Metrics.getIndex(rank)] += 1`
  | sub (s : σ)                                             -- the loop body: the next loop level
  deriving Repr

/-- a loop nest of depth `d`: the rank of the outermost loop and what happens inside it -/
def Nest : Nat → Type
  | 0 => PUnit
  | d + 1 => String × List (Item (Nest d))

/-- the local state of one loop execution: the level's counter (`iteration[i]`), the level's entry
    of `point`, the saved copies -/
structure LSt where
  cnt : Nat := 0
  cur : Int := 0
  regs : Nat → Nat := fun _ => 0

/-- a data row before printing -/
structure Row where
  stamp : List Nat
  pt : List Int
  pos : Int
  deriving DecidableEq, Repr

def Row.line (r : Row) : Line := .dat (r.stamp.map Int.ofNat ++ r.pt ++ [r.pos])

section
variable {σ : Type} (tr : Key → Bool)

/-- rows of the items of one loop execution; `p` / `q` = counters / coordinates of the enclosing loops -/
def rowsItems (sem : σ → List Nat → List Int → List (Key × Row)) (rank : String) (p : List Nat) (q : List Int) :
    LSt → List (Item σ) → List (Key × Row)
  | _, [] => []
  | st, .use r ty c pos :: rest =>
    (if tr (r, ty) then [((r, ty), ⟨p ++ [st.cnt], q ++ [c], pos⟩)] else []) ++
      rowsItems sem rank p q { st with cur := if r = rank then c else st.cur } rest
  | st, .useSaved s r ty c pos :: rest =>
    (if tr (r, ty) then [((r, ty), ⟨p ++ [st.regs s], q ++ [c], pos⟩)] else []) ++
      rowsItems sem rank p q { st with cur := if r = rank then c else st.cur } rest
  | st, .inc :: rest => rowsItems sem rank p q { st with cnt := st.cnt + 1 } rest
  | st, .save s :: rest => rowsItems sem rank p q { st with regs := upd st.regs s st.cnt } rest
  | st, .bump s :: rest => rowsItems sem rank p q { st with regs := upd st.regs s (st.regs s + 1) } rest
  | st, .sub x :: rest => sem x (p ++ [st.cnt]) (q ++ [st.cur]) ++ rowsItems sem rank p q st rest

def rowsNest : (d : Nat) → Nest d → List Nat → List Int → List (Key × Row)
  | 0, _, _, _ => []
  | d + 1, (rank, items), p, q => rowsItems tr (rowsNest d) rank p q {} items

/-- the data rows of trace `k` -/
def rowsOf (d : Nat) (n : Nest d) (k : Key) : List Row :=
  ((rowsNest tr d n [] []).filter (fun e => e.1 = k)).map (·.2)

end

section
variable {σ : Type}

/-- the calls the items of one loop execution make -/
def flatItems (flat : σ → List Nat → List Ev) (rank : String) (p : List Nat) : LSt → List (Item σ) → List Ev
  | _, [] => []
  | st, .use r ty c pos :: rest => .use r c pos ty none :: flatItems flat rank p st rest
  | st, .useSaved s r ty c pos :: rest => .use r c pos ty (some (p ++ [st.regs s])) :: flatItems flat rank p st rest
  | st, .inc :: rest => .inc rank :: flatItems flat rank p { st with cnt := st.cnt + 1 } rest
  | st, .save s :: rest => flatItems flat rank p { st with regs := upd st.regs s st.cnt } rest
  | st, .bump s :: rest => flatItems flat rank p { st with regs := upd st.regs s (st.regs s + 1) } rest
  | st, .sub x :: rest => flat x (p ++ [st.cnt]) ++ flatItems flat rank p st rest

def flatten : (d : Nat) → Nest d → List Nat → List Ev
  | 0, _, _ => []
  | d + 1, (rank, items), p => .reg rank :: flatItems (flatten d) rank p {} items ++ [.endI rank]

end

/-! ### order of stamps -/

/-- lexicographic `≤` on stamps of equal length -/
def lexLe : List Nat → List Nat → Bool
  | [], _ => true
  | _ :: _, [] => false
  | a :: as, b :: bs => a < b || (a == b && lexLe as bs)

def lexLt : List Nat → List Nat → Bool
  | [], _ => false
  | _ :: _, [] => false
  | a :: as, b :: bs => a < b || (a == b && lexLt as bs)

def chainB {α : Type} (r : α → α → Bool) : List α → Bool
  | [] => true
  | [_] => true
  | a :: b :: rest => r a b && chainB r (b :: rest)


/-! ### well-nestedness: what makes the rows of a trace come out sorted -/

section
variable {σ : Type}

/-- the values of the level's counter stamped on the uses of key `k` among the items of one loop
    execution (uses inside the loop body are not looked at) -/
def levelStamps (k : Key) : LSt → List (Item σ) → List Nat
  | _, [] => []
  | st, .use r ty _ _ :: rest => (if (r, ty) = k then [st.cnt] else []) ++ levelStamps k st rest
  | st, .useSaved s r ty _ _ :: rest => (if (r, ty) = k then [st.regs s] else []) ++ levelStamps k st rest
  | st, .inc :: rest => levelStamps k { st with cnt := st.cnt + 1 } rest
  | st, .save s :: rest => levelStamps k { st with regs := upd st.regs s st.cnt } rest
  | st, .bump s :: rest => levelStamps k { st with regs := upd st.regs s (st.regs s + 1) } rest
  | st, .sub _ :: rest => levelStamps k st rest

/-- the loop body runs at most once per value of the level's counter -/
def sepB : Bool → List (Item σ) → Bool
  | _, [] => true
  | f, .sub _ :: rest => f && sepB false rest
  | _, .inc :: rest => sepB true rest
  | f, _ :: rest => sepB f rest

def subsOf : List (Item σ) → List σ
  | [] => []
  | .sub x :: rest => x :: subsOf rest
  | _ :: rest => subsOf rest

end

/-- key `k` is not used anywhere in the nest -/
def noKey (k : Key) : (d : Nat) → Nest d → Bool
  | 0, _ => true
  | d + 1, (_, items) => (levelStamps k {} items).isEmpty && (subsOf items).all (noKey k d)

def leB (a b : Nat) : Bool := decide (a ≤ b)
def ltB (a b : Nat) : Bool := decide (a < b)

/-- well-nestedness with respect to key `k`, which lives `here` levels below the outermost loop:
    above that level the loop body runs at most once per counter value and `k` is not used; at that
    level the stamps of `k`'s uses are non-decreasing (`strict`: increasing); below it `k` is not used -/
def wn (k : Key) (strict : Bool) : (here d : Nat) → Nest d → Bool
  | _, 0, _ => true
  | 0, d + 1, (_, items) =>
    chainB (if strict then ltB else leB) (levelStamps k {} items) && (subsOf items).all (noKey k d)
  | h + 1, d + 1, (_, items) =>
    sepB true items && (levelStamps k {} items).isEmpty && (subsOf items).all (wn k strict h d)

/-! ## 3. What the iterators emit -/

/-- what a lazy source does: calls of its own, and elements handed to its consumer -/
inductive Step (β : Type)
  | emit (i : Item PEmpty)
  | yield (c : Int) (p : β)

def Item.lift {σ : Type} : Item PEmpty → Item σ
  | .use r ty c pos => .use r ty c pos
  | .useSaved s r ty c pos => .useSaved s r ty c pos
  | .inc => .inc
  | .save s => .save s
  | .bump s => .bump s
  | .sub x => nomatch x

def optUse (t : Bool) (rank ty : String) (c : Int) (pos : Nat) : List (Item PEmpty) :=
  if t then [.use rank ty c pos] else []

section
variable {α β : Type}

/-- `and_iterator` (equal-arity path) over the presented elements of both operands.  `pa` / `pb` are
    what is left of `a_fiber.iterPositions()` / `b_fiber.iterPositions()`: the head is `a_pos` / `b_pos`,
    the position of the current element in its own fiber (the code advances them only when traced, and
    only reads them when traced). -/
def andSteps (rank tyA tyB : String) (ta tb : Bool) :
    List Nat → List Nat → Fib Int α → Fib Int β → List (Step (α × β))
  | _, _, [], [] => [.emit .inc]
  | pa, _, (ca, _) :: _, [] => (optUse ta rank tyA ca (pa.headD 0)).map .emit ++ [.emit .inc]
  | _, pb, [], (cb, _) :: _ => (optUse tb rank tyB cb (pb.headD 0)).map .emit ++ [.emit .inc]
  | pa, pb, (ca, xa) :: ra, (cb, xb) :: rb =>
    if ca = cb then
      (optUse ta rank tyA ca (pa.headD 0) ++ optUse tb rank tyB cb (pb.headD 0)).map .emit ++
        .yield ca (xa, xb) :: andSteps rank tyA tyB ta tb pa.tail pb.tail ra rb
    else if ca < cb then
      (optUse ta rank tyA ca (pa.headD 0)).map .emit ++
        .emit .inc :: andSteps rank tyA tyB ta tb pa.tail pb ra ((cb, xb) :: rb)
    else
      (optUse tb rank tyB cb (pb.headD 0)).map .emit ++
        .emit .inc :: andSteps rank tyA tyB ta tb pa pb.tail ((ca, xa) :: ra) rb
termination_by _ _ a b => a.length + b.length

/-- leader-follower `intersection`: `a` = presented elements of the leader with `pa` their positions in
    the leader fiber (`iterPositions()`), `b` = the follower as stored; the follower is probed with
    `getPayload(c, trace=…)` (which always calls `addUse`) -/
def lfSteps (rankA rankB tyA tyB : String) (ta : Bool) (dfl : β) (b : Fib Int β) :
    List Nat → Fib Int α → List (Step (α × β))
  | _, [] => []
  | pa, (c, p) :: rest =>
    (optUse ta rankA tyA c (pa.headD 0)).map .emit ++
      .emit (.use rankB tyB c (lowerBound b c)) ::
      .yield c (p, (posLookup b c).getD dfl) :: lfSteps rankA rankB tyA tyB ta dfl b pa.tail rest

/-- what a lazy operand does when its consumer asks for the next element: the calls it makes on the way,
    the element (if any), and what is left of it -/
def pullStep : List (Step β) → List (Item PEmpty) × Option (Int × β) × List (Step β)
  | [] => ([], none, [])
  | .emit i :: r => (i :: (pullStep r).1, (pullStep r).2.1, (pullStep r).2.2)
  | .yield c p :: r => ([], some (c, p), r)

theorem pullStep_len : ∀ (r : List (Step β)), (pullStep r).2.2.length ≤ r.length
  | [] => by simp [pullStep]
  | .emit i :: r => by have := pullStep_len r; simp only [pullStep, List.length_cons]; omega
  | .yield c p :: r => by simp [pullStep]

theorem pullStep_len_some : ∀ (r : List (Step β)), (pullStep r).2.1.isSome = true →
    (pullStep r).2.2.length < r.length
  | [], h => by simp [pullStep] at h
  | .emit i :: r, h => by
    have := pullStep_len_some r (by simpa [pullStep] using h)
    simp only [pullStep, List.length_cons]; omega
  | .yield c p :: r, _ => by simp [pullStep]

/-- `and_iterator` whose left operand delivers elements without calling Metrics (a lazy union) and whose
    right operand is itself a lazy stream (`b` = the element it holds, `rest` = what is left of it): the
    right operand's own calls happen whenever the intersection asks it for its next element.  Both operands
    are lazy, so `a_pos` / `b_pos` are running counts. -/
def andStream (rank tyA tyB : String) (ta tb : Bool) :
    Nat → Nat → Fib Int α → Option (Int × β) → List (Step β) → List (Step (α × β))
  | _, _, [], none, _ => [.emit .inc]
  | ap, _, (ca, _) :: _, none, _ => (optUse ta rank tyA ca ap).map .emit ++ [.emit .inc]
  | _, bp, [], some (cb, _), _ => (optUse tb rank tyB cb bp).map .emit ++ [.emit .inc]
  | ap, bp, (ca, xa) :: ra, some (cb, xb), rest =>
    if ca = cb then
      (optUse ta rank tyA ca ap ++ optUse tb rank tyB cb bp).map .emit ++
        .yield ca (xa, xb) :: ((pullStep rest).1.map .emit ++
          andStream rank tyA tyB ta tb (ap + 1) (bp + 1) ra (pullStep rest).2.1 (pullStep rest).2.2)
    else if ca < cb then
      (optUse ta rank tyA ca ap).map .emit ++
        .emit .inc :: andStream rank tyA tyB ta tb (ap + 1) bp ra (some (cb, xb)) rest
    else
      (optUse tb rank tyB cb bp).map .emit ++
        .emit .inc :: ((pullStep rest).1.map .emit ++
          andStream rank tyA tyB ta tb ap (bp + 1) ((ca, xa) :: ra) (pullStep rest).2.1 (pullStep rest).2.2)
termination_by _ _ a b rest => a.length + rest.length + (if b.isSome then 1 else 0)
decreasing_by
  all_goals simp_wf
  all_goals
    have h1 := pullStep_len rest
    have h2 := pullStep_len_some rest
    cases h : (pullStep rest).2.1.isSome <;> simp_all <;> omega

/-- `c >= interval[1]` / `c >= interval[0]` (no interval: never / always) -/
def aboveHi (hi : Option Int) (c : Int) : Bool := match hi with | some h => decide (h ≤ c) | none => false
def inLo (lo : Option Int) (c : Int) : Bool := match lo with | some l => decide (l ≤ c) | none => true

/-- `project_iterator` (`trans_fn = c + off`, optional `interval`, `start_pos=None`, `tick=False`)
    over the presented elements of the source fiber, `pa` their positions in it (`iterPositions()`);
    saved copy = slot 1 -/
def projLoop (srcRank ty : String) (t : Bool) (off : Int) (lo hi : Option Int) :
    List Nat → Fib Int α → List (Step α)
  | _, [] => []
  | pa, (oc, p) :: rest =>
    let c := oc + off
    if aboveHi hi c then []
    else if inLo lo c then
      .yield c p :: ((if t then [Step.emit (.useSaved 1 srcRank ty oc (pa.headD 0)), .emit (.save 1)] else []) ++
        projLoop srcRank ty t off lo hi pa.tail rest)
    else projLoop srcRank ty t off lo hi pa.tail rest

def projSteps (srcRank ty : String) (t : Bool) (off : Int) (lo hi : Option Int) (pa : List Nat) (a : Fib Int α) :
    List (Step α) :=
  .emit (.save 1) :: projLoop srcRank ty t off lo hi pa a

end

section
variable {σ S π β : Type}

/-- `iterRange` over a concrete fiber as stored (`tick=True`): position = storage index -/
def iterItems (rank : String) (emptyP : π → Bool) (body : S → Int → π → S × σ) :
    S → Nat → Fib Int π → S × List (Item σ)
  | s, _, [] => (s, [])
  | s, j, (c, p) :: rest =>
    if emptyP p then iterItems rank emptyP body s (j + 1) rest
    else
      let r := body s c p
      let t := iterItems rank emptyP body r.1 (j + 1) rest
      (t.1, .use rank "iter" c j :: .sub r.2 :: .inc :: t.2)

/-- `iterRange` over a lazy fiber (`tick=True`): position = index in the yielded sequence -/
def lazyItems (rank : String) (body : S → Int → β → S × σ) :
    S → Nat → List (Step β) → S × List (Item σ)
  | s, _, [] => (s, [])
  | s, j, .emit i :: rest =>
    let t := lazyItems rank body s j rest
    (t.1, i.lift :: t.2)
  | s, j, .yield c p :: rest =>
    let r := body s c p
    let t := lazyItems rank body r.1 (j + 1) rest
    (t.1, .use rank "iter" c j :: .sub r.2 :: .inc :: t.2)

/-- `iterRangeShapeRef(0, shape)` (`ref`, `tick=True`): every coordinate of the shape; `getPayloadRef(c)` calls
    `addUse(rank, c, index, type_=None)` — never a row, but it sets the rank's entry of `point` —
    and hands out the stored payload or a freshly created default.
    `iterRangeShape(0, extent)` (`ref = false`, what `__iter__` does on a rank of format "U"): the same walk
    through `getPayload(c)`, which does NOT call `addUse` (the rank's entry of `point` is never set) -/
def denseItems (rank : String) (ref : Bool) (dfl : π) (f : Fib Int π) (body : S → Int → π → S × σ) :
    S → Nat → Nat → S × List (Item σ)
  | s, _, 0 => (s, [])
  | s, c, n + 1 =>
    let r := body s c ((posLookup f (c : Int)).getD dfl)
    let t := denseItems rank ref dfl f body r.1 (c + 1) n
    (t.1, (if ref then [.use rank "" c (lowerBound f (c : Int))] else []) ++ .sub r.2 :: .inc :: t.2)

/-! ### `z << src` consumed by `iterRange` -/

structure PopCfg where
  rank : String
  readTy : String
  writeTy : String
  srcTy : String
  trR : Bool
  trW : Bool
  trB : Bool
  insertPos : Int          -- `a_fiber.getShape(all_ranks=False, authoritative=True)`
  compressed : Bool := true  -- `compressed_output`: the DESTINATION rank's format is "C"

structure PopSt (π : Type) where
  z : Fib Int π
  apos : Nat := 0
  bpos : Nat := 0
  inserting : Bool := false
  toInsert : List Int := []
  oldEnd : Int := 0
  insStart : Nat := 0
  bposs : Option (List Nat) := none   -- what is left of `b_fiber.iterPositions()` (`none`: 0, 1, 2, …)

/-- the search of an inserting populate: `a_fiber.iterRange(old_end, b_coord, tick=False, start_pos=a_pos)` -/
def scanReads (emptyP : π → Bool) (rank ty : String) (oldEnd bc : Int) (nIns : Nat) :
    Nat → Fib Int π → List (Item σ)
  | _, [] => []
  | k, (c, p) :: rest =>
    if bc ≤ c then []
    else (if oldEnd ≤ c && !emptyP p then [.use rank ty c ((k : Int) - nIns), .inc] else []) ++
      scanReads emptyP rank ty oldEnd bc nIns (k + 1) rest

variable (cfg : PopCfg) (mk : π) (rm : Bool → π → Bool) (emptyP : π → Bool)
  (body : Int → π → β → π × σ)

/-- before the element is looked up: `addUse(rank, b_coord, b_pos, b_trace)` and, when inserting, the
    traced search `a_fiber.iterRange(old_end, b_coord, tick=False, start_pos=a_pos)` -/
def popPre (st : PopSt π) (inserting : Bool) (bc : Int) : List (Item σ) :=
  (if cfg.trB then [.use cfg.rank cfg.srcTy bc (match st.bposs with | some l => l.headD 0 | none => st.bpos)] else []) ++
  (if inserting && decide (st.apos < st.z.length) && cfg.trR then
    scanReads emptyP cfg.rank cfg.readTy st.oldEnd bc st.toInsert.length st.apos (st.z.drop st.apos) else [])

/-- the read of an existing destination element -/
def popRd (new : Bool) (bc : Int) (pos : Int) : List (Item σ) :=
  if !new && cfg.trR then [.use cfg.rank cfg.readTy bc pos] else []

/-- after the body: the traced write of an element that is kept -/
def popPost (removed : Bool) (bc : Int) (wp : Int) : List (Item σ) :=
  if !removed && cfg.trW then [.bump 0, .useSaved 0 cfg.rank cfg.writeTy bc wp, .inc] else []

/-- one element offered by the source: everything from `for b_pos, (b_coord, b_payload)` to `a_pos += 1`,
    with the consumer's `addUse … yield … incIter` in the middle -/
def popYield (st : PopSt π) (bc : Int) (bp : β) : PopSt π × List (Item σ) :=
  let inserting := if cfg.compressed && decide (st.bpos = 0) then
      (match st.z.getLast? with | some e => decide (bc < e.1) | none => false) else st.inserting
  let nIns := st.toInsert.length
  let s := popSearch st.z st.apos bc
  let ex : Option π := match st.z[s.2]? with
    | some e => if e.1 = bc then some e.2 else none
    | none => none
  let new := ex.isNone
  let cur := ex.getD mk
  let r := body bc cur bp
  let z2 := if new then st.z.take s.1 ++ (bc, r.1) :: st.z.drop s.1 else st.z.set s.2 (bc, r.1)
  let removed := rm new r.1
  let staged := inserting && new
  let wp : Int := if staged then cfg.insertPos + nIns else (s.1 : Int) - nIns
  let items : List (Item σ) :=
    popPre cfg emptyP st inserting bc ++ .save 0 :: (popRd cfg new bc ((s.1 : Int) - nIns) ++
      .use cfg.rank "iter" bc st.bpos :: .sub r.2 :: .inc :: popPost cfg removed bc wp)
  let st' : PopSt π :=
    if removed then
      { st with z := z2.eraseIdx (lowerBound z2 bc), apos := s.1, bpos := st.bpos + 1, inserting := inserting,
                bposs := st.bposs.map List.tail }
    else if cfg.trW && staged then
      { z := z2, apos := s.1 + 1, bpos := st.bpos + 1, inserting := inserting,
        toInsert := st.toInsert ++ [bc], oldEnd := bc + 1,
        insStart := if st.toInsert.isEmpty then s.1 else st.insStart, bposs := st.bposs.map List.tail }
    else
      { st with z := z2, apos := s.1 + 1, bpos := st.bpos + 1, inserting := inserting,
                bposs := st.bposs.map List.tail }
  (st', items)

/-- the final move phase of an inserting populate: the elements from `insert_start_pos` on, last first -/
def moveLoop (zlen : Nat) : Nat → List Int → List Int → List (Item σ)
  | _, _, [] => []
  | i, ti, c :: rest =>
    let wp : Int := (zlen : Int) - i - 1
    let isLast := decide (ti.getLast? = some c)
    let rp : Int := if isLast then cfg.insertPos + ti.length - 1 else wp - ti.length
    .bump 0 :: ((if cfg.trR then [Item.useSaved 0 cfg.rank cfg.readTy c rp] else []) ++
      (if cfg.trW then [Item.useSaved 0 cfg.rank cfg.writeTy c wp] else []) ++
      moveLoop zlen (i + 1) (if isLast then ti.dropLast else ti) rest)

def moveItems (st : PopSt π) : List (Item σ) :=
  if st.inserting && !st.toInsert.isEmpty && (cfg.trR || cfg.trW) then
    moveLoop cfg st.z.length 0 st.toInsert
      ((((st.z.drop st.insStart).filter (fun e => !emptyP e.2)).map (·.1)).reverse)
  else []

def popItems : PopSt π → List (Step β) → PopSt π × List (Item σ)
  | st, [] => (st, moveItems cfg emptyP st)
  | st, .emit i :: rest =>
    let t := popItems st rest
    (t.1, i.lift :: t.2)
  | st, .yield c bp :: rest =>
    let y := popYield cfg mk rm emptyP body st c bp
    let t := popItems y.1 rest
    (t.1, y.2 ++ t.2)

end

/-! ### loop nests over operand trees -/

abbrev AnyTree := Σ d : Nat, Tree Int Int d

def children : AnyTree → Fib Int AnyTree
  | ⟨0, _⟩ => []
  | ⟨d + 1, f⟩ => (show List (Int × Tree Int Int d) from f).map (fun e => (e.1, ⟨d, e.2⟩))

/-- rebuild a fiber of payload depth `d` (children of another depth cannot occur and are dropped) -/
def mkFib (d : Nat) (es : Fib Int AnyTree) : AnyTree :=
  ⟨d + 1, (show List (Int × Tree Int Int d) from
    es.filterMap (fun e => if h : e.2.1 = d then some (e.1, h ▸ e.2.2) else none))⟩

def anyEmpty (dflt : Int) (t : AnyTree) : Bool := isEmpty dflt t.1 t.2
def anyDefault (dflt : Int) (d : Nat) : AnyTree := ⟨d, defaultTree dflt d⟩
def anyRm (dflt : Int) (new : Bool) (t : AnyTree) : Bool := rmOf dflt t.1 new t.2
def presentAny (dflt : Int) (t : AnyTree) : Fib Int AnyTree :=
  (children t).filter (fun e => !anyEmpty dflt e.2)
/-- `iterPositions()` of an eager fiber in compressed format: the indices of its non-empty elements -/
def presentIdx (dflt : Int) (t : AnyTree) : List Nat :=
  (((children t).zipIdx).filter (fun e => !anyEmpty dflt e.1.2)).map (·.2)
def depthBelow (t : AnyTree) : Nat := t.1 - 1

/-- what `__iter__(tick=False)` delivers: the non-empty elements of a rank of format "C"; for a rank of
    format "U" with extent `n` (`u = some n`) every coordinate `0 … n-1` with the stored payload or a default -/
def viewAny (dflt : Int) (u : Option Nat) (t : AnyTree) : Fib Int AnyTree :=
  match u with
  | none => presentAny dflt t
  | some n => (List.range n).map (fun (c : Nat) =>
      (Int.ofNat c, (posLookup (children t) (Int.ofNat c)).getD ⟨t.1 - 1, defaultTree dflt (t.1 - 1)⟩))

/-- `iterPositions()`: indices of the non-empty elements (format "C"), a running count (format "U") -/
def viewIdx (dflt : Int) (u : Option Nat) (t : AnyTree) : List Nat :=
  match u with
  | none => presentIdx dflt t
  | some n => List.range n

inductive SrcKind
  | fiber (x : Nat)
  | and (x y : Nat)
  | lf (x y : Nat)
  | proj (x : Nat) (srcRank : String) (off : Int) (lo hi : Option Int) (ownLabel : Bool)
  | dense (x : Nat) (shape : Nat)      -- `a.iterShapeRef()`: every coordinate of the shape, elements created
  | orAnd (x y : Nat)                  -- `(a | b) & (a & b)`: a union next to labelled operators
  deriving Repr

structure Level where
  rank : String
  src : SrcKind
  pop : Bool
  insertPos : Int := 0
  zU : Bool := false                   -- the destination rank is kept in format "U"
  uOps : List (Nat × Nat) := []        -- input operands whose rank at this level has format "U", with its extent
  deriving Repr

structure Env where
  ops : List AnyTree
  z : AnyTree

def opAt (env : Env) (x : Nat) : AnyTree := env.ops.getD x ⟨0, (0 : Int)⟩

def bindOps (ops : List AnyTree) (bs : List (Nat × AnyTree)) : List AnyTree :=
  ops.zipIdx.map (fun e => (aget bs e.2).getD e.1)

def leafVal : AnyTree → Int
  | ⟨0, v⟩ => v
  | _ => 1

/-- the innermost body: `z_ref += a_val * b_val` when the output has been consumed down to a leaf -/
def leafAct (env : Env) : AnyTree :=
  match env.z with
  | ⟨0, v⟩ => ⟨0, (show Int from v) + (env.ops.map leafVal).foldl (· * ·) 1⟩
  | t => t

def label (n : Nat) (s : String) : String := s ++ toString n

/-- the source of a level as a step stream; `l0` = first label it takes from `Metrics.getLabel` -/
def srcSteps (tr : Key → Bool) (dflt : Int) (rank : String) (l0 : Nat) (env : Env) (u : Nat → Option Nat) :
    SrcKind → List (Step (List (Nat × AnyTree)))
  | .fiber x => (viewAny dflt (u x) (opAt env x)).map (fun e => .yield e.1 [(x, e.2)])
  | .and x y =>
    let tyA := label l0 "intersect_"; let tyB := label (l0 + 1) "intersect_"
    (andSteps rank tyA tyB (tr (rank, tyA)) (tr (rank, tyB)) (viewIdx dflt (u x) (opAt env x)) (viewIdx dflt (u y) (opAt env y))
      (viewAny dflt (u x) (opAt env x)) (viewAny dflt (u y) (opAt env y))).map
      (fun s => match s with
        | .emit i => .emit i
        | .yield c p => .yield c [(x, p.1), (y, p.2)])
  | .lf x y =>
    let tyA := label l0 "intersect_"; let tyB := label (l0 + 1) "intersect_"
    (lfSteps rank rank tyA tyB (tr (rank, tyA)) (anyDefault dflt (depthBelow (opAt env y)))
      (children (opAt env y)) (viewIdx dflt (u x) (opAt env x)) (viewAny dflt (u x) (opAt env x))).map
      (fun s => match s with
        | .emit i => .emit i
        | .yield c p => .yield c [(x, p.1), (y, p.2)])
  | .proj x srcRank off lo hi own =>
    let ty := label (if own then 0 else l0) "project_"
    (projSteps srcRank ty (tr (srcRank, ty)) off lo hi (viewIdx dflt (u x) (opAt env x)) (viewAny dflt (u x) (opAt env x))).map
      (fun s => match s with
        | .emit i => .emit i
        | .yield c p => .yield c [(x, p)])
  | .dense _ _ => []
  | .orAnd x y =>
    -- labels: the outer `&` takes l0, l0+1; the union l0+2, l0+3 (never traced here); the inner `&` l0+4, l0+5
    let ty0 := label l0 "intersect_"; let ty1 := label (l0 + 1) "intersect_"
    let ty4 := label (l0 + 4) "intersect_"; let ty5 := label (l0 + 5) "intersect_"
    let inner := andSteps rank ty4 ty5 (tr (rank, ty4)) (tr (rank, ty5)) (viewIdx dflt (u x) (opAt env x))
      (viewIdx dflt (u y) (opAt env y)) (viewAny dflt (u x) (opAt env x)) (viewAny dflt (u y) (opAt env y))
    let un : Fib Int PUnit := (orMerge (viewAny dflt (u x) (opAt env x)) (viewAny dflt (u y) (opAt env y))).map
      (fun e => (e.1, PUnit.unit))
    (((pullStep inner).1.map (Step.emit (β := PUnit × AnyTree × AnyTree))) ++
      andStream rank ty0 ty1 (tr (rank, ty0)) (tr (rank, ty1)) 0 0 un (pullStep inner).2.1 (pullStep inner).2.2).map
      (fun s => match s with
        | .emit i => .emit i
        | .yield c p => .yield c [(x, p.2.1), (y, p.2.2)])

/-- `lshift_iterator` reads its source through `b_fiber.__iter__(tick=False)`; for a projection that is
    `iterRange` over the lazy projected fiber, which drops elements whose payload is empty (only a source
    rank of format "U" delivers such elements).  Tuples (`a & b`, leader-follower) are never empty. -/
def keepStep (dflt : Int) : Step (List (Nat × AnyTree)) → Bool
  | .yield _ [(_, p)] => !anyEmpty dflt p
  | _ => true

def popSource (tr : Key → Bool) (dflt : Int) (lv : Level) (env : Env) : List (Step (List (Nat × AnyTree))) :=
  match lv.src with
  | .proj .. => (srcSteps tr dflt lv.rank 2 env (aget lv.uOps) lv.src).filter (keepStep dflt)
  | _ => srcSteps tr dflt lv.rank 2 env (aget lv.uOps) lv.src

/-- the `PopCfg` of a level: destination label 0, source label 1 -/
def popCfgOf (tr : Key → Bool) (lv : Level) : PopCfg :=
  { rank := lv.rank, readTy := "populate_read_0", writeTy := "populate_write_0", srcTy := "populate_1",
    trR := tr (lv.rank, "populate_read_0"), trW := tr (lv.rank, "populate_write_0"),
    trB := tr (lv.rank, "populate_1"), insertPos := lv.insertPos, compressed := !lv.zU }

/-- one `for` of the nest: what its iterators call, given what the loop body does to the
    environment (returns the output subtree it leaves and its own nest) -/
def levelItems {σ : Type} (tr : Key → Bool) (dflt : Int) (lv : Level) (env : Env)
    (body : Env → AnyTree × σ) : AnyTree × List (Item σ) :=
  if lv.pop then
    let dz := depthBelow env.z
    let r := popItems (popCfgOf tr lv) (anyDefault dflt dz) (anyRm dflt) (anyEmpty dflt)
      (fun _ zc bs => body { ops := bindOps env.ops bs, z := zc })
      { z := children env.z,
        bposs := match lv.src with | .fiber x => some (viewIdx dflt (aget lv.uOps x) (opAt env x)) | _ => none }
      (popSource tr dflt lv env)
    (mkFib dz r.1.z, r.2)
  else
    match lv.src with
    | .fiber x =>
      match aget lv.uOps x with
      | none =>
        iterItems lv.rank (anyEmpty dflt)
          (fun zc _ p => body { ops := bindOps env.ops [(x, p)], z := zc })
          env.z 0 (children (opAt env x))
      | some n =>
        denseItems lv.rank false (anyDefault dflt (depthBelow (opAt env x))) (children (opAt env x))
          (fun zc _ p => body { ops := bindOps env.ops [(x, p)], z := zc })
          env.z 0 n
    | .dense x n =>
      denseItems lv.rank true (anyDefault dflt (depthBelow (opAt env x))) (children (opAt env x))
        (fun zc _ p => body { ops := bindOps env.ops [(x, p)], z := zc })
        env.z 0 n
    | src =>
      lazyItems lv.rank
        (fun zc _ bs => body { ops := bindOps env.ops bs, z := zc })
        env.z 0 (srcSteps tr dflt lv.rank 0 env (aget lv.uOps) src)

/-- a perfect loop nest: one `for` per level, innermost body `leafAct`; returns the output subtree
    as left by the nest and what the iterators called -/
def interp (tr : Key → Bool) (dflt : Int) : (D : Nat) → List Level → Env → AnyTree × Nest D
  | 0, _, env => (leafAct env, PUnit.unit)
  | _ + 1, [], env => (env.z, ("", []))
  | D + 1, lv :: rest, env =>
    let r := levelItems tr dflt lv env (interp tr dflt D rest)
    (r.1, (lv.rank, r.2))

/-- the `Metrics.trace` / `Metrics.matchRanks` calls made before the nest -/
def configEvs (traced : List Key) (consumable : Bool) (ms : List (String × String)) : List Ev :=
  traced.map (fun k => .trace k.1 k.2 consumable) ++ ms.map (fun m => .matchR m.1 m.2)

/-! ## 4. Executable specification (evaluated on the implementation's files) -/

/-- the level a trace key belongs to: the loop with that rank, or the loop fed by a projection of it -/
def keyLevel (levels : List Level) (rank : String) : Option Nat :=
  let i := levels.findIdx (fun lv => lv.rank = rank ||
    (match lv.src with | .proj _ sr _ _ _ _ => sr = rank | _ => false))
  if i < levels.length then some i else none

/-- the header a started trace of a key at level `i` must carry -/
def specHeader (levels : List Level) (i : Nat) : Line :=
  headerOf ((levels.take (i + 1)).map (·.rank))

/-- the operand's own coordinate at a level it takes part in; the flag says that a missing element
    is replaced by a default (the follower of a leader-follower intersection: `getPayload`) -/
def opCoordAt (lv : Level) (x : Nat) (c : Int) : Option (Int × Bool) :=
  let u := (aget lv.uOps x).isSome      -- a rank of format "U" hands out a default for a missing element
  match lv.src with
  | .fiber a => if a = x then some (c, u) else none
  | .and a b => if a = x ∨ b = x then some (c, u) else none
  | .lf a b => if a = x then some (c, u) else if b = x then some (c, true) else none
  | .proj a _ off _ _ _ => if a = x then some (c - off, u) else none
  | .dense a _ => if a = x then some (c, true) else none
  | .orAnd a b => if a = x ∨ b = x then some (c, u) else none

/-- follow the coordinates of the enclosing loops down operand `x` -/
def navigate (dflt : Int) (x : Nat) : AnyTree → List Level → List Int → Option AnyTree
  | t, [], _ => some t
  | t, _ :: _, [] => some t
  | t, lv :: ls, c :: cs =>
    match opCoordAt lv x c with
    | none => navigate dflt x t ls cs
    | some (oc, dfl) =>
      match aget (children t) oc with
      | some s => navigate dflt x s ls cs
      | none => if dfl then navigate dflt x (anyDefault dflt (depthBelow t)) ls cs else none

/-- the coordinates a level's source yields at a point (declaratively: set operations on the
    presented coordinates) -/
def specYields (dflt : Int) (u : Nat → Option Nat) (getOp : Nat → Option AnyTree) : SrcKind → List Int
  | .fiber x => ((getOp x).map (fun t => (viewAny dflt (u x) t).map (·.1))).getD []
  | .and x y =>
    let a := ((getOp x).map (fun t => (viewAny dflt (u x) t).map (·.1))).getD []
    let b := ((getOp y).map (fun t => (viewAny dflt (u y) t).map (·.1))).getD []
    a.filter (fun c => b.contains c)
  | .lf x _ => ((getOp x).map (fun t => (viewAny dflt (u x) t).map (·.1))).getD []
  | .proj x _ off lo hi _ =>
    (((getOp x).map (fun t => ((viewAny dflt (u x) t).filter (fun e => !anyEmpty dflt e.2)).map (·.1))).getD []).filterMap (fun oc =>
      let c := oc + off
      if aboveHi hi c then none
      else if inLo lo c then some c else none)
  | .dense _ n => (List.range n).map Int.ofNat
  | .orAnd x y =>
    let a := ((getOp x).map (fun t => (viewAny dflt (u x) t).map (·.1))).getD []
    let b := ((getOp y).map (fun t => (viewAny dflt (u y) t).map (·.1))).getD []
    a.filter (fun c => b.contains c)

/-- `pos` is the storage index of the non-empty element with coordinate `c` -/
def storageOK (dflt : Int) (t : Option AnyTree) (c pos : Int) : Bool :=
  match t with
  | some t => decide (0 ≤ pos) &&
    (match (children t)[pos.toNat]? with
     | some e => decide (e.1 = c) && !anyEmpty dflt e.2
     | none => false)
  | none => false

/-- `pos` is the ordinal of `c` among the non-empty elements (what the code reports) -/
def ordinalOK (dflt : Int) (t : Option AnyTree) (c pos : Int) : Bool :=
  match t with
  | some t => decide (0 ≤ pos) &&
    (match (presentAny dflt t)[pos.toNat]? with
     | some e => decide (e.1 = c)
     | none => false)
  | none => false

/-- `pos` is the index of `c` in the sequence of yielded coordinates -/
def lazyOK (ys : List Int) (c pos : Int) : Bool :=
  decide (0 ≤ pos) && decide (ys[pos.toNat]? = some c)

/-- address clause for one row of key `(rank, ty)` at level `i`; `literal` = storage positions
    (the statement), otherwise ordinals among non-empty elements (the code) -/
def addrRowOK (dflt : Int) (literal : Bool) (levels : List Level) (ops : List AnyTree) (i : Nat) (ty : String)
    (pt : List Int) (pos : Int) : Bool :=
  match levels[i]?, pt.getLast? with
  | some lv, some c =>
    let q := pt.dropLast
    let getOp := fun x => navigate dflt x (ops.getD x ⟨0, (0 : Int)⟩) (levels.take i) q
    let conc := fun x =>
      match aget lv.uOps x with
      | some n => decide (0 ≤ c) && decide (c < n) && decide (pos = c)    -- format "U": position = offset in the extent
      | none => if literal then storageOK dflt (getOp x) c pos else ordinalOK dflt (getOp x) c pos
    let l0 := if lv.pop then 2 else 0
    let ys := specYields dflt (aget lv.uOps) getOp lv.src
    if ty = "iter" then
      (match lv.pop, lv.src with
       | false, .fiber x => (aget lv.uOps x).isNone && storageOK dflt (getOp x) c pos
       | _, _ => lazyOK ys c pos)
    else if ty = "populate_1" then
      lv.pop && (match lv.src with
       | .fiber x => conc x
       | _ => lazyOK ys c pos)
    else if ty = "populate_read_0" || ty = "populate_write_0" then lv.pop
    else match lv.src with
      | .and x y =>
        if ty = label l0 "intersect_" then conc x
        else if ty = label (l0 + 1) "intersect_" then conc y else false
      | .lf x y =>
        if ty = label l0 "intersect_" then conc x
        else if ty = label (l0 + 1) "intersect_" then
          (match getOp y with
           | some t => decide (pos = lowerBound (children t) c)
           | none => false)
        else false
      | .proj x _ _ _ _ own =>
        if ty = label (if own then 0 else l0) "project_" then conc x else false
      | .fiber _ => false
      | .dense _ _ => false
      | .orAnd x y =>
        -- the union side is addressed in the union of the presented coordinates, the inner intersection in
        -- its own result; the operands of the inner intersection in their own fibers
        let a := ((getOp x).map (fun t => (viewAny dflt (aget lv.uOps x) t).map (·.1))).getD []
        let b := ((getOp y).map (fun t => (viewAny dflt (aget lv.uOps y) t).map (·.1))).getD []
        if ty = label l0 "intersect_" then
          lazyOK ((orMerge (a.map (fun c => (c, ()))) (b.map (fun c => (c, ())))).map (·.1)) c pos
        else if ty = label (l0 + 1) "intersect_" then lazyOK ys c pos
        else if ty = label (l0 + 4) "intersect_" then conc x
        else if ty = label (l0 + 5) "intersect_" then conc y else false
  | _, _ => false

def lineStamp (i : Nat) : Line → List Nat
  | .dat v => (v.take (i + 1)).map Int.toNat
  | .hdr _ => []

/-- shape + order clauses for a file of a key at level `i`: header first, then data rows of the
    right width whose stamps are non-decreasing (strictly increasing for `iter`) -/
def fileShapeOK (levels : List Level) (i : Nat) (ty : String) (f : List Line) : Bool :=
  match f with
  | [] => true          -- never registered: a zero-byte file is not a trace (DESIGN §7.1)
  | h :: rows =>
    decide (h = specHeader levels i) &&
    rows.all (fun l => match l with
      | .dat v => decide (v.length = 2 * (i + 1) + 1) && (v.take (i + 1)).all (fun x => decide (0 ≤ x))
      | .hdr _ => false) &&
    chainB (if ty = "iter" then lexLt else lexLe) (rows.map (lineStamp i))

/-- a plain loop over a rank of format "U" (`iterRangeShape`): its coordinate is its counter -/
def plainU (lv : Level) : Bool :=
  !lv.pop && (match lv.src with | .fiber x => (aget lv.uOps x).isSome | _ => false)

def fileAddrOK (dflt : Int) (literal : Bool) (levels : List Level) (ops : List AnyTree) (i : Nat) (ty : String)
    (f : List Line) (fromStamp : Bool := false) : Bool :=
  f.tail.all (fun l => match l with
    | .dat v =>
      let pt := (v.drop (i + 1)).take (i + 1)
      -- `fromStamp`: read the coordinate of an enclosing plain format-"U" loop from its stamp entry
      let pt' := if fromStamp then
          (pt.zip ((v.take (i + 1)).zip (levels.take (i + 1)))).zipIdx.map (fun e =>
            if decide (e.2 < i) && plainU e.1.2.2 then e.1.2.1 else e.1.1)
        else pt
      addrRowOK dflt literal levels ops i ty pt' (v.getLast?.getD (-1))
    | .hdr _ => false)


end Ft.C16
