/-
  FtModel.Codec — the tensor codec (fibertree/codec/tensor_codec.py and
  formats/{uncompressed,coord_list,bitvector,compression_format}.py), formats U / C / B.

  `encF` mirrors `Codec.encode` + `encodeFiber` of the three formats: a DFS over the
  tensor in which every fiber appends to the coordinate / payload arrays of *its own rank*
  (`output["coords_k"]`, `output["payloads_k"]`) and to the fiber list of its rank
  (`output_tensor[k+1]`).  Because the arrays are append-only and keyed by rank, the model
  returns, for every sub-tree, the per-rank segments it appends (rank-wise concatenated by
  `zipApp`); the per-rank counters the code reads back from `output_tensor`
  (`len(output_tensor[k+1])` = `idx_in_rank`, `prev.occupancy_so_far + prev.nnz`) are
  threaded explicitly (`Cnt`).

  `decF` is the specification side: a decoder written from the formats' documented layout
  only (implicit positions for U, explicit coordinates for C, bit masks for B, cumulative
  occupancies of the upper rank as segment ends) that consumes the per-rank arrays left to
  right.

  The handle interface (`setupSlice` / `nextInSlice` / `handleToCoord` / `handleToPayload`,
  `coordToHandle`, `getSize`) is modelled on the encoded fiber objects `EFib`.
-/
import FtModel.Basic
namespace Ft
namespace Codec

inductive Fmt | U | C | B
  deriving DecidableEq, Repr, Inhabited

/-- `encodeUpperPayload()`: does the rank above store an occupancy entry per element? -/
def Fmt.explicit : Fmt → Bool
  | .U => false
  | .C => true
  | .B => true

def Fmt.toString : Fmt → String
  | .U => "U" | .C => "C" | .B => "B"

/-- rank-wise append of per-rank layers (both sides always have one layer per rank) -/
def zipApp {α : Type} (a b : List (List α)) : List (List α) := List.zipWith (· ++ ·) a b

/-- per-rank counters read back from `output_tensor[k+1]`:
    (number of fibers already in the rank, `occupancy_so_far` of the next fiber) -/
abbrev Cnt := List (Nat × Nat)

/-- An encoded fiber object (`CompressionFormat` instance after `encodeFiber`). -/
structure EFib where
  fmt    : Fmt
  next   : Option Fmt        -- `next_fmt` (none on the leaf rank)
  shape  : Nat               -- `dim_len` handed to `encodeFiber` (U: `self.shape`, B: mask length)
  n      : Nat               -- number of elements the layout holds (U: `dim_len`; C/B: presented elements)
  ecoords : List Int         -- the coordinates of those elements in the source fiber (U: all positions)
  coords : List Int          -- C: coordinates, B: mask bits, U: []
  occs   : List Int          -- `self.occupancies`
  vals   : List Int          -- `self.payloads` on the leaf rank ([] above: the payloads are fiber objects)
  npay   : Nat               -- `len(self.payloads)`
  nnz    : Nat               -- what `encodeFiber` returned (`fiber.nnz`)
  idx    : Nat               -- `idx_in_rank`
  osf    : Nat               -- `occupancy_so_far`
  kid0   : Nat               -- index in the next rank of the first fiber this fiber's `encodeFiber` created
  deriving DecidableEq, Repr, Inhabited

def EFib.isLeaf (F : EFib) : Bool := F.next.isNone

/-- result of encoding a sub-tree: the segments appended to each rank (from the fiber's own
    rank downwards), the fibers appended to each rank, the returned occupancy, the counters -/
structure Res where
  cs   : List (List Int)
  ps   : List (List Int)
  fibs : List (List EFib)
  occ  : Nat
  cnt  : Cnt
  deriving Repr, Inhabited

/-- the positions `0 … n-1` as coordinates -/
def irange (n : Nat) : List Int := (List.range n).map Int.ofNat

/-- `dim_len = a.getShape()[0]`, overridden by `shape[depth]` when a shape is imposed -/
def dimOf (tsh : List Nat) (ish : Option (List Nat)) : Nat :=
  match ish with
  | some (i :: _) => i
  | _ => tsh.headD 0

/-- `[a.getPayload(i) for i in range(dim_len)]` (absent coordinate → the rank's default) -/
def denseKids {π : Type} (dim : Nat) (dflt : π) (a : Fib Int π) : List π :=
  (irange dim).map (fun i => (lookup a i).getD dflt)

/-- `self.coords = [0]*dim_len; self.coords[ind] = 1` for the presented coordinates -/
def maskOf (dim : Nat) (cs : List Int) : List Int :=
  (irange dim).map (fun i => if cs.contains i then 1 else 0)

/-- the loop over the elements of one fiber: encode each child in turn, threading the
    counters of the lower ranks and the cumulative occupancy; `k` = number of ranks below -/
structure KRes where
  cs   : List (List Int)
  ps   : List (List Int)
  fibs : List (List EFib)
  cums : List Int
  cnt  : Cnt
  deriving Repr, Inhabited

def encKids {α : Type} (k : Nat) (enc1 : Cnt → α → Res) : List α → Cnt → Nat → KRes
  | [], cnt, _ => ⟨List.replicate k [], List.replicate k [], List.replicate k [], [], cnt⟩
  | x :: xs, cnt, cum =>
    let r := enc1 cnt x
    let cum' := cum + r.occ
    let K := encKids k enc1 xs r.cnt cum'
    ⟨zipApp r.cs K.cs, zipApp r.ps K.ps, zipApp r.fibs K.fibs, (cum' : Int) :: K.cums, K.cnt⟩

/-- the elements a format lays out for one fiber, in order, with their payloads:
    U walks all positions (`a.getPayload(i) for i in range(dim_len)`, absent → default),
    C and B iterate the fiber (`for ind, val in a`): the non-empty elements when the tensor's
    rank has format "C" (`iterOccupancy`), every position of the rank's own extent `tdim`
    when it has format "U" (`hu`; `iterActiveShape`: `getPayload(c) for c in range(shape)`) -/
def elemsOf {π : Type} (f : Fmt) (hu : Bool) (dim tdim : Nat) (dflt : π) (isE : π → Bool) (a : Fib Int π) :
    Fib Int π :=
  match f with
  | .U => (irange dim).map (fun i => (i, (lookup a i).getD dflt))
  | _ => if hu then (irange tdim).map (fun i => (i, (lookup a i).getD dflt))
         else a.filter (fun e => !isE e.2)

/-- what goes into the rank's coordinate array: nothing (U), the coordinates (C), the mask (B) -/
def storedCoords (f : Fmt) (dim : Nat) (ec : List Int) : List Int :=
  match f with
  | .U => []
  | .C => ec
  | .B => maskOf dim ec

/-- the imposed shape handed to the children: every format passes `shape=shape` on
    (Bitvector too since /repo dceceff) -/
def ishNext (_f : Fmt) (ish : Option (List Nat)) : Option (List Nat) := ish.map List.tail

/-- the default payload of a non-leaf rank: an empty fiber -/
def emptyT (d : Nat) : Tree Int Int (d + 1) := (show List (Int × Tree Int Int d) from [])

/-- `Codec.encode(depth, a, …)` for a fiber with `d` ranks below it.
    `fs` / `tsh` / `ish` are the descriptor, the tensor's own shape and the imposed shape
    from this rank downwards; `pidx` is `len(output_tensor[depth])` (what U returns as its
    "occupancy").  `hu k` = the tensor's rank with `k` ranks below it has format "U";
    `dflt` = the tensor's default value. -/
def encF (hu : Nat → Bool) (dflt : Int) :
    (d : Nat) → List Fmt → List Nat → Option (List Nat) → Nat → Cnt → Tree Int Int (d + 1) → Res
  | 0, fs, tsh, ish, pidx, cnt, a =>
    let f := fs.headD .U
    let dim := dimOf tsh ish
    let me := cnt.headD (0, 0)
    let els := elemsOf f (hu 0) dim (tsh.headD 0) dflt (fun v => decide (v = dflt)) (show Fib Int Int from a)
    let n := els.length
    let stored := storedCoords f dim (els.map (·.1))
    let occ := match f with | .U => pidx | _ => n
    let F : EFib := { fmt := f, next := none, shape := dim, n := n, ecoords := els.map (·.1),
                      coords := stored, occs := [], vals := els.map (·.2), npay := n, nnz := occ,
                      idx := me.1, osf := me.2, kid0 := 0 }
    ⟨[stored], [els.map (·.2)], [[F]], occ, (me.1 + 1, me.2 + occ) :: cnt.tail⟩
  | d + 1, fs, tsh, ish, pidx, cnt, a =>
    let f := fs.headD .U
    let g := fs.tail.headD .U
    let dim := dimOf tsh ish
    let me := cnt.headD (0, 0)
    let els := elemsOf f (hu (d + 1)) dim (tsh.headD 0) (emptyT d) (isEmpty (κ := Int) dflt (d + 1))
                 (show Fib Int (Tree Int Int (d + 1)) from a)
    let n := els.length
    let ishK := ishNext f ish
    let K := encKids (d + 1) (encF hu dflt d fs.tail tsh.tail ishK me.1) (els.map (·.2)) cnt.tail 0
    let occs := if g.explicit then K.cums else []
    let stored := storedCoords f dim (els.map (·.1))
    let occ := match f with | .U => pidx | _ => n
    -- CoordinateList appends the child to `self.payloads` only when the rank below is explicit
    let npay := match f with | .C => (if g.explicit then n else 0) | _ => n
    let F : EFib := { fmt := f, next := some g, shape := dim, n := n, ecoords := els.map (·.1),
                      coords := stored, occs := occs, vals := [], npay := npay, nnz := occ,
                      idx := me.1, osf := me.2, kid0 := (cnt.tail.headD (0, 0)).1 }
    ⟨stored :: K.cs, occs :: K.ps, [F] :: K.fibs, occ, (me.1 + 1, me.2 + occ) :: K.cnt⟩

/-- the whole encoding (`encode(-1, root, …)`): per-rank arrays, `payloads_root`, fiber lists -/
structure Encoded where
  root : List Int
  cs   : List (List Int)
  ps   : List (List Int)
  fibs : List (List EFib)
  deriving Repr, Inhabited

def encode (hu : Nat → Bool) (dflt : Int) (d : Nat) (fs : List Fmt) (tsh : List Nat) (ish : Option (List Nat))
    (t : Tree Int Int (d + 1)) : Encoded :=
  let r := encF hu dflt d fs tsh ish 0 (List.replicate (d + 1) (0, 0)) t
  let f0 := fs.headD .U
  let root : List Int := if f0.explicit then [(r.occ : Int)] else []
  ⟨root, r.cs, r.ps, r.fibs⟩

/-- the extent every rank is actually laid out with (from this rank downwards) -/
def effShape : List Fmt → List Nat → Option (List Nat) → List Nat
  | [], _, _ => []
  | f :: fs, tsh, ish =>
    dimOf tsh ish :: effShape fs tsh.tail (ishNext f ish)

/-- two extent lists agree on every rank whose layout depends on the extent (U and B) -/
def agreeNonC : List Fmt → List Nat → List Nat → Bool
  | [], _, _ => true
  | f :: fs, a, b => (f == .C || a.headD 0 == b.headD 0) && agreeNonC fs a.tail b.tail

/-! ### Decoding by the documented layout (specification side) -/

/-- positions of the set bits of a mask -/
def maskCoords (bits : List Int) : List Int :=
  (bits.zipIdx.filter (fun e => !decide (e.1 = 0))).map (fun e => (e.2 : Int))

/-- the coordinates of the next fiber of a rank and the rest of the rank's coordinate array:
    U: the positions `0 … shape-1` (nothing stored); C: the next `n` stored coordinates;
    B: the set positions of the next `shape` mask bits -/
def takeCoords (f : Fmt) (sh n : Nat) (c : List Int) : List Int × List Int :=
  match f with
  | .U => (irange sh, c)
  | .C => (c.take n, c.drop n)
  | .B => (maskCoords (c.take sh), c.drop sh)

/-- cumulative occupancies as segment ends: the sizes of consecutive segments -/
def diffs (prev : Int) : List Int → List Nat
  | [] => []
  | e :: r => (e - prev).toNat :: diffs e r

abbrev Content := List (List Int × Int)

structure DRes where
  cont : Content
  cs   : List (List Int)
  ps   : List (List Int)
  deriving Repr, Inhabited

def decKids (dec1 : Nat → List (List Int) → List (List Int) → DRes) :
    List (Int × Nat) → List (List Int) → List (List Int) → DRes
  | [], cs, ps => ⟨[], cs, ps⟩
  | (c, n) :: r, cs, ps =>
    let x := dec1 n cs ps
    let y := decKids dec1 r x.cs x.ps
    ⟨x.cont.map (fun pv => (c :: pv.1, pv.2)) ++ y.cont, y.cs, y.ps⟩

/-- decode the next fiber of the rank with `d` ranks below it from the remaining per-rank
    arrays; `n` = its number of elements as told by the rank above (used by C only) -/
def decF (dflt : Int) : (d : Nat) → List Fmt → List Nat → Nat → List (List Int) → List (List Int) → DRes
  | 0, fs, shs, n, cs, ps =>
    let f := fs.headD .U
    let tc := takeCoords f (shs.headD 0) n (cs.headD [])
    let m := tc.1.length
    let p := ps.headD []
    ⟨((tc.1.zip (p.take m)).filter (fun e => !decide (e.2 = dflt))).map (fun e => ([e.1], e.2)),
      [tc.2], [p.drop m]⟩
  | d + 1, fs, shs, n, cs, ps =>
    let f := fs.headD .U
    let g := fs.tail.headD .U
    let tc := takeCoords f (shs.headD 0) n (cs.headD [])
    let m := tc.1.length
    let p := ps.headD []
    let sizes := if g.explicit then diffs 0 (p.take m) else List.replicate m 0
    let p' := if g.explicit then p.drop m else p
    let K := decKids (decF dflt d fs.tail shs.tail) (tc.1.zip sizes) cs.tail ps.tail
    ⟨K.cont, tc.2 :: K.cs, p' :: K.ps⟩

/-- the shape a decoder is told: the imposed one if there is one, else the tensor's -/
def declShape (tsh : List Nat) (ish : Option (List Nat)) : List Nat := ish.getD tsh

/-- executable specification of "the arrays lose nothing": `payloads_root` holds the size of
    the top fiber iff the top format needs it, the arrays decode to `cont`, nothing is left -/
def decodesTo (dflt : Int) (d : Nat) (fs : List Fmt) (shs : List Nat) (root : List Int) (cs ps : List (List Int))
    (cont : Content) : Bool :=
  let f0 := fs.headD .U
  let n := (root.headD 0).toNat
  let r := decF dflt d fs shs n cs ps
  decide (root.length = if f0.explicit then 1 else 0) &&
  decide (cs.length = d + 1) && decide (ps.length = d + 1) &&
  decide (r.cont = cont) && r.cs.all (·.isEmpty) && r.ps.all (·.isEmpty)

/-! ### The handle interface of an encoded fiber -/

/-- the `while lo <= hi` loop of `CoordinateList.coordToHandle` (ceil-mid binary search);
    `mid` is the last probed position -/
def bsearch (cs : List Int) (q : Int) (lo hi mid : Int) : Int :=
  if lo ≤ hi then
    let mid' := (hi + lo + 1) / 2
    let v := cs.getD mid'.toNat 0
    if v = q then mid'
    else if v < q then bsearch cs q (mid' + 1) hi mid'
    else bsearch cs q lo (mid' - 1) mid'
  else if q > cs.getD mid.toNat 0 then mid + 1 else mid
termination_by (hi + 1 - lo).toNat
decreasing_by all_goals omega

/-- `CoordinateList.coordToHandle` -/
def c2hC (cs : List Int) (q : Int) : Option Nat :=
  match cs with
  | [] => none
  | c0 :: _ =>
    if q > cs.getLastD 0 then none
    else if q ≤ c0 then some 0
    else some (bsearch cs q 0 ((cs.length : Int) - 1) 0).toNat

/-- `coordToHandle` of the three formats (U: the position if in range; B: the coordinate itself) -/
def EFib.coordToHandle (F : EFib) (q : Int) : Option Nat :=
  match F.fmt with
  | .U => if q < 0 ∨ q ≥ F.shape then none else some q.toNat
  | .C => c2hC F.coords q
  | .B => some q.toNat

/-- `handleToPayload`: the base class returns the handle if it is inside the payload list;
    `CoordinateList` returns the handle, or — above a U rank, where no payloads are stored —
    `occupancy_so_far + handle`, the position of the element's fiber in the next rank -/
def EFib.handleToPayload (F : EFib) (h : Nat) : Option Nat :=
  match F.fmt with
  | .C => match F.next with
          | some g => if g.explicit then some h else some (F.osf + h)
          | none => some h
  | _ => if h ≥ F.npay then none else some h

/-- `setupSlice(0)` then `nextInSlice()` until it returns None, for U and C: the handles
    `h, h+1, … < getSliceMaxLength()`; `scanN F m h` runs the `m` remaining iterations -/
def scanN (F : EFib) : Nat → Nat → List (Option Int × Option Nat)
  | 0, _ => []
  | m + 1, h =>
    let c : Option Int := match F.fmt with
      | .U => some (h : Int)
      | _ => if h ≥ F.coords.length then none else some (F.coords.getD h 0)
    (c, F.handleToPayload h) :: scanN F m (h + 1)

def scanFrom (F : EFib) (lim h : Nat) : List (Option Int × Option Nat) := scanN F (lim - h) h

/-- `Bitvector.nextInSlice` loop: skip the clear bits, yield (position, running payload handle) -/
def scanBits (F : EFib) : List Int → Nat → Nat → List (Option Int × Option Nat)
  | [], _, _ => []
  | b :: r, ch, ph =>
    if ph ≥ F.npay then []
    else if b = 1 then (some (ch : Int), F.handleToPayload ph) :: scanBits F r (ch + 1) (ph + 1)
    else scanBits F r (ch + 1) ph

/-- the (coordinate, payload handle) pairs delivered by a full scan of the fiber -/
def EFib.scan (F : EFib) : List (Option Int × Option Nat) :=
  match F.fmt with
  | .U => match F.coordToHandle 0 with
          | some h => scanFrom F F.shape h
          | none => []
  | .C => match F.coordToHandle 0 with
          | some h => scanFrom F F.coords.length h
          | none => []
  | .B => scanBits F F.coords 0 0

/-- `setupSlice(b)` then `nextInSlice()` until None: U and C start at `coordToHandle(b)`,
    B starts at mask position `b` with the payload handle `countLeft(b)` (set bits before `b`) -/
def EFib.scanBase (F : EFib) (b : Nat) : List (Option Int × Option Nat) :=
  match F.fmt with
  | .U => match F.coordToHandle b with
          | some h => scanFrom F F.shape h
          | none => []
  | .C => match F.coordToHandle b with
          | some h => scanFrom F F.coords.length h
          | none => []
  | .B => scanBits F (F.coords.drop b) b ((F.coords.take b).foldl (· + ·) 0).toNat

/-- `getSize()`; `none` = an `assert` fires (CoordinateList checks one payload per coordinate
    when the rank below is explicit) -/
def EFib.getSize (F : EFib) : Option Nat :=
  match F.fmt with
  | .U => some (F.occs.length + (if F.isLeaf then F.npay else 0))
  | .C => if (match F.next with | some g => g.explicit | none => false) && F.npay != F.coords.length then none
          else some (F.coords.length + F.occs.length + F.npay)
  | .B => some ((F.coords.length + 31) / 32 + F.occs.length +
                (match F.next with
                 | none => F.npay
                 | some g => if g.explicit then F.npay else 0))

/-- the number of words the layout of the fiber stores: coordinate words (C: one per element,
    B: mask words of 32 bits, U: none), one occupancy entry per element when the rank below
    needs segment ends, payload entries (leaf: one value per element; above an explicit rank C
    and B keep one child handle per element, U addresses its children by position) -/
def EFib.words (F : EFib) : Nat :=
  let coordWords := match F.fmt with
    | .U => 0
    | .C => F.n
    | .B => (F.shape + 31) / 32
  let lowerExplicit := match F.next with | some g => g.explicit | none => false
  let occEntries := if lowerExplicit then F.n else 0
  let payEntries := match F.next with
    | none => F.n
    | some _ => match F.fmt with
                | .U => 0
                | _ => if lowerExplicit then F.n else 0
  coordWords + occEntries + payEntries

/-- the layout coordinates of a fiber: what a scan has to deliver, in order -/
def EFib.layoutCoords (F : EFib) : List Int :=
  match F.fmt with
  | .U => irange F.shape
  | .C => F.coords
  | .B => maskCoords F.coords

/-- where the payload handles of a fiber start: 0 (positions in the fiber's own payload list),
    except for C above U, whose payloads are positions in the next rank -/
def EFib.payBase (F : EFib) : Nat :=
  if F.fmt = .C ∧ F.next = some .U then F.osf else 0

/-- expected scan: the k-th layout coordinate with payload handle `payBase + k` -/
def EFib.scanSpec (F : EFib) : List (Option Int × Option Nat) :=
  F.layoutCoords.zipIdx.map (fun e => (some e.1, some (F.payBase + e.2)))

/-- lower bound as an optional handle: the first stored coordinate not below the query -/
def lowerHandle (cs : List Int) (q : Int) : Option Nat :=
  let p := (cs.takeWhile (fun c => decide (c < q))).length
  if p < cs.length then some p else none

/-- what a payload handle designates: on the leaf rank the value (`payloadToValue`), above it
    the child fiber as its index in the next rank — the stored child object `payloads[ph]`
    (the `kid0 + ph`-th fiber of the next rank), or, for C above U where no payloads are stored,
    `payloadToFiberHandle(ph)` = `ph` -/
def EFib.resolve (F : EFib) (ph : Option Nat) : Option Int :=
  match ph with
  | none => none
  | some p =>
    match F.next with
    | none => if p ≥ F.npay then none else some (F.vals.getD p 0)
    | some g =>
      if F.fmt = .C ∧ g = .U then some (p : Int)
      else if p < F.npay then some ((F.kid0 + p : Nat) : Int) else none

/-- a full scan with every payload handle resolved: (coordinate, payload) -/
def EFib.scanElems (F : EFib) : List (Option Int × Option Int) :=
  F.scan.map (fun e => (e.1, F.resolve e.2))

/-- the elements of the fiber as the layout defines them: the k-th coordinate with the k-th
    leaf value, resp. the k-th child fiber (index `kid0 + k` in the next rank) -/
def EFib.elemsSpec (F : EFib) : List (Option Int × Option Int) :=
  F.ecoords.zipIdx.map (fun e =>
    (some e.1, match F.next with
               | none => some (F.vals.getD e.2 0)
               | some _ => some ((F.kid0 + e.2 : Nat) : Int)))

/-- a slice from coordinate `b` has to deliver the elements at coordinates `≥ b` -/
def EFib.elemsSpecFrom (F : EFib) (b : Nat) : List (Option Int × Option Int) :=
  F.elemsSpec.filter (fun e => match e.1 with | some c => decide ((b : Int) ≤ c) | none => true)

/-- depth-first walk of the encoded tensor through the handle interface: scan the fiber at
    position `idx` of the first rank list; a leaf element yields its value (defaults are not content),
    an element above the leaf rank continues in the fiber its payload designates -/
def walkM (dflt : Int) : List (List EFib) → Nat → Content
  | [], _ => []
  | R :: rest, idx =>
    let F := R.getD idx default
    F.scanElems.flatMap (fun e =>
      match e.1, e.2 with
      | some c, some res =>
        (match F.next with
         | none => if res = dflt then [] else [([c], res)]
         | some _ => (walkM dflt rest res.toNat).map (fun pv => (c :: pv.1, pv.2)))
      | _, _ => [])

/-! ### Model-domain guard -/

/-- all coordinates of the tree lie inside the tensor's shape (rank by rank) -/
def inShape : (d : Nat) → List Nat → Tree Int Int d → Bool
  | 0, _, _ => true
  | d + 1, sh, f => (show List (Int × Tree Int Int d) from f).all
      (fun e => decide (0 ≤ e.1) && decide (e.1 < (sh.headD 0 : Nat)) && inShape d sh.tail e.2)

/-- every rank is laid out with an extent at least as large as the tensor's own
    (`assert dim_len >= a.getShape()[0]`) -/
def dimsOK : List Fmt → List Nat → Option (List Nat) → Bool
  | [], _, _ => true
  | f :: fs, tsh, ish => decide (tsh.headD 0 ≤ dimOf tsh ish) && dimsOK fs tsh.tail (ishNext f ish)

def shapeGe : List Nat → List Nat → Bool
  | [], [] => true
  | a :: r, b :: s => decide (a ≥ b) && shapeGe r s
  | _, _ => false

end Codec
end Ft
