/-
  FtModel.Transform — the rank transforms of fibertree (C09).

  Mirrors, loop by loop (line numbers of /repo as of commit 0ceed21):
    * `Fiber._mergeRanksHelper`     (fiber.py:4251-4362)  → `insGroup` / `gather` / `merge2` / `mergeLv`
    * `Fiber._mergeToFibertree`     (fiber.py:4364-4389)  → `unionAll` / `mergeTrees`
    * `Fiber._flattenCoords`        (fiber.py:4145-4204)  → `flattenCoords`
    * `Fiber.flattenRanks`          (fiber.py:4100-4143)  → `mergeLv` with the raising `merge_fn` (`mfRaise`)
    * `Fiber.unflattenRanks`        (fiber.py:4392-4525)  → `unflatLoop` / `unflat1` / `unflatLv`
    * `Fiber.swapRanks`             (fiber.py:4039-4097)  → `swapFiber`
    * `updatePayloads` descent of every `…Below` form (fiber.py:2541-2589, 4578-4611) → `atDepth`
    * `Tensor.swizzleRanks`         (tensor.py:1376-1509) → `extract` / `rebuild` / `swizzle`
    * the guards of `Tensor.swapRanks` / `Tensor.unflattenRanks` (tensor.py:1550, 1777) → `swapT` / `unflattenT`

  The fiber-level functions are generic in the coordinate type `κ` and in the way two
  coordinates are combined (`comb`), so that the same definitions serve integer coordinates
  (absolute / relative / linear styles, and the split of C08) and tuple coordinates.  The driver
  instantiates `κ := Coord = List Int`: an integer coordinate is a singleton, a (flat or
  right-nested) tuple is the list of its components; Python's tuple order is the lexicographic
  order of `List`.  An exception raised by the implementation is `none`.

  The second half is the declarative side: what a transform does to the *content*
  (point → value), as executable functions on content lists.
-/
import FtModel.Basic
import FtModel.Coiter
import FtModel.Point
import FtModel.Split
namespace Ft
namespace C09

/-- tuple coordinates: lexicographic order, a prefix is smaller (Python tuple comparison) -/
abbrev Coord := List Int

section order
variable {κ : Type} [LT κ]

theorem list_lt_irrefl [StrictTotal κ] : ∀ l : List κ, ¬ l < l
  | [] => List.not_lt_nil []
  | a :: l => by
    rw [List.cons_lt_cons_iff]
    rintro (h | ⟨_, h⟩)
    · exact StrictTotal.irrefl a h
    · exact list_lt_irrefl l h

theorem list_lt_trans [StrictTotal κ] : ∀ {a b c : List κ}, a < b → b < c → a < c
  | _, [], _, h, _ => absurd h (List.not_lt_nil _)
  | _, _ :: _, [], _, h => absurd h (List.not_lt_nil _)
  | [], _ :: _, z :: c, _, _ => List.nil_lt_cons z c
  | x :: a, y :: b, z :: c, h1, h2 => by
    rw [List.cons_lt_cons_iff] at h1 h2 ⊢
    rcases h1 with h1 | ⟨e1, h1⟩
    · rcases h2 with h2 | ⟨e2, _⟩
      · exact Or.inl (StrictTotal.trans h1 h2)
      · exact Or.inl (e2 ▸ h1)
    · rcases h2 with h2 | ⟨e2, h2⟩
      · exact Or.inl (e1 ▸ h2)
      · exact Or.inr ⟨e1.trans e2, list_lt_trans h1 h2⟩

theorem list_lt_tri [StrictTotal κ] : ∀ a b : List κ, a < b ∨ a = b ∨ b < a
  | [], [] => Or.inr (Or.inl rfl)
  | [], y :: b => Or.inl (List.nil_lt_cons y b)
  | x :: a, [] => Or.inr (Or.inr (List.nil_lt_cons x a))
  | x :: a, y :: b => by
    rcases StrictTotal.tri x y with h | h | h
    · exact Or.inl (List.cons_lt_cons_iff.2 (Or.inl h))
    · rcases list_lt_tri a b with h' | h' | h'
      · exact Or.inl (List.cons_lt_cons_iff.2 (Or.inr ⟨h, h'⟩))
      · exact Or.inr (Or.inl (by rw [h, h']))
      · exact Or.inr (Or.inr (List.cons_lt_cons_iff.2 (Or.inr ⟨h.symm, h'⟩)))
    · exact Or.inr (Or.inr (List.cons_lt_cons_iff.2 (Or.inl h)))

/-- tuples of strictly totally ordered components are strictly totally ordered -/
instance instStrictTotalList [StrictTotal κ] : StrictTotal (List κ) where
  irrefl := list_lt_irrefl
  trans := list_lt_trans
  tri := list_lt_tri

end order

/-! ### coordinate styles -/

inductive Style | tuple | pair | absolute | relative | linear
  deriving DecidableEq, Repr

/-- `_flattenCoords(c1, c0, style, shape)` on `Coord`.  `tuple` concatenates the components; a
    `pair` `(c1, c0)` has the same components in the same order (the nesting is observed by
    the harness, not here); the arithmetic styles are defined on integer coordinates. -/
def flattenCoords (s : Style) (shape : Int) (c1 c0 : Coord) : Coord :=
  match s with
  | .tuple | .pair => c1 ++ c0
  | .absolute => c0
  | .relative => match c1, c0 with
    | [a], [b] => [a + b]
    | _, _ => c1 ++ c0
  | .linear => match c1, c0 with
    | [a], [b] => [a * shape + b]
    | _, _ => c1 ++ c0

/-! ### merge functions -/

/-- `flattenRanks`' `merge_fn`: "Flattening should never merge payloads" — raises -/
def mfRaise {ν : Type} : List ν → Option ν := fun _ => none
/-- the default `merge_fn`: `sum(ps)` -/
def mfSum : List Int → Option Int := fun l => some (l.foldl (· + ·) 0)
/-- `merge_fn = max` -/
def mfMax : List Int → Option Int
  | [] => none
  | a :: r => some (r.foldl max a)

/-- a non-associative `merge_fn`: `len(ps)` (how many points collided) -/
def mfCount : List Int → Option Int := fun l => some l.length
/-- a non-associative, order-sensitive `merge_fn`: `ps[0] * 10 + len(ps)` -/
def mfMix : List Int → Option Int
  | [] => none
  | a :: r => some (a * 10 + (r.length + 1))

/-! ### `_mergeRanksHelper` -/

section merge
variable {κ : Type} [LT κ] [DecidableRel (α := κ) (· < ·)] [DecidableEq κ]

/-- `j = bisect_left(coords, new_coord)`; `coords[j] == new_coord` → append `p0` to that group,
    otherwise insert a new group at `j` (fiber.py:4319-4325) -/
def insGroup {π : Type} : Fib κ (List π) → κ → π → Fib κ (List π)
  | [], c, p => [(c, [p])]
  | e :: r, c, p =>
    if e.1 < c then e :: insGroup r c p
    else if e.1 = c then (e.1, e.2 ++ [p]) :: r
    else (c, [p]) :: e :: r

/-- the `(new_coord, p0)` pairs in the order the two nested loops produce them -/
def pairsOf {π : Type} (comb : κ → κ → κ) (f : Fib κ (Fib κ π)) : Fib κ π :=
  f.flatMap (fun e => e.2.map (fun x => (comb e.1 x.1, x.2)))

/-- the two nested loops of `_mergeRanksHelper` (fiber.py:4300-4325): groups of payloads by new
    coordinate, ascending, each group in traversal order.  `f` holds, per upper element, what
    iteration of its payload fiber presents. -/
def gather {π : Type} (comb : κ → κ → κ) (f : Fib κ (Fib κ π)) : Fib κ (List π) :=
  (pairsOf comb f).foldl (fun acc x => insGroup acc x.1 x.2) []

-- `Ft.mapM?` (FtModel.Split): all-or-nothing map — an exception anywhere aborts the whole transform

variable {ν : Type} [DecidableEq ν]

/-- one step of the nested `|` of `union(*args)` followed by the unpacking of
    `union_iterator`: `acc` holds, per coordinate, the entries of the first `i` operands
    (`none` = that operand does not present the coordinate) -/
def unionStep {π : Type} (i : Nat) (acc : Fib κ (List (Option π))) (g : Fib κ π) :
    Fib κ (List (Option π)) :=
  (orMerge acc g).map (fun row =>
    (row.1, match row.2.2.1, row.2.2.2 with
      | some l, some p => l ++ [some p]
      | some l, none => l ++ [none]
      | none, some p => List.replicate i none ++ [some p]
      | none, none => List.replicate (i + 1) none))

/-- `union(*to_merge)` on presented elements: ascending union of the coordinates, with one
    entry per operand -/
def unionAll {π : Type} : List (Fib κ π) → Fib κ (List (Option π))
  | [] => []
  | g :: gs =>
    (gs.zipIdx 1).foldl (fun acc gi => unionStep gi.2 acc gi.1) (g.map (fun e => (e.1, [some e.2])))

/-- `_mergeToFibertree(to_merge, merge_fn)`: one payload is returned as it is; leaves go through
    `merge_fn`; fibers are united coordinate by coordinate and, for every coordinate, only the
    operands that present it take part (the union mask selects them); the fiber created for the
    result is given the default of the first operand (`default=to_merge[0].getDefault()`).
    Every operand travels with the default its leaf fibers carry (they are not owned by a rank
    while `_mergeRanksHelper` runs); `_z` — the implementation's `Payload(0)` fallback — is no
    longer used here. -/
def mergeTrees (mf : List ν → Option ν) (_z : ν) :
    (r : Nat) → List (Tree κ ν r × ν) → Option (Tree κ ν r × ν)
  | 0, xs => match xs with
    | [] => none
    | [x] => some x
    | x :: _ => (mf (xs.map (fun x => x.1))).map (fun v => (v, x.2))
  | r + 1, xs => match xs with
    | [] => none
    | [x] => some x
    | x :: _ =>
      (mapM? (fun row => (mergeTrees mf _z r
                  ((row.2.zip (xs.map (fun x => x.2))).filterMap
                    (fun od => od.1.map (fun t => (t, od.2))))).map (fun t => (row.1, t.1)))
        (unionAll (xs.map (fun x => present x.2 r x.1)))).map
        (fun l => ((show List (κ × Tree κ ν r) from l), x.2))

/-- a payload together with the default of its leaf fibers -/
def tagWith {π : Type} (d : ν) (f : Fib κ π) : Fib κ (π × ν) := f.map (fun e => (e.1, (e.2, d)))
def untag {π : Type} (f : Fib κ (π × ν)) : Fib κ π := f.map (fun e => (e.1, e.2.1))

/-- the second half of `_mergeRanksHelper` (fiber.py:4300-4327) on what the payload fibers
    present: group by new coordinate, merge every group -/
def mergeRows (comb : κ → κ → κ) (mf : List ν → Option ν) (z : ν) (r : Nat)
    (rows : Fib κ (Fib κ (Tree κ ν r × ν))) : Option (Fib κ (Tree κ ν r × ν)) :=
  mapM? (fun row => (mergeTrees mf z r row.2).map (fun t => (row.1, t))) (gather comb rows)

/-- `_mergeRanksHelper(levels=1)`, payloads still tagged -/
def merge2T (comb : κ → κ → κ) (mf : List ν → Option ν) (z dflt : ν) (r : Nat)
    (f : Tree κ ν (r + 2)) : Option (Fib κ (Tree κ ν r × ν)) :=
  mergeRows comb mf z r
    ((show List (κ × Tree κ ν (r + 1)) from f).map (fun e => (e.1, tagWith dflt (present dflt r e.2))))

/-- `_mergeRanksHelper(levels=1)`: the top two ranks of a tree of depth `r+2` become one -/
def merge2 (comb : κ → κ → κ) (mf : List ν → Option ν) (z dflt : ν) (r : Nat)
    (f : Tree κ ν (r + 2)) : Option (Tree κ ν (r + 1)) :=
  (merge2T comb mf z dflt r f).map (fun l => show List (κ × Tree κ ν r) from untag l)

/-- The fiber `_mergeRanksHelper` returns takes its default and its shape from the *last*
    payload fiber it looked at (`default = p1.getDefault()`, `low_shape = p1.getShape(..)`,
    fiber.py:4310-4312) and falls back to `Payload(0)` / `None` when there was none.  `lastOk`:
    the attributes of the merged fiber are the real ones (those of the lowest merged rank). -/
def lastOk (r : Nat) : (l : Nat) → Tree κ ν (r + 2 + l) → Bool
  | 0, f => !(show List (κ × Tree κ ν (r + 1)) from f).isEmpty
  | l + 1, f =>
    match (show List (κ × Tree κ ν (r + 2 + l)) from f).getLast? with
    | none => false
    | some e => lastOk r l e.2

/-- what iteration over a merged payload fiber presents: leaves are compared with the merged
    fiber's own default (`z` = `Payload(0)` when `lastOk` fails); sub-fibers are asked
    `isEmpty()` themselves (their own leaf default) -/
def presentT (z dflt : ν) (ok : Bool) :
    (r : Nat) → Fib κ (Tree κ ν r × ν) → Fib κ (Tree κ ν r × ν)
  | 0, sub => sub.filter (fun e => !isEmpty (κ := κ) (if ok then dflt else z) 0 e.2.1)
  | r + 1, sub => sub.filter (fun e => !isEmpty e.2.2 (r + 1) e.2.1)

/-- `_mergeRanksHelper(levels = l+1)`: deeper levels first (on every stored payload), then the
    top two.  `comb l` combines the top coordinate with the already merged one below when `l`
    levels were merged below (the linear style needs the product of the lower shapes); with
    `lin` (linear style) a merged payload fiber that has elements but no shape makes
    `_flattenCoords` assert.  The `elif not self.coords` shortcut is the `[]` instance of the
    general path. -/
def mergeLvT (lin : Bool) (z : ν) (comb : Nat → κ → κ → κ) (mf : List ν → Option ν) (dflt : ν) (r : Nat) :
    (l : Nat) → Tree κ ν (r + 2 + l) → Option (Fib κ (Tree κ ν r × ν))
  | 0, f => merge2T (comb 0) mf z dflt r f
  | l + 1, f =>
    match mapM? (fun e => (mergeLvT lin z comb mf dflt r l e.2).bind (fun t =>
              let ok := lastOk r l e.2
              let pr := presentT z dflt ok r t
              if lin && !ok && !pr.isEmpty then none else some (e.1, pr)))
            (show List (κ × Tree κ ν (r + 2 + l)) from f) with
    | none => none
    | some rows => mergeRows (comb (l + 1)) mf z r rows

def mergeLv (lin : Bool) (z : ν) (comb : Nat → κ → κ → κ) (mf : List ν → Option ν) (dflt : ν) (r l : Nat)
    (f : Tree κ ν (r + 2 + l)) : Option (Tree κ ν (r + 1)) :=
  (mergeLvT lin z comb mf dflt r l f).map (fun l' => show List (κ × Tree κ ν r) from untag l')

/-- The active range `_mergeRanksHelper` computes for its result with the tuple / pair styles
    (fiber.py:4304-4308, 4353-4354) is `((start, range_start), (end, range_end))` where
    `range_start` is the minimum of the active starts of the (already merged) payloads, or `0` when
    there is none.  With two or more levels still to merge below, a payload without elements has
    `(0, 0)` where a payload with elements has `(0, (0, …))`: `min()` then compares an `int` with a
    `tuple` and raises `TypeError`.  `actNest` is the nesting depth of that start, `none` = raised. -/
def actNest (r : Nat) : (l : Nat) → Tree κ ν (r + 2 + l) → Option Nat
  | 0, _ => some 1
  | l + 1, f =>
    match (show List (κ × Tree κ ν (r + 2 + l)) from f) with
    | [] => some 1
    | e :: rest =>
      match actNest r l e.2 with
      | none => none
      | some d =>
        if rest.all (fun e' => actNest r l e'.2 == some d) then some (d + 1) else none

/-- `_mergeRanksHelper` as it runs: the data path `mergeLv`, unless the active-range bookkeeping
    of the tuple / pair styles raises first (`tup` = the style is tuple or pair) -/
def mergeLvA (tup lin : Bool) (z : ν) (comb : Nat → κ → κ → κ) (mf : List ν → Option ν) (dflt : ν)
    (r l : Nat) (f : Tree κ ν (r + 2 + l)) : Option (Tree κ ν (r + 1)) :=
  if tup && (actNest r l f).isNone then none else mergeLv lin z comb mf dflt r l f

/-- `updatePayloads(func, depth=k-1)` as used by every `…Below` form and by
    `mergeRanks(depth=k)`: recurse over all stored payloads down to depth `k` and replace every
    fiber found there — empty ones included, each at its own position — by `g` of it. -/
def atDepth {a b : Nat} (g : Tree κ ν a → Option (Tree κ ν b)) :
    (k : Nat) → Tree κ ν (a + k) → Option (Tree κ ν (b + k))
  | 0, t => g t
  | k + 1, f =>
    (mapM? (fun e => (atDepth g k e.2).map (fun t => (e.1, t)))
      (show List (κ × Tree κ ν (a + k)) from f)).map
      (fun l => show List (κ × Tree κ ν (b + k)) from l)

/-! ### `unflattenRanks` -/

/-- the loop of `unflattenRanks` (fiber.py:4444-4494): `cl` = `c1_last`, `cur` = the collected
    `coords0/payloads0`; a new upper element starts when `c1 > c1_last` -/
def unflatLoop {π : Type} (hd tl : κ → κ) : Fib κ π → κ → Fib κ π → Fib κ (Fib κ π)
  | [], cl, cur => [(cl, cur)]
  | x :: rest, cl, cur =>
    if cl < hd x.1 then (cl, cur) :: unflatLoop hd tl rest (hd x.1) [(tl x.1, x.2)]
    else unflatLoop hd tl rest cl (cur ++ [(tl x.1, x.2)])

/-- `unflattenRanks(levels=1)`; a fiber without elements has nothing to unflatten and comes back
    as an empty fiber (`if len(self.coords) == 0`, /repo 97d752a) -/
def unflat1 {π : Type} (hd tl : κ → κ) : Fib κ π → Option (Fib κ (Fib κ π))
  | [] => some []
  | x :: rest => some (unflatLoop hd tl rest (hd x.1) [(tl x.1, x.2)])

/-- `unflattenRanks(levels = l+1)`: every collected lower fiber is unflattened further -/
def unflatLv (hd tl : κ → κ) (r : Nat) : (l : Nat) → Tree κ ν (r + 1) → Option (Tree κ ν (r + 2 + l))
  | 0, f => (unflat1 hd tl (show List (κ × Tree κ ν r) from f)).map
      (fun g => show List (κ × Tree κ ν (r + 1)) from g)
  | l + 1, f =>
    match unflat1 hd tl (show List (κ × Tree κ ν r) from f) with
    | none => none
    | some g =>
      (mapM? (fun e => (unflatLv hd tl r l (show List (κ × Tree κ ν r) from e.2)).map (fun t => (e.1, t))) g).map
        (fun l' => show List (κ × Tree κ ν (r + 2 + l)) from l')

/-! ### sorting (`sorted(...)`, `coords.sort()`); only the result matters: ascending.  Equal keys
     come out in REVERSE input order (`isort l.reverse` is the stable sort; the transforms only sort
     distinct keys) -/

def insSorted {π : Type} (x : κ × π) : Fib κ π → Fib κ π
  | [] => [x]
  | y :: r => if x.1 < y.1 then x :: y :: r else y :: insSorted x r

def isort {π : Type} : Fib κ π → Fib κ π
  | [] => []
  | x :: r => insSorted x (isort r)

/-! ### `Fiber.swapRanks` -/

/-- flatten the top two ranks (style "pair", raising merge function), sort on the reversed
    coordinate, unflatten.  `assert len(flattened.coords) > 0` → `none`. -/
def swapFiber (comb : κ → κ → κ) (rev hd tl : κ → κ) (dflt : ν) (r : Nat)
    (f : Tree κ ν (r + 2)) : Option (Tree κ ν (r + 2)) :=
  match merge2 comb mfRaise dflt dflt r f with
  | none => none
  | some fl =>
    if (show List (κ × Tree κ ν r) from fl).isEmpty then none
    else
      (unflat1 hd tl (isort ((show List (κ × Tree κ ν r) from fl).map (fun e => (rev e.1, e.2))))).map
        (fun g => show List (κ × Tree κ ν (r + 1)) from g)

/-! ### `Tensor.swizzleRanks` -/

/-- the DFS of `swizzleRanks`: every stored element of the top `k` ranks (explicit defaults and
    empty fibers at the last of them included), with its coordinates -/
def extract (r : Nat) : (k : Nat) → Tree κ ν (r + k) → List (List κ × Tree κ ν r)
  | 0, t => [([], t)]
  | k + 1, f => (show List (κ × Tree κ ν (r + k)) from f).flatMap
      (fun e => (extract r k e.2).map (fun q => (e.1 :: q.1, q.2)))

/-- consecutive entries with the same first coordinate ("reuse the payloads we have gotten so far") -/
def groupHeads {α : Type} : List (List κ × α) → List (κ × List (List κ × α))
  | [] => []
  | ([], _) :: rest => groupHeads rest
  | (c :: p, a) :: rest =>
    match groupHeads rest with
    | [] => [(c, [(p, a)])]
    | (c', g) :: gs => if c = c' then (c, (p, a) :: g) :: gs else (c, [(p, a)]) :: (c', g) :: gs

/-- the rebuild loop of `swizzleRanks` (tensor.py:1452-1472): a new child fiber whenever a
    prefix of the coordinate differs from the previous one; the last coordinate is appended -/
def rebuild (r : Nat) : (k : Nat) → List (List κ × Tree κ ν r) → Tree κ ν (r + (k + 1))
  | 0, l => show List (κ × Tree κ ν r) from
      l.filterMap (fun q => match q.1 with
        | c :: _ => some (c, q.2)
        | [] => none)
  | k + 1, l => show List (κ × Tree κ ν (r + (k + 1))) from
      (groupHeads l).map (fun g => (g.1, rebuild r k g.2))

/-- `new_c = tuple(frontier_coords[guide[i]] for i in range(swiz_len))` -/
def permute (guide : List Nat) (p : List κ) : List κ := guide.filterMap (fun i => p[i]?)

/-- `Tensor.swizzleRanks` on the top `k+1 = swiz_len` ranks: identical rank order → deep copy;
    otherwise extract, permute, sort (tuples of coordinates), rebuild -/
def swizzle (r k : Nat) (guide : List Nat)
    (t : Tree κ ν (r + (k + 1))) : Tree κ ν (r + (k + 1)) :=
  if guide = List.range (k + 1) then t
  else rebuild r k (isort ((extract r (k + 1) t).map (fun q => (permute guide q.1, q.2))))

/-! ### Tensor-level guards -/

/-- the fibers of rank `k` (what `self.ranks[k].fibers` lists) -/
def fibersAt (a : Nat) : (k : Nat) → Tree κ ν (a + 1 + k) → List (Tree κ ν (a + 1))
  | 0, t => [t]
  | k + 1, f => (show List (κ × Tree κ ν (a + 1 + k)) from f).flatMap (fun e => fibersAt a k e.2)

/-- `all(fiber.isEmpty() for fiber in self.ranks[depth].fibers)` -/
def allEmptyAt (dflt : ν) (a k : Nat) (t : Tree κ ν (a + 1 + k)) : Bool :=
  (fibersAt a k t).all (fun f => isEmpty dflt (a + 1) f)

/-- `Tensor.swapRanks(depth=k)`: nothing to swap → an empty root (since /repo COMMIT:C14-02; a deep
    copy of the unswapped root before); otherwise `swapRanks` on every non-empty fiber of rank `k`,
    an empty fiber in place of the empty ones -/
def swapT (comb : κ → κ → κ) (rev hd tl : κ → κ) (dflt : ν) (r k : Nat)
    (t : Tree κ ν (r + 2 + k)) : Option (Tree κ ν (r + 2 + k)) :=
  if allEmptyAt dflt (r + 1) k t then some (defaultTree dflt (r + 2 + k))
  else atDepth (fun s =>
    if isEmpty dflt (r + 2) s then some (show Tree κ ν (r + 2) from ([] : List (κ × Tree κ ν (r + 1))))
    else swapFiber comb rev hd tl dflt r s) k t

/-- `Tensor.unflattenRanks(depth=k, levels=l+1)`: nothing to unflatten → an empty root -/
def unflattenT (hd tl : κ → κ) (dflt : ν) (r l k : Nat)
    (t : Tree κ ν (r + 1 + k)) : Option (Tree κ ν (r + 2 + l + k)) :=
  if allEmptyAt dflt r k t then
    some (defaultTree dflt (r + 2 + l + k))
  else atDepth (unflatLv hd tl r l) k t

/-- `_unflattenRankIdsShape` only re-arranges an authoritative shape since /repo COMMIT:C14-01
    (before, it subscripted the estimate of an undeclared shape, the integer `0` for a rank that holds
    no coordinate → `TypeError`): declared or not, the tree transform is `unflattenT` -/
def unflattenTS (_declared : Bool) (hd tl : κ → κ) (dflt : ν) (r l k : Nat)
    (t : Tree κ ν (r + 1 + k)) : Option (Tree κ ν (r + 2 + l + k)) :=
  unflattenT hd tl dflt r l k t

/-- `Tensor.flattenRanks / mergeRanks(depth=k, levels=l+1)` -/
def mergeT (tup lin : Bool) (z : ν) (comb : Nat → κ → κ → κ) (mf : List ν → Option ν) (dflt : ν)
    (r l k : Nat) (t : Tree κ ν (r + 2 + l + k)) : Option (Tree κ ν (r + 1 + k)) :=
  atDepth (mergeLvA tup lin z comb mf dflt r l) k t

end merge

/-! ### Declarative side: transforms as maps on the content (point → value) -/

section spec
variable {κ : Type} [LT κ] [DecidableRel (α := κ) (· < ·)] [DecidableEq κ]
variable {ν : Type} [DecidableEq ν]

/-- a content: points with their (non-default) values -/
abbrev Content (κ ν : Type) := List (List κ × ν)

/-- image of a point under a rank permutation of the top `guide.length` ranks -/
def permPoint (guide : List Nat) (p : List κ) : List κ := permute guide p ++ p.drop guide.length

/-- **swizzle / swap**: every point moves to its permuted image; ascending -/
def swizzleSpec (guide : List Nat)
    (c : Content κ ν) : Content κ ν :=
  isort (c.map (fun pv => (permPoint guide pv.1, pv.2)))

/-- the permutation that exchanges ranks `k` and `k+1` -/
def swapGuide (k : Nat) : List Nat := List.range k ++ [k + 1, k]

/-- the top coordinate pair of a point combined -/
def join2 (comb : κ → κ → κ) : List κ → List κ
  | c1 :: c0 :: rest => comb c1 c0 :: rest
  | p => p

/-- image of a point when its first `l+2` coordinates are combined, lowest pair first (as the
    recursion of `_mergeRanksHelper` does): `comb j c (…)` when `j+1` ranks were combined below -/
def joinTop (comb : Nat → κ → κ → κ) : (l : Nat) → List κ → List κ
  | 0, p => join2 (comb 0) p
  | l + 1, c :: rest => join2 (comb (l + 1)) (c :: joinTop comb l rest)
  | _ + 1, [] => []

/-- image of a point when ranks `k … k+l+1` become one rank -/
def joinPoint (comb : Nat → κ → κ → κ) (k l : Nat) (p : List κ) : Option (List κ) :=
  if k + l + 2 ≤ p.length then some (p.take k ++ joinTop comb l (p.drop k)) else none

/-- group equal points (the list is sorted on points): values in list order -/
def groupPts : Content κ ν → List (List κ × List ν)
  | [] => []
  | (p, v) :: rest =>
    match groupPts rest with
    | [] => [(p, [v])]
    | (p', vs) :: gs => if p = p' then (p, v :: vs) :: gs else (p, [v]) :: (p', vs) :: gs

def foldVals (mf : List ν → Option ν) : List ν → Option ν
  | [] => none
  | [v] => some v
  | vs => mf vs

/-- **merge** one pair of ranks (`k`, `k+1` → one rank with coordinate `comb c1 c0`): colliding
    points are reduced with the merge function, values equal to the default disappear -/
def mergeSpec1
    (comb : κ → κ → κ) (mf : List ν → Option ν) (dflt : ν) (k : Nat)
    (c : Content κ ν) : Option (Content κ ν) :=
  let img := c.filterMap (fun pv => match pv.1.drop k with
    | c1 :: c0 :: rest => some (pv.1.take k ++ comb c1 c0 :: rest, pv.2)
    | _ => none)
  (mapM? (fun g => (foldVals mf g.2).map (fun v => (g.1, v))) (groupPts (isort img.reverse))).map
    (fun l => l.filter (fun pv => pv.2 ≠ dflt))

/-- **merge** of ranks `k … k+l+1`, lowest pair first -/
def mergeSpec
    (comb : Nat → κ → κ → κ) (mf : List ν → Option ν) (dflt : ν) (k : Nat) :
    (l : Nat) → Content κ ν → Option (Content κ ν)
  | 0, c => mergeSpec1 (comb 0) mf dflt k c
  | l + 1, c => (mergeSpec (fun j => comb j) mf dflt (k + 1) l c).bind (mergeSpec1 (comb (l + 1)) mf dflt k)

/-- the sub-trees below rank `n` that hold a point: distinct prefixes of length `n`, in order -/
def prefixes (n : Nat) (c : Content κ ν) : List (List κ) :=
  (c.map (fun pv => pv.1.take n)).eraseDups

/-- a sufficient condition for **flatten** (= `mergeSpec` with the raising merge function) to be
    defined: no two sub-trees below the flattened ranks get the same new coordinate; then every
    point moves to its image.  (Sub-trees that collide while their points do not are united
    without calling the merge function; the driver uses this only to tag such cases.) -/
def flattenSpec
    (comb : Nat → κ → κ → κ) (k l : Nat) (c : Content κ ν) : Option (Content κ ν) :=
  let pre := prefixes (k + l + 2) c
  let img := pre.filterMap (joinPoint comb k l)
  if img.length = pre.length ∧ img.eraseDups.length = img.length then
    some (isort (c.filterMap (fun pv => (joinPoint comb k l pv.1).map (fun q => (q, pv.2)))))
  else none

/-- image of a point when its first (tuple) coordinate becomes `l+2` coordinates -/
def splitTop (hd tl : κ → κ) : (l : Nat) → List κ → List κ
  | _, [] => []
  | 0, c :: rest => hd c :: tl c :: rest
  | l + 1, c :: rest => hd c :: splitTop hd tl l (tl c :: rest)

/-- image of a point when rank `k` (tuple coordinate) becomes ranks `k … k+l+1` -/
def splitPoint (hd tl : κ → κ) (k l : Nat) (p : List κ) : List κ :=
  p.take k ++ splitTop hd tl l (p.drop k)

/-- **unflatten**: every point moves to its image (order is preserved) -/
def unflattenSpec (hd tl : κ → κ) (k l : Nat) (c : Content κ ν) : Content κ ν :=
  c.map (fun pv => (splitPoint hd tl k l pv.1, pv.2))

/-- every stored coordinate of rank `i` has `ar[i]` components -/
def arityB : (d : Nat) → List Nat → Tree Coord ν d → Bool
  | 0, _, _ => true
  | _ + 1, [], _ => false
  | d + 1, a :: ar, f => (show List (Coord × Tree Coord ν d) from f).all
      (fun e => e.1.length == a && arityB d ar e.2)

end spec

end C09
end Ft
