/-
  FtModel.Nary — aggregated co-iteration (iterators.py `intersection`, `union`): n-ary two-finger
  intersection and union as folds of the binary merges, and the leader–follower intersection.
-/
import FtModel.Coiter
import FtModel.Point

namespace Ft
section
variable {κ α β : Type} [LT κ] [DecidableRel (α := κ) (· < ·)] [DecidableEq κ]

/-- `Fiber.intersection(a, b₁, …)` two-finger style: a left fold of `&`; the nested payload tuples
    are flattened in operand order -/
def naryAnd (a : Fib κ α) (rest : List (Fib κ α)) : Fib κ (List α) :=
  rest.foldl (fun acc b => (andMerge acc b).map (fun r => (r.1, r.2.1 ++ [r.2.2])))
    (a.map (fun e => (e.1, [e.2])))

def naryAndSpec (a : Fib κ α) (rest : List (Fib κ α)) : Fib κ (List α) :=
  a.filterMap (fun e => (rest.mapM (fun b => lookup b e.1)).map (fun ps => (e.1, e.2 :: ps)))

/-- `Fiber.union(a, b₁, …)`: a left fold of `|`; `none` = the fresh default of an absent operand -/
def naryOr (a : Fib κ α) (rest : List (Fib κ α)) : Fib κ (List (Option α)) :=
  (rest.foldl (fun (st : Nat × Fib κ (List (Option α))) b =>
      (st.1 + 1, (orMerge st.2 b).map (fun r =>
        (r.1, (r.2.2.1.getD (List.replicate st.1 none)) ++ [r.2.2.2]))))
    (1, a.map (fun e => (e.1, [some e.2])))).2

/-- the row the union must show at coordinate `c` -/
def naryOrRow (ops : List (Fib κ α)) (c : κ) : List (Option α) := ops.map (fun b => lookup b c)

/-- executable n-ary union spec on a candidate output -/
def naryOrSpecB [DecidableEq α] (ops : List (Fib κ α)) (out : Fib κ (List (Option α))) : Bool :=
  sortedB out && out.all (fun r => decide (r.2 = naryOrRow ops r.1) && r.2.any (·.isSome)) &&
  ops.all (fun b => b.all (fun e => hasCoord out e.1))

/-- the mask string of `Fiber.union`: letter `A+i` for every operand `i` present -/
def naryMask (row : List (Option α)) : String :=
  String.mk ((row.zipIdx.filter (fun p => p.1.isSome)).map (fun p => Char.ofNat (65 + p.2)))

/-- leader–follower intersection: every presented leader element, each follower's stored payload at
    that coordinate (found by position search) or `none` for a fresh default -/
def leaderFollower (a : Fib κ α) (bs : List (Fib κ β)) : Fib κ (α × List (Option β)) :=
  a.map (fun e => (e.1, (e.2, bs.map (fun b => posLookup b e.1))))

end
end Ft
