/-
  FtModel.Coiter — two-operand co-iteration (`&`, `|`, `^`, `-`), mirroring the
  merge loops of fibertree/core/iterators.py (`and_iterator`, `or_iterator`,
  `xor_iterator`, `sub_iterator`): a main two-finger loop and the tail loops.

  The merges are polymorphic in the payload types, so "the payload delivered is the
  operand's own stored payload" is carried by the type; the driver instantiates the
  payloads with storage positions to compare object identity with the implementation.
-/
import FtModel.Basic
namespace Ft

inductive Mask | A | B | AB
  deriving DecidableEq, Repr

def Mask.toString : Mask → String
  | .A => "A" | .B => "B" | .AB => "AB"

section
variable {κ α β : Type} [LT κ] [DecidableRel (α := κ) (· < ·)] [DecidableEq κ]

/-- `and_iterator` (equal-arity path): yield on a match, otherwise advance the smaller side. -/
def andMerge : Fib κ α → Fib κ β → Fib κ (α × β)
  | [], _ => []
  | _ :: _, [] => []
  | (ca, pa) :: ra, (cb, pb) :: rb =>
    if ca = cb then (ca, (pa, pb)) :: andMerge ra rb
    else if ca < cb then andMerge ra ((cb, pb) :: rb)
    else andMerge ((ca, pa) :: ra) rb
termination_by a b => a.length + b.length

/-- `or_iterator`: `none` stands for the freshly created default of the absent side. -/
def orMerge : Fib κ α → Fib κ β → Fib κ (Mask × Option α × Option β)
  | [], b => b.map (fun e => (e.1, (Mask.B, none, some e.2)))
  | a@(_ :: _), [] => a.map (fun e => (e.1, (Mask.A, some e.2, none)))
  | (ca, pa) :: ra, (cb, pb) :: rb =>
    if ca = cb then (ca, (Mask.AB, some pa, some pb)) :: orMerge ra rb
    else if ca < cb then (ca, (Mask.A, some pa, none)) :: orMerge ra ((cb, pb) :: rb)
    else (cb, (Mask.B, none, some pb)) :: orMerge ((ca, pa) :: ra) rb
termination_by a b => a.length + b.length

/-- `xor_iterator`. -/
def xorMerge : Fib κ α → Fib κ β → Fib κ (Mask × Option α × Option β)
  | [], b => b.map (fun e => (e.1, (Mask.B, none, some e.2)))
  | a@(_ :: _), [] => a.map (fun e => (e.1, (Mask.A, some e.2, none)))
  | (ca, pa) :: ra, (cb, pb) :: rb =>
    if ca = cb then xorMerge ra rb
    else if ca < cb then (ca, (Mask.A, some pa, none)) :: xorMerge ra ((cb, pb) :: rb)
    else (cb, (Mask.B, none, some pb)) :: xorMerge ((ca, pa) :: ra) rb
termination_by a b => a.length + b.length

/-- `sub_iterator`. -/
def subMerge : Fib κ α → Fib κ β → Fib κ α
  | [], _ => []
  | a@(_ :: _), [] => a
  | (ca, pa) :: ra, (cb, pb) :: rb =>
    if ca = cb then subMerge ra rb
    else if ca < cb then (ca, pa) :: subMerge ra ((cb, pb) :: rb)
    else subMerge ((ca, pa) :: ra) rb
termination_by a b => a.length + b.length

/-! ### Declarative truth tables (the specification side of C04) -/

def hasCoord {π : Type} (f : Fib κ π) (c : κ) : Bool := f.any (fun e => e.1 = c)

/-- intersection: the elements of `a` whose coordinate `b` presents, with both payloads -/
def andSpec (a : Fib κ α) (b : Fib κ β) : Fib κ (α × β) :=
  a.filterMap (fun e => (lookup b e.1).map (fun pb => (e.1, (e.2, pb))))

/-- difference: the elements of `a` whose coordinate `b` does not present -/
def subSpec (a : Fib κ α) (b : Fib κ β) : Fib κ α :=
  a.filter (fun e => !hasCoord b e.1)

def maskOf : Bool → Bool → Option Mask
  | true, true => some .AB
  | true, false => some .A
  | false, true => some .B
  | false, false => none

/-- An output row is correct for union if its mask names exactly the sides presenting
    its coordinate and its payloads are the operands' stored ones. -/
def orRowOk (a : Fib κ α) (b : Fib κ β) [DecidableEq α] [DecidableEq β]
    (row : κ × Mask × Option α × Option β) : Bool :=
  decide (row.2.2.1 = lookup a row.1) && decide (row.2.2.2 = lookup b row.1) &&
  decide (some row.2.1 = maskOf (hasCoord a row.1) (hasCoord b row.1))

/-- executable union spec on an arbitrary candidate output: ascending, rows correct,
    and every operand coordinate is covered -/
def orSpecB [DecidableEq α] [DecidableEq β] (a : Fib κ α) (b : Fib κ β)
    (out : Fib κ (Mask × Option α × Option β)) : Bool :=
  sortedB out && out.all (orRowOk a b) &&
  a.all (fun e => hasCoord out e.1) && b.all (fun e => hasCoord out e.1)

/-- executable xor spec: ascending, rows correct, mask never AB, and exactly the
    one-sided coordinates are covered -/
def xorSpecB [DecidableEq α] [DecidableEq β] (a : Fib κ α) (b : Fib κ β)
    (out : Fib κ (Mask × Option α × Option β)) : Bool :=
  sortedB out && out.all (orRowOk a b) && out.all (fun r => decide (r.2.1 ≠ Mask.AB)) &&
  a.all (fun e => hasCoord out e.1 || hasCoord b e.1) &&
  b.all (fun e => hasCoord out e.1 || hasCoord a e.1)

end
end Ft
