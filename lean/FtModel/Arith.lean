/-
  FtModel.Arith — arithmetic on boxes (`Payload`), on fiber elements (`CoordPayload`) and on
  fibers (`Fiber.__add__/__radd__/__iadd__/__mul__/__rmul__/__imul__`), as the code is today.

  Part A mirrors Python's binary-operator protocol for the three operand kinds the property
  talks about (plain scalar, `Payload`, `CoordPayload`) together with the dunder methods the two
  classes really define (fibertree/core/payload.py:387-651, coord_payload.py:186-390).  It is
  polymorphic in the value algebra `Alg ν ε` (the operators of the underlying Python values,
  which may raise), so nothing here depends on what `+` means for ints or floats.

  Part B mirrors the fiber operators (fibertree/core/fiber.py:3017-3304) on depth-indexed trees.
-/
import FtModel.Basic
import FtModel.Coiter
namespace Ft
namespace Arith

/-! ## Part A — boxes and elements -/

/-- operand kinds: plain scalar, `Payload` (a box), `CoordPayload` (a fiber element) -/
inductive Kind | S | P | E
  deriving DecidableEq, Repr

/-- the binary operators the two classes document (`+ - * / // << & |`) -/
inductive BinOp | add | sub | mul | div | fdiv | shl | band | bor
  deriving DecidableEq, Repr

inductive CmpOp | eq | ne | lt | le | gt | ge
  deriving DecidableEq, Repr

/-- the in-place forms (`+= -= *= <<= /=`) -/
inductive IOp | iadd | isub | imul | ishl | idiv
  deriving DecidableEq, Repr

/-- The operators of the underlying values. `bin` may raise (ZeroDivisionError, negative shift
    count, unsupported float operand …). -/
structure Alg (ν ε : Type) where
  bin : BinOp → ν → ν → Except ε ν
  cmp : CmpOp → ν → ν → Bool

/-- outcome of a binary operator expression -/
inductive Res (ν ε : Type)
  | plain (v : ν)        -- an unboxed value (only scalar ∘ scalar)
  | boxed (v : ν)        -- a fresh `Payload` holding `v`
  | typeError            -- "unsupported operand type(s)": no method accepted the operands
  | raised (e : ε)       -- the value operator itself raised
  deriving DecidableEq, Repr

/-- Which *forward* dunder (`__add__`, `__sub__`, `__mul__`, `__truediv__`, `__floordiv__`,
    `__lshift__`, `__and__`, `__or__`) a class defines: both classes define all eight. -/
def Kind.hasOp : Kind → BinOp → Bool
  | _, _ => true

/-- Which *reflected* dunder (`__radd__`, `__rsub__`, `__rmul__`, `__rtruediv__`, `__rfloordiv__`,
    `__rlshift__`, `__rand__`, `__ror__`) a class defines: both classes define all eight. -/
def Kind.hasROp : Kind → BinOp → Bool
  | _, _ => true

section
variable {ν ε : Type} (A : Alg ν ε)

/-- `Payload(ans)`: box a result; `Payload.__setattr__` copies the value out of an `ans` that
    is itself a `Payload`, so there is no double boxing.  Exceptions propagate. -/
def Res.rebox : Res ν ε → Res ν ε
  | .plain v => .boxed v
  | .boxed v => .boxed v
  | .typeError => .typeError
  | .raised e => .raised e

/-- scalar ∘ scalar: the value operator -/
def opSS (op : BinOp) (x y : ν) : Res ν ε :=
  match A.bin op x y with
  | .ok v => .plain v
  | .error e => .raised e

/-- `Payload ∘ scalar`: `Payload.__op__` → `Payload(self.value op other)`; the scalar's reflected
    method does not know `Payload`. -/
def opPS (op : BinOp) (x y : ν) : Res ν ε :=
  if Kind.hasOp .P op then (opSS A op x y).rebox else .typeError

/-- `scalar ∘ Payload`: the scalar's method returns NotImplemented, then `Payload.__rop__`
    → `Payload(other op self.value)`. -/
def opSP (op : BinOp) (x y : ν) : Res ν ε :=
  if Kind.hasROp .P op then (opSS A op x y).rebox else .typeError

/-- `Payload ∘ Payload`: `Payload.__op__` with `isinstance(other, Payload)`; same type, so no
    reflected attempt. -/
def opPP (op : BinOp) (x y : ν) : Res ν ε :=
  if Kind.hasOp .P op then (opSS A op x y).rebox else .typeError

/-- `CoordPayload ∘ scalar`: `CoordPayload.__op__` → `self.payload op other`. -/
def opES (op : BinOp) (x y : ν) : Res ν ε :=
  if Kind.hasOp .E op then opPS A op x y else .typeError

/-- `scalar ∘ CoordPayload`: `CoordPayload.__rop__` → `other op self.payload`. -/
def opSE (op : BinOp) (x y : ν) : Res ν ε :=
  if Kind.hasROp .E op then opSP A op x y else .typeError

/-- `CoordPayload ∘ CoordPayload`: `self.payload op other.payload`. -/
def opEE (op : BinOp) (x y : ν) : Res ν ε :=
  if Kind.hasOp .E op then opPP A op x y else .typeError

/-- `CoordPayload ∘ Payload`: `CoordPayload.__op__` (other is not a CoordPayload) →
    `self.payload op other`; without it, `Payload.__rop__` → `Payload(other op self.value)`. -/
def opEP (op : BinOp) (x y : ν) : Res ν ε :=
  if Kind.hasOp .E op then opPP A op x y
  else if Kind.hasROp .P op then (opES A op x y).rebox
  else .typeError

/-- `Payload ∘ CoordPayload`: `Payload.__op__` (other is not a Payload) →
    `Payload(self.value op other)` where the inner expression is scalar ∘ element (a TypeError
    raised there propagates); without it, `CoordPayload.__rop__` → `other op self.payload`. -/
def opPE (op : BinOp) (x y : ν) : Res ν ε :=
  if Kind.hasOp .P op then (opSE A op x y).rebox
  else if Kind.hasROp .E op then opPP A op x y
  else .typeError

/-- `a op b` for operands of kinds `ka`, `kb` holding the values `x`, `y`. -/
def pyBin (op : BinOp) (ka kb : Kind) (x y : ν) : Res ν ε :=
  match ka, kb with
  | .S, .S => opSS A op x y
  | .P, .S => opPS A op x y
  | .S, .P => opSP A op x y
  | .P, .P => opPP A op x y
  | .E, .S => opES A op x y
  | .S, .E => opSE A op x y
  | .E, .E => opEE A op x y
  | .E, .P => opEP A op x y
  | .P, .E => opPE A op x y

/-- The property's claim for a binary operator with at least one box/element operand: a box
    holding the result of the same operator on the underlying values. -/
def binSpec (op : BinOp) (x y : ν) : Res ν ε := (opSS A op x y).rebox

/-! ### comparisons (both classes define all six; a scalar on the left uses the swapped method) -/

def CmpOp.swap : CmpOp → CmpOp
  | .lt => .gt | .gt => .lt | .le => .ge | .ge => .le | .eq => .eq | .ne => .ne

def cmpSS (c : CmpOp) (x y : ν) : Bool := A.cmp c x y
/-- `Payload.__lt__(scalar)`: `self.value < other` -/
def cmpPS (c : CmpOp) (x y : ν) : Bool := cmpSS A c x y
/-- scalar first: NotImplemented, then the swapped method of the `Payload` -/
def cmpSP (c : CmpOp) (x y : ν) : Bool := cmpPS A c.swap y x
def cmpPP (c : CmpOp) (x y : ν) : Bool := cmpSS A c x y
/-- `CoordPayload.__lt__(scalar)`: `self.payload < other` -/
def cmpES (c : CmpOp) (x y : ν) : Bool := cmpPS A c x y
def cmpSE (c : CmpOp) (x y : ν) : Bool := cmpES A c.swap y x
def cmpEE (c : CmpOp) (x y : ν) : Bool := cmpPP A c x y
/-- `CoordPayload.__lt__(Payload)`: `self.payload < other` -/
def cmpEP (c : CmpOp) (x y : ν) : Bool := cmpPP A c x y
/-- `Payload.__lt__(CoordPayload)`: other is not a Payload → `self.value < other` = scalar ∘ element -/
def cmpPE (c : CmpOp) (x y : ν) : Bool := cmpSE A c x y

def pyCmp (c : CmpOp) (ka kb : Kind) (x y : ν) : Bool :=
  match ka, kb with
  | .S, .S => cmpSS A c x y
  | .P, .S => cmpPS A c x y
  | .S, .P => cmpSP A c x y
  | .P, .P => cmpPP A c x y
  | .E, .S => cmpES A c x y
  | .S, .E => cmpSE A c x y
  | .E, .E => cmpEE A c x y
  | .E, .P => cmpEP A c x y
  | .P, .E => cmpPE A c x y

/-! ### in-place forms -/

/-- what the (element's) box holds afterwards: a value, or — a defect of `Payload.__ilshift__`
    given a `CoordPayload` — the element object itself -/
inductive Held (ν : Type) | val (v : ν) | elemObj   -- `elemObj` is no longer produced by the model; kept so that the observation stays expressible
  deriving DecidableEq, Repr

/-- what the name on the left of `op=` is bound to afterwards -/
inductive Ret | same | none | fresh   -- only `same` is produced by the model; the others name observable misbehaviour
  deriving DecidableEq, Repr

inductive IRes (ν ε : Type)
  | done (ret : Ret) (a : Held ν)   -- binding of the left name, content of the left operand's box
  | typeError                        -- raised, nothing changed
  | raised (e : ε)                   -- the value operator raised, nothing changed
  deriving DecidableEq, Repr

def IOp.bin : IOp → Option BinOp
  | .iadd => some .add | .isub => some .sub | .imul => some .mul | .idiv => some .div
  | .ishl => none

/-- `self.value = <expression>; return self` (the assignment unboxes a `Payload` result) -/
def Res.store : Res ν ε → IRes ν ε
  | .plain v => .done .same (.val v)
  | .boxed v => .done .same (.val v)
  | .typeError => .typeError
  | .raised e => .raised e

/-- `Payload.__iadd__/__isub__/__imul__/__itruediv__`: `self.value = self.value op other.value`
    (a `Payload` right operand) or `self.value op other`; `__ilshift__` unwraps an element or a
    `Payload` and assigns.  All return `self`. -/
def iopP (i : IOp) (kb : Kind) (x y : ν) : IRes ν ε :=
  match i with
  | .ishl => .done .same (.val y)
  | .idiv => match kb with
    | .E => (opSE A .div x y).store
    | _ => (opSS A .div x y).store
  | .iadd => match kb with
    | .E => (opSE A .add x y).store    -- `self.value + other`, other an element
    | _ => (opSS A .add x y).store
  | .isub => match kb with
    | .E => (opSE A .sub x y).store
    | _ => (opSS A .sub x y).store
  | .imul => match kb with
    | .E => (opSE A .mul x y).store
    | _ => (opSS A .mul x y).store

/-- `CoordPayload.__iadd__/__isub__/__imul__/__itruediv__/__ilshift__` forward to the payload
    (`other.payload` for an element, `other` otherwise) and return `self`. -/
def iopE (i : IOp) (kb : Kind) (x y : ν) : IRes ν ε :=
  iopP A i (if kb = .E then .P else kb) x y

/-- `a op= b` where `a` is a box (`ka = P`) or an element (`ka = E`) -/
def pyIop (i : IOp) (ka kb : Kind) (x y : ν) : IRes ν ε :=
  match ka with
  | .P => iopP A i kb x y
  | .E => iopE A i kb x y
  | .S => .typeError   -- not an in-place form on a box (never generated)

/-- The property's claim: same box, holding the operator's result (`<<=`: the new value). -/
def iopSpec (i : IOp) (x y : ν) : IRes ν ε :=
  match i.bin with
  | none => .done .same (.val y)
  | some op =>
    match A.bin op x y with
    | .ok v => .done .same (.val v)
    | .error e => .raised e

end

/-! ## Part B — fibers -/

section
variable {κ ν : Type} [LT κ] [DecidableRel (α := κ) (· < ·)] [DecidableEq κ] [DecidableEq ν]

/-- `_createDefault`: the default leaf value, or an empty fiber -/
def dfltTree (dflt : ν) : (d : Nat) → Tree κ ν d
  | 0 => dflt
  | _ + 1 => ([] : List _)

/-- dense view: the value at a point (list of coordinates, outermost first) -/
def denseAt (dflt : ν) : (d : Nat) → Tree κ ν d → List κ → ν
  | 0, v, _ => v
  | _ + 1, _, [] => dflt
  | d + 1, f, c :: p =>
    match lookup (show List (κ × Tree κ ν d) from f) c with
    | some t => denseAt dflt d t p
    | none => dflt

/-- `Fiber.__add__(fiber)`: over `self | other`, `self_val + other_val` (a `Payload` sum at the
    leaves, recursively `Fiber.__add__` above); each operand presents what is non-default for ITS
    default (`dfa`, `dfb`) and an absent side is replaced by that operand's `_createDefault`;
    the result carries `self`'s default `dfa`. -/
def addT [Add ν] (dfa dfb : ν) : (d : Nat) → Tree κ ν d → Tree κ ν d → Tree κ ν d
  | 0, x, y => (show ν from x) + (show ν from y)
  | d + 1, a, b =>
    show List (κ × Tree κ ν d) from
    (orMerge (present dfa d a) (present dfb d b)).map
      (fun r => (r.1, addT dfa dfb d (r.2.2.1.getD (dfltTree dfa d)) (r.2.2.2.getD (dfltTree dfb d))))

/-- `Fiber.__mul__(fiber)`: over `self & other`, `a_val * b_val`. -/
def mulT [Mul ν] (dflt : ν) : (d : Nat) → Tree κ ν d → Tree κ ν d → Tree κ ν d
  | 0, x, y => (show ν from x) * (show ν from y)
  | d + 1, a, b =>
    show List (κ × Tree κ ν d) from
    (andMerge (present dflt d a) (present dflt d b)).map (fun r => (r.1, mulT dflt d r.2.1 r.2.2))

def consOpt {α : Type} (c : κ) : Option α → Fib κ α → Fib κ α
  | some v, l => (c, v) :: l
  | none, l => l

/-- `lshift_iterator` driven to completion with a loop body `upd`: for every presented element
    of `b` the destination's existing payload (`some`) or a freshly inserted default (`none`) is
    offered to the body; `upd` returning `none` is the iterator's "remove it again" branch.
    The destination position only moves forward (`a_pos`), hence a two-finger merge. -/
def lshiftMerge {α β : Type} (upd : Option α → β → Option α) : Fib κ α → Fib κ β → Fib κ α
  | a, [] => a
  | [], (cb, vb) :: rb => consOpt cb (upd none vb) (lshiftMerge upd [] rb)
  | (ca, pa) :: ra, (cb, vb) :: rb =>
    if ca = cb then consOpt cb (upd (some pa) vb) (lshiftMerge upd ra rb)
    else if ca < cb then (ca, pa) :: lshiftMerge upd ra ((cb, vb) :: rb)
    else consOpt cb (upd none vb) (lshiftMerge upd ((ca, pa) :: ra) rb)
termination_by a b => a.length + b.length

/-- The removal test after the loop body (iterators.py, `lshift_iterator`): because of operator
    precedence a leaf equal to the default is removed whether or not it was new; a sub-fiber
    only if it was new and has no positions. -/
def removeAfter (dflt : ν) : (d : Nat) → Bool → Tree κ ν d → Bool
  | 0, _, v => decide ((show ν from v) = dflt)
  | d + 1, isNew, f => isNew && (show List (κ × Tree κ ν d) from f).isEmpty

/-- `Fiber.__iadd__(fiber)`: `for _, (self_ref, other_val) in self << other: self_ref += other_val`
    (`Payload.__iadd__` at the leaves, recursively `Fiber.__iadd__` above). -/
def iaddT [Add ν] (dflt : ν) : (d : Nat) → Tree κ ν d → Tree κ ν d → Tree κ ν d
  | 0, x, y => (show ν from x) + (show ν from y)
  | d + 1, a, b =>
    show List (κ × Tree κ ν d) from
    lshiftMerge (fun (old : Option (Tree κ ν d)) (vb : Tree κ ν d) =>
        let v := iaddT dflt d (old.getD (dfltTree dflt d)) vb
        if removeAfter dflt d old.isNone v then none else some v)
      (show List (κ × Tree κ ν d) from a) (present dflt d b)

/-- The loops of `Fiber.__imul__(fiber)`: `self & other` walks both operands with two fingers;
    at a common coordinate `getPayloadRef(c)` is that element of `self`, which is overwritten
    (`f`); `self - other` then visits the elements of `self` without a partner, which are
    emptied (`g`). -/
def imulMerge {α β : Type} (f : α → β → α) (g : α → α) : Fib κ α → Fib κ β → Fib κ α
  | [], _ => []
  | a@(_ :: _), [] => a.map (fun e => (e.1, g e.2))
  | (ca, pa) :: ra, (cb, pb) :: rb =>
    if ca = cb then (ca, f pa pb) :: imulMerge f g ra rb
    else if ca < cb then (ca, g pa) :: imulMerge f g ra ((cb, pb) :: rb)
    else imulMerge f g ((ca, pa) :: ra) rb
termination_by a b => a.length + b.length

/-- `Fiber.__imul__(fiber)`: for every element of `self & other` (presented on both sides),
    `self.getPayloadRef(c) <<= self_val * other_val` (`<<=` of a fiber copies the presented
    elements = `nonEmpty`); every element `self - other` yields (presented by `self` only) is
    set to the default / cleared.  Elements of `self` that are not presented are skipped by
    both iterators. -/
def imulT [Mul ν] (dflt : ν) (d : Nat) (a b : Tree κ ν (d + 1)) : Tree κ ν (d + 1) :=
  show List (κ × Tree κ ν d) from
  imulMerge (fun pa pb => if isEmpty dflt d pa then pa else nonEmpty dflt d (mulT dflt d pa pb))
    (fun pa => if isEmpty dflt d pa then pa else dfltTree dflt d)
    (show List (κ × Tree κ ν d) from a) (present dflt d b)

/-! ### pointwise expectations (the declarative side) -/

/-- elementwise sum over the union: where either side is non-default, the sum (the other side
    contributing its default); elsewhere the default -/
def addExpect [Add ν] (dfa dfb x y : ν) : ν := if x ≠ dfa ∨ y ≠ dfb then x + y else dfa

/-- elementwise product over the intersection -/
def mulExpect [Mul ν] (dflt x y : ν) : ν := if x ≠ dflt ∧ y ≠ dflt then x * y else dflt

/-- what `+=` with a fiber does as written: adds where the right operand is non-default -/
def iaddExpect [Add ν] (dflt x y : ν) : ν := if y ≠ dflt then x + y else x

/-- the points at which any of the trees stores a non-default leaf -/
def pointsOf (dflt : ν) (d : Nat) (ts : List (Tree κ ν d)) : List (List κ) :=
  ts.flatMap (fun t => (content dflt d t).map (·.1))

/-- executable pointwise check of a candidate output against an expectation on the dense views -/
def pointwiseB (dflt : ν) (d : Nat) (exp : ν → ν → ν) (a b out : Tree κ ν d) : Bool :=
  (pointsOf dflt d [a, b, out]).all
    (fun p => decide (denseAt dflt d out p = exp (denseAt dflt d a p) (denseAt dflt d b p)))

/-- equal dense views, checked at every point where either stores something -/
def sameDenseB (dflt : ν) (d : Nat) (t u : Tree κ ν d) : Bool :=
  (pointsOf dflt d [t, u]).all (fun p => decide (denseAt dflt d t p = denseAt dflt d u p))

end

/-! ### fiber ∘ scalar (leaf fibers, integer coordinates) -/

section
variable {ν : Type} [DecidableEq ν]

/-- a leaf fiber (association list of values) as a tree of depth 1 -/
def leafFiber {κ : Type} (f : Fib κ ν) : Tree κ ν 1 := f

/-- `estimateShape` of one fiber: last coordinate + 1, or 0 -/
def estShape {α : Type} (f : Fib Int α) : Nat :=
  match f.getLast? with
  | none => 0
  | some e => (e.1 + 1).toNat

/-- `getShape(all_ranks=False)`: the declared shape, else the estimate -/
def shapeOf {α : Type} (declared : Option Nat) (f : Fib Int α) : Nat := declared.getD (estShape f)

/-- `Fiber.__add__(scalar)` / `__radd__`: `for c, p in self.iterShape(): other + p.value`
    (`getPayload(c)` returns the stored payload — also an explicit default — or the default). -/
def saddF [Add ν] (dflt s : ν) (n : Nat) (f : Fib Int ν) : Fib Int ν :=
  (List.range n).map (fun (i : Nat) => ((i : Int), s + (lookup f (i : Int)).getD dflt))

/-- `Fiber.__mul__(scalar)` / `__rmul__`: `for c, p in self: other * p.value` (presented elements) -/
def smulF [Mul ν] (dflt s : ν) (f : Fib Int ν) : Fib Int ν :=
  (f.filter (fun e => !decide (e.2 = dflt))).map (fun e => (e.1, s * e.2))

/-- `getPayloadRef(c)` then an update of the (possibly freshly inserted default) payload -/
def upsert {κ : Type} [LT κ] [DecidableRel (α := κ) (· < ·)] [DecidableEq κ]
    (dflt : ν) (g : ν → ν) : Fib κ ν → κ → Fib κ ν
  | [], c => [(c, g dflt)]
  | (ca, va) :: r, c =>
    if ca = c then (ca, g va) :: r
    else if c < ca then (c, g dflt) :: (ca, va) :: r
    else (ca, va) :: upsert dflt g r c

/-- `Fiber.__iadd__(scalar)`: `for c, p in self.iterShapeRef(): p += other` -/
def isaddF [Add ν] (dflt s : ν) (n : Nat) (f : Fib Int ν) : Fib Int ν :=
  (List.range n).foldl (fun acc (i : Nat) => upsert dflt (fun v => v + s) acc (i : Int)) f

/-- `Fiber.__imul__(scalar)`: `for _, p in self: p *= other` (presented elements, in place) -/
def ismulF [Mul ν] (dflt s : ν) (f : Fib Int ν) : Fib Int ν :=
  f.map (fun e => if e.2 = dflt then e else (e.1, e.2 * s))

/-- all coordinates inside `[0, n)` — the precondition under which a shape describes the fiber -/
def inShapeB {α : Type} (n : Nat) (f : Fib Int α) : Bool :=
  f.all (fun e => decide (0 ≤ e.1) && decide (e.1 < (n : Int)))

/-- `Fiber.__add__(scalar)` at any depth: over the whole shape of this rank,
    `other + Payload.get(p)` - a leaf sum, or recursively `Fiber.__radd__` on the sub-fiber
    (`getPayload(c)` yields the stored payload or `_createDefault`).  `shp` lists the shapes of
    the ranks from this one down (tensor-owned fibers). -/
def saddT [Add ν] (dflt s : ν) : (d : Nat) → List Nat → Tree Int ν d → Tree Int ν d
  | 0, _, v => s + (show ν from v)
  | d + 1, shp, f =>
    show List (Int × Tree Int ν d) from
    (List.range (shp.headD 0)).map (fun (i : Nat) =>
      ((i : Int), saddT dflt s d shp.tail
        ((lookup (show List (Int × Tree Int ν d) from f) (i : Int)).getD (dfltTree dflt d))))

/-- `Fiber.__mul__(scalar)` at any depth: over the presented elements, `other * Payload.get(p)`. -/
def smulT {κ : Type} [Mul ν] (dflt s : ν) : (d : Nat) → Tree κ ν d → Tree κ ν d
  | 0, v => s * (show ν from v)
  | d + 1, f =>
    show List (κ × Tree κ ν d) from
    (present dflt d f).map (fun e => (e.1, smulT dflt s d e.2))

/-- a point lies inside a (multi-rank) shape -/
def inGridB : List Nat → List Int → Bool
  | _, [] => true
  | [], _ :: _ => false
  | n :: ns, c :: q => decide (0 ≤ c) && decide (c < (n : Int)) && inGridB ns q

end
end Arith
end Ft
