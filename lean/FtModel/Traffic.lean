/-
  FtModel.Traffic — model of fibertree/model/traffic.py (property C17).

  Traces are lists of rows.  A row of a raw trace of a rank at loop depth `n` is
  `stamp(n) ++ coords(n) ++ [fiber_pos]`; `_combineTraces` appends `is_write`;
  `_buildNextUseTrace` appends the next row that touches the same line (or `None`s).

  Mirrored, in the order of the Python source:
    * `filterTrace`            two-pointer scan                         (`filterTrace`)
    * `_combineTraces`         two-finger merge, read first on ties     (`combine`)
    * `_buildPoint`, `_buildNextUseTrace`  backward scan with a dict    (`linePoint`, `nextUse`)
    * `_bufferTraffic`         k-way merge of the bindings' traces by (padded stamp, binding
                               position) (`schedule`) and the per-row case split
    * buffet callbacks         window test, fill index, in-order drain queue (`bstep`, `drainLoop`)
    * cache callbacks          sorted list by next access (`sortedAdd`), `pop(0)` test,
                               pinning, bypass, eviction loop (`cstep`, `evictLoop`)

  Representation choices (documented, guarded by the driver's precondition):
    * `objs[tensor][type_]` dictionaries are keyed per binding here.  Two bindings of one
      (tensor, type) address different ranks of that tensor, hence their line points have
      different lengths and can never collide; the driver answers OUT_OF_MODEL otherwise.
    * traffic is accumulated per binding and summed per tensor at the end.

  Specifications (declarative, executable):
    * `filterSpec`, `combineSpecB`, `nextUseSpec`
    * `fillsSpec` / `writebacksSpec`  : counts over distinct (line, eviction-window) pairs
    * `refCache`                      : furthest-next-use-with-bypass reference simulator that
                                        measures "next use" by position in the access sequence
-/
namespace Ft
namespace Traffic

/-! ### rows -/

structure Row where
  stamp  : List Nat
  coords : List Nat
  pos    : Nat
  deriving DecidableEq, Repr, Inhabited

/-- a row of a combined (read+write) trace -/
structure CRow where
  stamp   : List Nat
  coords  : List Nat
  pos     : Nat
  isWrite : Bool
  deriving DecidableEq, Repr, Inhabited

def Row.tag (r : Row) (w : Bool) : CRow := ⟨r.stamp, r.coords, r.pos, w⟩
def CRow.untag (r : CRow) : Row := ⟨r.stamp, r.coords, r.pos⟩

/-- Python's `<` on tuples / lists of non-negative ints. -/
def lexLt : List Nat → List Nat → Bool
  | [], [] => false
  | [], _ :: _ => true
  | _ :: _, [] => false
  | a :: as, b :: bs => if a < b then true else if b < a then false else lexLt as bs

def lexLe (a b : List Nat) : Bool := !lexLt b a

/-! ### association lists (Python dicts; iteration order is never observed) -/

section AList
variable {κ β : Type} [DecidableEq κ]

def alookup : List (κ × β) → κ → Option β
  | [], _ => none
  | (k, v) :: r, x => if k = x then some v else alookup r x

def ainsert : List (κ × β) → κ → β → List (κ × β)
  | [], x, v => [(x, v)]
  | (k, w) :: r, x, v => if k = x then (k, v) :: r else (k, w) :: ainsert r x v

/-- `del d[x]` (keys are unique in a dict; removing every entry with the key keeps the lemmas
    unconditional) -/
def aerase (l : List (κ × β)) (x : κ) : List (κ × β) := l.filter (fun e => decide (e.1 ≠ x))

end AList

/-! ### filterTrace (traffic.py:22-73) -/

/-- `get_data` keeps the coordinate half of a row; the filter row is cut to the input's arity. -/
def filterTrace : List Row → List Row → List Row
  | [], _ => []
  | _ :: _, [] => []
  | i :: is, f :: fs =>
    if i.coords = f.coords.take i.coords.length then i :: filterTrace is fs
    else if lexLt i.coords (f.coords.take i.coords.length) then filterTrace is (f :: fs)
    else filterTrace (i :: is) fs
termination_by a b => a.length + b.length

/-- "keeps exactly the rows whose point occurs in the filter trace" -/
def filterSpec (inp fil : List Row) : List Row :=
  inp.filter (fun i => fil.any (fun f => f.coords.take i.coords.length = i.coords))

/-! ### _combineTraces (traffic.py:75-126) -/

/-- the write is taken only if its stamp is strictly earlier; an exhausted file reads as `(inf,)` -/
def combine : List Row → List Row → List CRow
  | [], ws => ws.map (·.tag true)
  | r :: rs, [] => (r :: rs).map (·.tag false)
  | r :: rs, w :: ws =>
    if lexLt w.stamp r.stamp then w.tag true :: combine (r :: rs) ws
    else r.tag false :: combine rs (w :: ws)
termination_by a b => a.length + b.length

/-- no write row is followed (anywhere later) by a read row with a stamp `≤` its own … -/
def tiesReadFirst : List CRow → Bool
  | [] => true
  | x :: rest =>
    (!x.isWrite || rest.all (fun y => y.isWrite || lexLt x.stamp y.stamp)) && tiesReadFirst rest

/-- … and no read row is followed by a write row with a strictly smaller stamp. -/
def readsNotOvertaken : List CRow → Bool
  | [] => true
  | x :: rest =>
    (x.isWrite || rest.all (fun y => !y.isWrite || lexLe x.stamp y.stamp)) && readsNotOvertaken rest

/-- executable "stable merge by iteration stamp" on a candidate output -/
def combineSpecB (reads writes : List Row) (out : List CRow) : Bool :=
  decide ((out.filter (fun r => !r.isWrite)).map CRow.untag = reads) &&
  decide ((out.filter (fun r => r.isWrite)).map CRow.untag = writes) &&
  tiesReadFirst out && readsNotOvertaken out

/-! ### _buildPoint / _buildNextUseTrace (traffic.py:128-175) -/

/-- `itertools.compress` -/
def compress {α : Type} : List α → List Bool → List α
  | a :: as, b :: bs => if b then a :: compress as bs else compress as bs
  | _, _ => []

/-- `point[-1] = v` -/
def setLast : List Nat → Nat → List Nat
  | [], _ => []
  | [_], v => [v]
  | a :: b :: r, v => a :: setLast (b :: r) v

/-- the line a row touches: coordinates of the tensor's ranks, last one replaced by the
    line-aligned position -/
def linePoint (mask : List Bool) (epl : Nat) (coords : List Nat) (pos : Nat) : List Nat :=
  setLast (compress coords mask) (pos / epl * epl)

def CRow.line (mask : List Bool) (epl : Nat) (r : CRow) : List Nat :=
  linePoint mask epl r.coords r.pos

/-- backward scan: `last_points` maps a line to the row that touched it most recently
    (= the earliest later row, since we walk backwards) -/
def nextUseAux (mask : List Bool) (epl : Nat) :
    List CRow → List (CRow × Option CRow) × List (List Nat × CRow)
  | [] => ([], [])
  | r :: rest =>
    let res := nextUseAux mask epl rest
    let p := r.line mask epl
    ((r, alookup res.2 p) :: res.1, ainsert res.2 p r)

def nextUse (mask : List Bool) (epl : Nat) (rows : List CRow) : List (CRow × Option CRow) :=
  (nextUseAux mask epl rows).1

/-- declarative: the next use of a row is the first later row on the same line -/
def nextUseSpec (mask : List Bool) (epl : Nat) : List CRow → List (CRow × Option CRow)
  | [] => []
  | r :: rest =>
    (r, rest.find? (fun x => x.line mask epl = r.line mask epl)) :: nextUseSpec mask epl rest

/-! ### accesses as seen by the main loop of `_bufferTraffic` -/

/-- What the main loop reads from one line of a next-use trace. `staging`/`wb` are filled in
    from the binding's `shapes[i]`. -/
structure Acc where
  stamp   : List Nat
  point   : List Nat          -- `obj`
  isWrite : Bool
  wb      : Bool              -- `write_back`
  staging : Bool              -- `shapes[i] is not None and trace[2n] >= shapes[i]`
  next    : Option (List Nat) -- stamp of the next use, `none` = the `None` columns
  deriving DecidableEq, Repr, Inhabited

def mkAcc (mask : List Bool) (epl : Nat) (shape : Option Nat) (x : CRow × Option CRow) : Acc :=
  { stamp := x.1.stamp
    point := x.1.line mask epl
    isWrite := x.1.isWrite
    wb := x.1.isWrite && (match shape with | none => true | some s => decide (x.1.pos < s))
    staging := (match shape with | none => false | some s => decide (s ≤ x.1.pos))
    next := x.2.map (·.stamp) }

/-- the accesses of one binding: combined trace → next-use trace → what the loop reads.
    `maskN` is the mask `_buildNextUseTrace` derives from the trace's own header, `maskM`
    the one the main loop derives from `order`. -/
def accsOf (maskN maskM : List Bool) (epl : Nat) (shape : Option Nat) (rows : List CRow) : List Acc :=
  (nextUse maskN epl rows).map (mkAcc maskM epl shape)

/-! ### the order in which `_bufferTraffic` consumes the traces (`next_keys`, `_extractNext`) -/

def lexLtI : List Int → List Int → Bool
  | [], [] => false
  | [], _ :: _ => true
  | _ :: _, [] => false
  | a :: as, b :: bs => if a < b then true else if b < a then false else lexLtI as bs

/-- stamp padded with -1 to the depth of the loop nest, then the binding position -/
def padKey (L : Nat) (s : List Nat) (i : Nat) : List Int :=
  s.map Int.ofNat ++ List.replicate (L - s.length) (-1) ++ [Int.ofNat i]

/-- position of the binding whose pending row has the smallest key -/
def pickMin (L : Nat) : Nat → Option (List Int × Nat) → List (List Acc) → Option Nat
  | _, best, [] => best.map (·.2)
  | i, best, [] :: ts => pickMin L (i + 1) best ts
  | i, best, (a :: _) :: ts =>
    let k := padKey L a.stamp i
    match best with
    | none => pickMin L (i + 1) (some (k, i)) ts
    | some (kb, ib) => if lexLtI k kb then pickMin L (i + 1) (some (k, i)) ts
                       else pickMin L (i + 1) (some (kb, ib)) ts

def popAt : Nat → List (List Acc) → Option (Acc × List (List Acc))
  | _, [] => none
  | 0, [] :: _ => none
  | 0, (a :: t) :: ts => some (a, t :: ts)
  | i + 1, t :: ts => (popAt i ts).map (fun r => (r.1, t :: r.2))

def scheduleFuel (L : Nat) : Nat → List (List Acc) → List (Nat × Acc)
  | 0, _ => []
  | fuel + 1, ts =>
    match pickMin L 0 none ts with
    | none => []
    | some i =>
      match popAt i ts with
      | none => []
      | some (a, ts') => (i, a) :: scheduleFuel L fuel ts'

def totalLen (ts : List (List Acc)) : Nat := (ts.map List.length).sum

def schedule (L : Nat) (ts : List (List Acc)) : List (Nat × Acc) := scheduleFuel L (totalLen ts) ts

/-! ### buffet (traffic.py:177-287 callbacks + 495-552 main loop), one binding -/

structure BEntry where
  dirty : Bool
  idx   : Nat
  deriving DecidableEq, Repr

/-- the state a binding owns in the buffet model: its slice of `objs`, `drain_info[key]`,
    `ready_to_drain[key]`, its share of `occupancy`, and its charges -/
structure B1 where
  objs   : List (List Nat × BEntry) := []
  fill   : Nat := 0
  drain  : Nat := 0
  ready  : List (Nat × List Nat) := []
  occ    : Nat := 0
  reads  : Nat := 0
  writes : Nat := 0
  deriving Repr

/-- `while drain_info[key][1] in ready_to_drain[key]` -/
def drainLoop (ls : Nat) : Nat → B1 → B1
  | 0, s => s
  | fuel + 1, s =>
    match alookup s.ready s.drain with
    | none => s
    | some obj =>
      let dirty := match alookup s.objs obj with | some e => e.dirty | none => false
      drainLoop ls fuel
        { s with writes := if dirty then s.writes + ls else s.writes
                 objs := aerase s.objs obj
                 ready := aerase s.ready s.drain
                 drain := s.drain + 1
                 occ := s.occ - ls }

def setDirty (objs : List (List Nat × BEntry)) (p : List Nat) (wb : Bool) : List (List Nat × BEntry) :=
  match alookup objs p with
  | some e => ainsert objs p { e with dirty := e.dirty || wb }
  | none => objs

/-- `to_be_buffered` of the buffet: the next use exists and lies in the same eviction window -/
def bToBuf (evictEnd : Nat) (a : Acc) : Bool :=
  match a.next with
  | none => false
  | some nx => decide (a.stamp.take evictEnd = nx.take evictEnd)

/-- one iteration of the main loop for a row of this binding -/
def bstep (evictEnd ls : Nat) (s : B1) (a : Acc) : B1 :=
  let newT := (alookup s.objs a.point).isNone
  let s := if newT && !a.isWrite then { s with reads := s.reads + ls } else s
  let toBuf := bToBuf evictEnd a
  if newT then
    if toBuf then
      { s with objs := ainsert s.objs a.point ⟨a.wb, s.fill⟩, fill := s.fill + 1, occ := s.occ + ls }
    else if a.wb then { s with writes := s.writes + ls } else s
  else if !toBuf then
    let objs := setDirty s.objs a.point a.wb
    let idx := match alookup objs a.point with | some e => e.idx | none => 0
    let s := { s with objs := objs, ready := ainsert s.ready idx a.point }
    drainLoop ls (s.ready.length) s
  else { s with objs := setDirty s.objs a.point a.wb }

def buffet1 (evictEnd ls : Nat) (accs : List Acc) : B1 := accs.foldl (bstep evictEnd ls) {}

/-- all bindings: rows are consumed in `schedule` order; `overflows` looks at the summed occupancy -/
structure BG where
  bs   : List B1
  over : Nat := 0
  deriving Repr

def capLt (cap : Option Nat) (x : Nat) : Bool :=  -- `x > capacity`
  match cap with | none => false | some c => decide (c < x)

def bgStep (evictEnds : List Nat) (ls : Nat) (cap : Option Nat) (g : BG) (x : Nat × Acc) : BG :=
  let s := g.bs.getD x.1 {}
  let s' := bstep (evictEnds.getD x.1 0) ls s x.2
  let bs' := g.bs.set x.1 s'
  let occ := (bs'.map (·.occ)).sum
  { bs := bs', over := if s'.fill ≠ s.fill && capLt cap occ then g.over + 1 else g.over }

def buffetRun (L : Nat) (evictEnds : List Nat) (ls : Nat) (cap : Option Nat)
    (traces : List (List Acc)) : BG :=
  (schedule L traces).foldl (bgStep evictEnds ls cap) { bs := traces.map (fun _ => {}) }

/-! ### buffet specification: distinct (line, eviction-window) pairs -/

abbrev GKey := List Nat × List Nat

def Acc.gkey (evictEnd : Nat) (a : Acc) : GKey := (a.point, a.stamp.take evictEnd)

/-- one fill for every distinct (line, window) pair whose first access is a read -/
def fillsFrom (evictEnd : Nat) : List GKey → List Acc → Nat
  | _, [] => 0
  | seen, a :: rest =>
    (if !seen.contains (a.gkey evictEnd) && !a.isWrite then 1 else 0)
      + fillsFrom evictEnd (a.gkey evictEnd :: seen) rest

def fillsSpec (evictEnd : Nat) (accs : List Acc) : Nat := fillsFrom evictEnd [] accs

/-- one write-back for every distinct (line, window) pair containing a (non-staging) write:
    each such pair is counted at its first written-back row -/
def wbFrom (evictEnd : Nat) : List GKey → List Acc → Nat
  | _, [] => 0
  | sd, a :: rest =>
    if a.wb then
      (if sd.contains (a.gkey evictEnd) then 0 else 1) + wbFrom evictEnd (a.gkey evictEnd :: sd) rest
    else wbFrom evictEnd sd rest

def writebacksSpec (evictEnd : Nat) (accs : List Acc) : Nat := wbFrom evictEnd [] accs

/-- the same counts, said with `eraseDups` (used by the driver as a cross-check) -/
def fillsSpec' (evictEnd : Nat) (accs : List Acc) : Nat :=
  ((accs.map (·.gkey evictEnd)).eraseDups).countP
    (fun k => match accs.find? (fun a => a.gkey evictEnd == k) with
              | some a => !a.isWrite | none => false)

def writebacksSpec' (evictEnd : Nat) (accs : List Acc) : Nat :=
  (((accs.filter (·.wb)).map (·.gkey evictEnd)).eraseDups).length

/-- rows of one window are adjacent (true for stamp-sorted traces) -/
def winContigB (evictEnd : Nat) : List Acc → Bool
  | [] => true
  | a :: rest =>
    let w := a.stamp.take evictEnd
    (rest.dropWhile (fun x => x.stamp.take evictEnd == w)).all (fun x => x.stamp.take evictEnd != w)
      && winContigB evictEnd rest

/-- `next` is what `_buildNextUseTrace` produces: the stamp of the first later access to the line -/
def nextOkB : List Acc → Bool
  | [] => true
  | a :: rest =>
    decide (a.next = (rest.find? (fun x => x.point = a.point)).map (·.stamp)) && nextOkB rest

/-- stamps lexicographically non-decreasing -/
def stampsSortedB : List (List Nat) → Bool
  | [] => true
  | [_] => true
  | a :: b :: r => lexLe a b && stampsSortedB (b :: r)

/-! ### cache (traffic.py:603-805 callbacks + main loop), all bindings -/

/-- `ListElem` -/
structure LElem where
  next : List Nat
  obj  : List Nat
  pos  : Nat
  deriving DecidableEq, Repr, Inhabited

def LElem.lt (a b : LElem) : Bool :=
  if a.next ≠ b.next then lexLt a.next b.next else decide (a.pos < b.pos)

def LElem.le (a b : LElem) : Bool := a.lt b || (decide (a.next = b.next) && decide (a.pos = b.pos))

/-- `SortedList.add`: `bisect_right`, i.e. before the first element that is strictly greater -/
def sortedAdd (e : LElem) : List LElem → List LElem
  | [] => [e]
  | x :: xs => if e.lt x then e :: x :: xs else x :: sortedAdd e xs

abbrev CKey := Nat × List Nat        -- (binding position, line)

structure CState where
  objs      : List (CKey × Bool) := []       -- ↦ dirty flag (the ListElem alias is never read
                                              --   for an unpinned line; for a pinned one only its
                                              --   `next_access`, which no decision depends on)
  pinned    : List CKey := []
  nextEvict : List LElem := []
  occ       : Nat := 0
  over      : Nat := 0
  reads     : List (Nat × Nat) := []         -- per binding position
  writes    : List (Nat × Nat) := []
  failed    : Option String := none
  deriving Repr

def addAt (l : List (Nat × Nat)) (i v : Nat) : List (Nat × Nat) :=
  ainsert l i ((alookup l i).getD 0 + v)

def getAt (l : List (Nat × Nat)) (i : Nat) : Nat := (alookup l i).getD 0

def capFits (cap : Option Nat) (x : Nat) : Bool :=   -- `x <= capacity`
  match cap with | none => true | some c => decide (x ≤ c)

/-- the `while occupancy + line_sz > capacity` loop of `add_elem` -/
def evictLoop (ls : Nat) (cap : Option Nat) : Nat → CState → CState
  | 0, s => s
  | fuel + 1, s =>
    if capFits cap (s.occ + ls) then s
    else match s.nextEvict.getLast? with
      | none => { s with over := s.over + 1 }
      | some e =>
        let k : CKey := (e.pos, e.obj)
        match alookup s.objs k with
        | none => { s with failed := some "KeyError" }
        | some dirty =>
          evictLoop ls cap fuel
            { s with writes := if dirty then addAt s.writes e.pos ls else s.writes
                     objs := aerase s.objs k
                     nextEvict := s.nextEvict.dropLast
                     occ := s.occ - ls }

def csetDirty (objs : List (CKey × Bool)) (k : CKey) (wb : Bool) : List (CKey × Bool) :=
  match alookup objs k with
  | some d => ainsert objs k (d || wb)
  | none => objs

/-- `remove_elem`: the list element of line `k` (the one `objs[..][obj][1]` refers to; a line has
    at most one element, so removing by key is removing that object) -/
def eraseKey (l : List LElem) (k : CKey) : List LElem :=
  l.filter (fun e => decide ((e.pos, e.obj) ≠ k))

/-- `add_elem` -/
def cAdd (ls : Nat) (cap : Option Nat) (s : CState) (i : Nat) (a : Acc) (le : LElem) : CState :=
  let s := evictLoop ls cap (s.nextEvict.length + 1) s
  if s.failed.isSome then s else
  let k : CKey := (i, a.point)
  let s := if !a.staging then { s with nextEvict := sortedAdd le s.nextEvict }
           else { s with pinned := if s.pinned.contains k then s.pinned else k :: s.pinned }
  { s with objs := ainsert s.objs k a.wb, occ := s.occ + ls }

/-- `if new_traffic and not is_write: traffic[tensor]["read"] += line_sz` -/
def cCharge (ls : Nat) (s : CState) (x : Nat × Acc) : CState :=
  if (alookup s.objs (x.1, x.2.point)).isNone && !x.2.isWrite then
    { s with reads := addAt s.reads x.1 ls } else s

/-- the rest of one iteration of the main loop with the cache callbacks -/
def cCore (ls : Nat) (cap : Option Nat) (s : CState) (x : Nat × Acc) : CState :=
  let i := x.1
  let a := x.2
  let k : CKey := (i, a.point)
  let newT := (alookup s.objs k).isNone
  match a.next with
  | none =>
    -- "Do not buffer if never used again"
    if newT then
      if a.wb then { s with writes := addAt s.writes i ls } else s
    else
      -- `list_elem = objs[..][obj][1]`; an unpinned line leaves the sorted list (`remove_elem`);
      -- main loop: `objs[..][obj][0] |= write_back`, then `evict_elem`
      let dirty := (alookup s.objs k).getD false || a.wb
      { s with nextEvict := if s.pinned.contains k then s.nextEvict else eraseKey s.nextEvict k
               writes := if dirty then addAt s.writes i ls else s.writes
               objs := aerase s.objs k
               pinned := s.pinned.filter (· ≠ k)
               occ := s.occ - ls }
  | some nx =>
    if !newT && !s.pinned.contains k then
      -- in the cache, not pinned: its own element is taken out and re-keyed
      { s with nextEvict := sortedAdd ⟨nx, a.point, i⟩ (eraseKey s.nextEvict k)
               objs := csetDirty s.objs k a.wb }
    else if s.pinned.contains k then
      if newT then { s with failed := some "KeyError" }     -- (pinned lines are always in `objs`)
      else { s with objs := csetDirty s.objs k a.wb }
    else
      -- `assert obj not in objs[tensor][type_]` holds here by the two tests above
      let le : LElem := ⟨nx, a.point, i⟩
      let toBuf :=
        if capFits cap (s.occ + ls) then true
        else if a.staging then true
        else match s.nextEvict.getLast? with
          | none => false
          | some far => le.le far
      if toBuf then cAdd ls cap s i a le
      else if a.wb then { s with writes := addAt s.writes i ls } else s

/-- one iteration of the main loop with the cache callbacks (a raised exception ends the run) -/
def cstep (ls : Nat) (cap : Option Nat) (s : CState) (x : Nat × Acc) : CState :=
  if s.failed.isSome then s else cCore ls cap (cCharge ls s x) x

def cacheRun (L ls : Nat) (cap : Option Nat) (traces : List (List Acc)) : CState :=
  (schedule L traces).foldl (cstep ls cap) {}

/-! ### cache reference: furthest next use, bypass allowed, time = position in the sequence -/

structure REntry where
  key     : CKey
  dirty   : Bool
  nextIdx : Nat        -- distance-free: number of accesses still to come *after* the next use
  pinned  : Bool
  deriving DecidableEq, Repr

structure RState where
  res    : List REntry := []
  over   : Nat := 0
  reads  : List (Nat × Nat) := []
  writes : List (Nat × Nat) := []
  deriving Repr

/-- Time is measured backwards: `remaining after the access`.  The next use of `k` in `rest`
    at list index `j` leaves `rest.length - 1 - j` accesses after it; a *smaller* number is a
    *later* use. -/
def nextAfter (k : CKey) (rest : List (Nat × Acc)) : Option Nat :=
  match rest.findIdx? (fun y => decide ((y.1, y.2.point) = k)) with
  | none => none
  | some j => some (rest.length - 1 - j)

/-- the unpinned resident line whose next use is furthest away (smallest `nextIdx`) -/
def furthest : List REntry → Option REntry
  | [] => none
  | e :: r =>
    if e.pinned then furthest r
    else match furthest r with
      | none => some e
      | some f => if e.nextIdx < f.nextIdx then some e else some f

def refEvictLoop (ls : Nat) (cap : Option Nat) : Nat → RState → RState
  | 0, s => s
  | fuel + 1, s =>
    if capFits cap (ls * (s.res.length + 1)) then s
    else match furthest s.res with
      | none => { s with over := s.over + 1 }
      | some e =>
        refEvictLoop ls cap fuel
          { s with writes := if e.dirty then addAt s.writes e.key.1 ls else s.writes
                   res := s.res.filter (fun x => x.key ≠ e.key) }

/-- a miss that is a read is a fill -/
def rCharge (ls : Nat) (s : RState) (x : Nat × Acc) : RState :=
  if (s.res.find? (fun e => e.key = (x.1, x.2.point))).isNone && !x.2.isWrite then
    { s with reads := addAt s.reads x.1 ls } else s

def rCore (ls : Nat) (cap : Option Nat) (s : RState) (x : Nat × Acc) (rest : List (Nat × Acc)) : RState :=
  let i := x.1
  let a := x.2
  let k : CKey := (i, a.point)
  let hit := s.res.find? (fun e => e.key = k)
  match nextAfter k rest, hit with
  | none, none => if a.wb then { s with writes := addAt s.writes i ls } else s
  | none, some e =>
    { s with writes := if e.dirty || a.wb then addAt s.writes i ls else s.writes
             res := s.res.filter (fun x => x.key ≠ k) }
  | some n, some e =>
    { s with res := ⟨k, e.dirty || a.wb, n, e.pinned⟩ :: s.res.filter (fun x => x.key ≠ k) }
  | some n, none =>
    let fits := capFits cap (ls * (s.res.length + 1))
    let worth := match furthest s.res with
      | none => false
      | some f => decide (f.nextIdx < n)       -- some resident line is needed later than the new one
    if fits || a.staging || worth then
      let s := refEvictLoop ls cap (s.res.length + 1) s
      { s with res := ⟨k, a.wb, n, a.staging⟩ :: s.res }
    else if a.wb then { s with writes := addAt s.writes i ls } else s

def refStep (ls : Nat) (cap : Option Nat) (s : RState) (x : Nat × Acc) (rest : List (Nat × Acc)) : RState :=
  rCore ls cap (rCharge ls s x) x rest

def refCache (ls : Nat) (cap : Option Nat) : RState → List (Nat × Acc) → RState
  | s, [] => s
  | s, x :: rest => refCache ls cap (refStep ls cap s x rest) rest

/-- hypotheses of the equivalence theorem, executable on a consumption sequence: (1) every `next` is
    the stamp of the next access of the same binding to the same line -/
def schedNextOkB : List (Nat × Acc) → Bool
  | [] => true
  | x :: rest =>
    decide (x.2.next = (rest.find? (fun y => decide ((y.1, y.2.point) = (x.1, x.2.point)))).map (·.2.stamp))
      && schedNextOkB rest

/-- (2) the sequence is ordered the way `ListElem` compares (next-access stamp, then binding position)
    and accesses that compare equal touch the same line -/
def schedOrdB : List (Nat × Acc) → Bool
  | [] => true
  | x :: rest =>
    rest.all (fun y =>
        !(LElem.lt ⟨y.2.stamp, y.2.point, y.1⟩ ⟨x.2.stamp, x.2.point, x.1⟩) &&
        (!(decide (y.2.stamp = x.2.stamp) && decide (y.1 = x.1))
          || decide ((y.1, y.2.point) = (x.1, x.2.point))))
      && schedOrdB rest

/-- no two different lines of one binding are accessed at the same stamp -/
def tieFreeB : List (Nat × Acc) → Bool
  | [] => true
  | x :: rest =>
    rest.all (fun y => !(decide (y.1 = x.1) && decide (y.2.stamp = x.2.stamp)) || decide (y.2.point = x.2.point))
      && tieFreeB rest

/-! ### bounds -/

def distinctFirstReads : List (List Nat) → List Acc → Nat
  | _, [] => 0
  | seen, a :: rest =>
    (if !seen.contains a.point && !a.isWrite then 1 else 0) + distinctFirstReads (a.point :: seen) rest

/-! ### the set-up part of `_bufferTraffic` (traffic.py:350-480): from user-level inputs
    (bindings, formats, trace files, loop_ranks) to the per-binding configuration -/

structure TraceIn where
  tensor  : String
  rank    : String
  type    : String
  isWrite : Bool
  header  : List String      -- the rank names of the coordinate columns
  rows    : List Row
  deriving Repr

structure BindIn where
  tensor  : String
  rank    : String
  type    : String
  evictOn : String           -- "" for a cache binding
  deriving Repr, DecidableEq, Inhabited

structure TensorIn where
  name  : String
  ranks : List String
  shape : Option (List Nat)  -- the declared (authoritative) shape; `none`: only an estimated one
  deriving Repr

structure FmtIn where
  tensor : String
  rank   : String
  cbits  : Nat
  pbits  : Nat
  deriving Repr

structure CaseIn where
  cache     : Bool
  tensors   : List TensorIn
  fmts      : List FmtIn
  loopRanks : List (String × String)
  bindings  : List BindIn
  traces    : List TraceIn
  ls        : Nat
  deriving Repr

/-- what the main loop knows about binding `i` of `bind_info` -/
structure BindCfg where
  tensor     : String
  n          : Nat
  evictEnd   : Nat
  epl        : Nat
  maskN      : List Bool
  maskM      : List Bool
  pin        : Bool
  shape      : Option Nat     -- `shapes[i]`: the shape of the binding's own rank, if pinned
  rows       : List CRow
  hasRead    : Bool
  hasWrite   : Bool
  deriving Repr

abbrev TKey := String × String × String

def TraceIn.key (t : TraceIn) : TKey := (t.tensor, t.rank, t.type)
def BindIn.key (b : BindIn) : TKey := (b.tensor, b.rank, b.type)

def idxOf? {α : Type} [DecidableEq α] (l : List α) (x : α) : Option Nat :=
  let j := l.findIdx (fun y => decide (y = x))
  if j < l.length then some j else none

/-- `Format.getElem`: coord → cbits, payload → pbits, elem → cbits + pbits; the rank's declared
    format ("U"/"C") plays no role, so the case's `format` field is not even parsed -/
def elemBits (c : CaseIn) (t r ty : String) : Option Nat :=
  match c.fmts.find? (fun f => f.tensor = t ∧ f.rank = r) with
  | none => none
  | some f => if ty = "coord" then some f.cbits else if ty = "payload" then some f.pbits
              else if ty = "elem" then some (f.cbits + f.pbits) else none

def tensorOf (c : CaseIn) (t : String) : Option TensorIn := c.tensors.find? (fun x => x.name = t)

/-- `loop_rank_ids[tensor]` (computed with the caller's `loop_ranks`, before `order` is known) -/
def loopRankIds (c : CaseIn) (t : TensorIn) : List String :=
  t.ranks.map (fun r => (alookup c.loopRanks r).getD r)

/-- `order`: the first longest header, in the order the keys were first seen in `trace_fns` -/
def orderOf (c : CaseIn) : List String :=
  let keys := (c.traces.map (·.key)).eraseDups
  let heads := keys.filterMap (fun k => (c.traces.find? (fun t => t.key = k)).map (·.header))
  heads.foldl (fun ord h => if h.length > ord.length then h else ord) []

/-- `loop_ranks` after "Fill the loop ranks" -/
def loopRankOf (c : CaseIn) (order : List String) (r : String) : Option String :=
  if order.contains r then some r else alookup c.loopRanks r

def rowsOk (n : Nat) (rows : List Row) : Bool :=
  rows.all (fun r => r.stamp.length = n && r.coords.length = n)

/-- shape of `rank` in `tensor` -/
def shapeAt (c : CaseIn) (t r : String) : Option Nat :=
  match tensorOf c t with
  | none => none
  | some ti => match ti.shape, idxOf? ti.ranks r with
    | some sh, some j => sh[j]?
    | _, _ => none

/-- The configuration of every binding in `bind_info` order, or the reason why the case is
    outside the modelled domain. -/
def configure (c : CaseIn) : Except String (Nat × List BindCfg) := do
  let order := orderOf c
  let L := order.length
  if L = 0 then throw "no traces"
  if c.ls = 0 then throw "line size 0"
  -- position of every binding in the loop order
  let withPos ← c.bindings.mapM (fun b => do
    match loopRankOf c order b.rank with
    | none => throw s!"rank {b.rank} not in loop order"
    | some lr => match idxOf? order lr with
      | none => throw s!"rank {lr} not in loop order"
      | some p => pure (p, b))
  -- "Order the binding information": stable by position
  let bindInfo := (List.range L).flatMap (fun p => (withPos.filter (fun x => x.1 = p)))
  if bindInfo.isEmpty then throw "no bindings"
  if (bindInfo.map (·.2.key)).eraseDups.length ≠ bindInfo.length then throw "duplicate binding key"
  let cfgs ← bindInfo.mapM (fun (p, b) => do
    let n := p + 1
    let ti ← match tensorOf c b.tensor with | some t => pure t | none => throw "unknown tensor"
    if !ti.ranks.contains b.rank then throw "binding rank not in tensor"
    match ti.shape with
    | some sh => if sh.length ≠ ti.ranks.length then throw "shape arity"
    | none => pure ()
    let rd := c.traces.find? (fun t => t.key = b.key ∧ !t.isWrite)
    let wr := c.traces.find? (fun t => t.key = b.key ∧ t.isWrite)
    let anyT ← match rd, wr with
      | some t, _ => pure t
      | none, some t => pure t
      | none, none => throw "binding without trace"
    if anyT.header ≠ order.take n then throw "trace header is not a prefix of the loop order"
    match rd, wr with
    | some r, some w => if r.header ≠ w.header then throw "read/write headers differ"
    | _, _ => pure ()
    let rrows := match rd with | some t => t.rows | none => []
    let wrows := match wr with | some t => t.rows | none => []
    if !(rowsOk n rrows && rowsOk n wrows) then throw "row arity"
    let bits ← match elemBits c b.tensor b.rank b.type with | some x => pure x | none => throw "format"
    if bits = 0 then throw "zero-width element"
    let epl := c.ls / bits
    if epl = 0 then throw "element wider than line"
    let ids := loopRankIds c ti
    let maskN := anyT.header.map (fun r => ids.contains r)
    let maskM := (order.take n).map (fun r => ids.contains r)
    if maskM.getLast? ≠ some true then throw "bound rank not a loop rank of the tensor"
    let evictEnd ← (if c.cache then pure 0 else
      if b.evictOn = "root" then pure 0 else
        match loopRankOf c order b.evictOn with
        | none => throw "evict-on unknown"
        | some lr => match idxOf? order lr with
          | none => throw "evict-on not in loop order"
          | some q => if q + 1 ≤ n then pure (q + 1) else throw "evict-on below the bound rank")
    let pin := wr.isSome && (c.cache || b.rank ≠ b.evictOn)
    -- `shapes[i]` (traffic.py:471-480): `tensor, rank = info[:2]`, the binding's own rank
    -- `shape = ...getShape(authoritative=True); assert shape is not None`
    let shape ← (if pin then match shapeAt c b.tensor b.rank with
                             | some s => pure (some s)
                             | none => throw (if ti.shape.isNone then "REJECT:AssertionError" else "shape")
                 else pure none)
    pure ({ tensor := b.tensor, n, evictEnd, epl, maskN, maskM, pin, shape
            rows := combine rrows wrows, hasRead := rd.isSome, hasWrite := wr.isSome } : BindCfg))
  pure (L, cfgs)

def BindCfg.accs (b : BindCfg) : List Acc :=
  accsOf b.maskN b.maskM b.epl b.shape b.rows

/-- `traffic` as returned: for every tensor and access kind that has a trace, the bits charged -/
def trafficTable (c : CaseIn) (cfgs : List BindCfg) (reads writes : Nat → Nat) :
    List (String × Bool × Nat) :=
  let pairs := (c.traces.map (fun t => (t.tensor, t.isWrite))).eraseDups
  pairs.map (fun (t, w) =>
    let is := (List.range cfgs.length).filter (fun i => (cfgs[i]?.map (·.tensor)) = some t)
    (t, w, (is.map (fun i => if w then writes i else reads i)).sum))

end Traffic
end Ft
