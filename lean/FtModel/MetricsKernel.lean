/-
  FtModel.MetricsKernel — C15: a sum-of-products kernel with the `Metrics` calls it makes.

  The kernel family is the canonical HiFiber loop nest

      for v, (z_next, (a_next, b_next)) in z_v << (a_v & b_v):      # v is an output rank
      for v, (a_next, b_next) in a_v & b_v:                         # v is reduced
          ...
              z_ref += a_val * b_val

  one loop per index variable, every operand's ranks (and the output's) listed in loop order.
  `runK` is the kernel *as it runs with collection off*, built from the C04/C05 loop models
  (`andMerge`, `popLoop`), and it reports in passing (`KEv`)
  * the `Metrics` calls the same loops make when collection is on (`iterRange` with `tick=True`:
    `registerRank`, one `addUse(.., "iter")` per element *before* its body, `incIter` after it,
    `endIter`; `Payload.__mul__/__iadd__`: `incCount`),
  * the one collecting-only statement that can abort the kernel: `lshift_iterator`'s
    `assert insert_pos is not None or not (inserting and a_write_traced)` (evaluated at the first
    source element when the destination fiber is not empty: the declared shape is needed to address
    the staging area of out-of-order insertions in the write trace),
  * ghost marks for what actually happened: a loop body started (`body`), a payload operator ran (`pop`).
  The collecting-only code only *reads* kernel data and *calls* `Metrics` (its one write,
  `setSavedPos`, is never read back: every later search passes an explicit `start_pos`), so the
  collecting run is: the same values, the calls replayed on the `Metrics` state (`runCollect`),
  nothing at all if an assertion fails.

  Not reported here (C16's model): the `getLabel`/`isTraced`/`getIter` queries and the `addUse`
  calls for `intersect_*` / `populate_*` traces, and `and_iterator`'s extra `incIter`s — none of
  them reaches a counter or an "iter" trace.
-/
import FtModel.Basic
import FtModel.Coiter
import FtModel.Populate
import FtModel.Metrics
namespace Ft.C15
open Ft

/-- a tree together with its depth (operands of different depths travel in one list) -/
abbrev ATree := (d : Nat) × Tree Int Int d

def castT (d : Nat) (a : ATree) (fallback : Tree Int Int d) : Tree Int Int d :=
  if h : a.1 = d then h ▸ a.2 else fallback

structure Operand where
  ranks : List String
  t : ATree
  /-- `some n`: the operand's last rank has format "U" and shape `n` (iterated by `iterRangeShape`) -/
  uShape : Option Nat := none

/-- payload operators that actually ran -/
inductive POp
  | mul                -- `__mul__` / `__rmul__`
  | iadd (old : Int)   -- `__iadd__` on an accumulator holding `old`
  | add                -- `__add__` / `__radd__`
  | assign             -- `__ilshift__`
  | imul               -- `__imul__`
  deriving DecidableEq, Repr

/-- how the innermost statement is written (all compute `z + a*b*…`):
    `z_ref += a * b`,  `z_ref <<= z_ref + a * b` (or `a*b + z_ref` with the product unboxed: `__radd__`),
    `t = Payload(a.value); t *= b; z_ref += t` -/
inductive Body
  | iaddMul
  | addAssign
  | imulTmp
  deriving DecidableEq, Repr

structure KCfg where
  /-- the output tensor was created with a shape -/
  declared : Bool
  body : Body := .iaddMul

inductive KEv
  | call (op : MOp)
  | body (rank : String)
  | pop (o : POp)
  /-- `lshift_iterator` reaches its collecting-only assertion at `rank`: was the output created with a
      shape, and does the loop insert (first source coordinate below the destination's last one) -/
  | assertShape (rank : String) (declared inserting : Bool)
  deriving DecidableEq, Repr

/-- elements a compressed rank presents, with their storage position -/
def presentA : ATree → Fib Int (Nat × ATree)
  | ⟨0, _⟩ => []
  | ⟨d + 1, f⟩ =>
    (((show List (Int × Tree Int Int d) from f).zipIdx).filter (fun e => !isEmpty 0 d e.1.2)).map
      (fun e => (e.1.1, (e.2, (⟨d, e.1.2⟩ : ATree))))

/-- `(a & b) & c …` with the payload tuples flattened -/
def interAll : List (Fib Int (Nat × ATree)) → Fib Int (List (Nat × ATree))
  | [] => []
  | a :: rest =>
    rest.foldl (fun acc b => (andMerge acc b).map (fun e => (e.1, e.2.1 ++ [e.2.2])))
      (a.map (fun e => (e.1, [e.2])))

/-- the operands as the loop body sees them: those iterated at `v` replaced by their child -/
def descend (v : String) : List Operand → List (Nat × ATree) → List Operand
  | [], _ => []
  | o :: os, ch =>
    if o.ranks.head? == some v then
      match ch with
      | c :: cs => { o with ranks := o.ranks.tail, t := c.2 } :: descend v os cs
      | [] => o :: descend v os []
    else o :: descend v os ch

def mulEv : List KEv := [.pop .mul, .call (.incCount "Compute" "payload_mul" 1)]

def iaddEv (old : Int) : List KEv :=
  [.pop (.iadd old), .call (.incCount "Compute" "payload_update" 1)] ++
    (if old ≠ 0 then [.call (.incCount "Compute" "payload_add" 1)] else [])

def addEv : List KEv := [.pop .add, .call (.incCount "Compute" "payload_add" 1)]
def assignEv : List KEv := [.pop .assign, .call (.incCount "Compute" "payload_update" 1)]
def imulEv : List KEv :=
  [.pop .imul, .call (.incCount "Compute" "payload_mul" 1), .call (.incCount "Compute" "payload_update" 1)]

/-- the operators of the innermost statement, for `n` further factors and an accumulator holding `old` -/
def bodyEv (b : Body) (n : Nat) (old : Int) : List KEv :=
  match b with
  | .iaddMul => (List.range n).flatMap (fun _ => mulEv) ++ iaddEv old
  | .addAssign => (List.range n).flatMap (fun _ => mulEv) ++ addEv ++ assignEv
  | .imulTmp => (List.range n).flatMap (fun _ => imulEv) ++ iaddEv old

/-- the innermost statement: `z_ref += a_val * b_val * …` in one of its spellings -/
def leafBody (b : Body) (zt : ATree) (ops : List Operand) : ATree × List KEv :=
  match zt with
  | ⟨0, cur⟩ =>
    match ops.filterMap (fun o => match o.t with | ⟨0, v⟩ => some (show Int from v) | _ => none) with
    | [] => (zt, [])
    | v0 :: vs =>
      let old : Int := cur
      (⟨0, (old + vs.foldl (· * ·) v0 : Int)⟩, bodyEv b vs.length old)
  | _ => (zt, [])

/-- what `iterRange(tick=True)` does around one element -/
def iterEv (v : String) (c pos : Int) (inner : List KEv) : List KEv :=
  [.call (.addUse v c pos "iter" none), .body v] ++ inner ++ [.call (.incIter v)]

/-- what `iterRangeShape(tick=True)` does around one coordinate: no `addUse` at all -/
def iterEvU (v : String) (inner : List KEv) : List KEv :=
  [.body v] ++ inner ++ [.call (.incIter v)]

/-- `iterActiveShape` of a leaf fiber of format "U": every coordinate of `[0, n)`, absent ones with
    the default payload `getPayload` makes up -/
def denseSrc (n : Nat) : ATree → Fib Int (List (Nat × ATree))
  | ⟨1, f⟩ => (List.range n).map (fun (c : Nat) =>
      ((c : Int), [((c : Nat), (⟨0, ((lookup (show List (Int × Tree Int Int 0) from f) (c : Int)).getD (0 : Int) : Int)⟩ : ATree))]))
  | _ => []

/-- the single operand iterated at `v` is a format-"U" leaf fiber -/
def uLeafLoop (v : String) (parts : List Operand) : Option (Nat × ATree) :=
  match parts with
  | [o] => if o.ranks == [v] then o.uShape.map (fun n => (n, o.t)) else none
  | _ => none

/-- position handed to `addUse`: the storage position on a real fiber, the yield index on a lazy one -/
def usePos (lazy : Bool) (idx : Nat) (ch : List (Nat × ATree)) : Int :=
  if lazy then idx else match ch with | c :: _ => c.1 | [] => idx

def runK (cfg : KCfg) : List String → List String → ATree → List Operand → ATree × List KEv
  | [], _, zt, ops => leafBody cfg.body zt ops
  | v :: rest, zr, zt, ops =>
    let parts := ops.filter (fun o => o.ranks.head? == some v)
    let src := interAll (parts.map (fun o => presentA o.t))
    if zr.head? == some v then
      match zt with
      | ⟨d + 1, zf⟩ =>
        let sub := fun (cur : Tree Int Int d) (ch : List (Nat × ATree)) =>
          runK cfg rest zr.tail ⟨d, cur⟩ (descend v ops ch)
        let r := popLoop (defaultTree 0 d) (rmOf 0 d)
          (fun (_ : Int) (cur : Tree Int Int d) (ch : List (Nat × ATree)) => castT d (sub cur ch).1 cur)
          (show List (Int × Tree Int Int d) from zf) 0 src
        let asrt : List KEv :=
          match src.head?, (show List (Int × Tree Int Int d) from zf).getLast? with
          | some b, some e => [.assertShape v cfg.declared (decide (b.1 < e.1))]
          | _, _ => []
        let evs := r.2.zipIdx.flatMap (fun y => iterEv v y.1.1 y.2 (sub y.1.2.1 y.1.2.2).2)
        (⟨d + 1, r.1⟩, [.call (.registerRank v)] ++ asrt ++ evs ++ [.call (.endIter v)])
      | _ => (zt, [])
    else
      let lazy := decide (parts.length ≥ 2)
      let u := uLeafLoop v parts
      let src' := match u with | some (n, t) => denseSrc n t | none => src
      let r := src'.zipIdx.foldl (fun (acc : ATree × List KEv) y =>
        let s := runK cfg rest zr acc.1 (descend v ops y.1.2)
        (s.1, acc.2 ++ (if u.isSome then iterEvU v s.2 else iterEv v y.1.1 (usePos lazy y.2 y.1.2) s.2))) (zt, [])
      (r.1, [.call (.registerRank v)] ++ r.2 ++ [.call (.endIter v)])

/-- the `Metrics` calls of a run, in order -/
def callsOf (evs : List KEv) : List MOp :=
  evs.filterMap (fun e => match e with | .call op => some op | _ => none)

/-- no collecting-only assertion fails:
    `assert insert_pos is not None or not (inserting and a_write_traced)`; `wtr rank` = the
    destination's write trace at that rank is being collected -/
def assertsOk (wtr : String → Bool) (evs : List KEv) : Bool :=
  evs.all (fun e => match e with | .assertShape v d ins => d || !(ins && wtr v) | _ => true)

/-- the write trace of the populate at `rank`: in these loop nests the destination always draws label 0
    (`getLabel` is called first by the `<<` of the loop, and `endIter` resets the labels) -/
def wtrOf (keys : List TKey) (rank : String) : Bool := keys.contains (rank, "populate_write_0")

structure Kernel where
  loops : List String
  out : List String
  /-- the output tensor was created with a shape -/
  declared : Bool
  body : Body := .iaddMul

def Kernel.cfg (k : Kernel) : KCfg := { declared := k.declared, body := k.body }

/-- collection off -/
def runPlain (k : Kernel) (z : ATree) (ops : List Operand) : ATree := (runK k.cfg k.loops k.out z ops).1

/-- collection on, inside a session whose state is `s`: `none` = the kernel aborted -/
def runCollect (k : Kernel) (z : ATree) (ops : List Operand) (s : MState) : Option (ATree × MState) :=
  let r := runK k.cfg k.loops k.out z ops
  if assertsOk (fun v => dhas s.traces (v, "populate_write_0")) r.2 then
    (runOps (callsOf r.2) s).map (fun x => (r.1, x.2)) else none

/-- a whole collecting session around the kernel: `beginCollect(p)`, `trace(rank, type)` for `keys`,
    the kernel, `endCollect()` — from whatever state `s₀` earlier sessions left behind -/
def kernelSession (k : Kernel) (z : ATree) (ops : List Operand) (p : String) (keys : List TKey) (s₀ : MState) :
    Option (ATree × MState) :=
  let r := runK k.cfg k.loops k.out z ops
  if assertsOk (wtrOf keys) r.2 then
    (runOps (openOps p keys ++ callsOf r.2 ++ [.endCollect]) s₀).map (fun x => (r.1, x.2))
  else none

/-- the events of the kernel (calls, ghost marks) -/
def kernelEvents (k : Kernel) (z : ATree) (ops : List Operand) : List KEv := (runK k.cfg k.loops k.out z ops).2

/-! ### what was actually executed (ghost counts) -/

def nMul (evs : List KEv) : Nat := evs.countP (fun e => e == .pop .mul || e == .pop .imul)
def nUpd (evs : List KEv) : Nat :=
  evs.countP (fun e => match e with | .pop (.iadd _) => true | .pop .assign => true | .pop .imul => true | _ => false)
/-- an `__add__`/`__radd__` is an addition; an `__iadd__` on an accumulator that already holds something is one
    too, on an empty (0) one it only writes -/
def nAdd (evs : List KEv) : Nat :=
  evs.countP (fun e => match e with | .pop (.iadd old) => old != 0 | .pop .add => true | _ => false)
def nBody (r : String) (evs : List KEv) : Nat := evs.countP (fun e => e == .body r)

/-! ### the static shape of a kernel's call sequence -/

/-- total of the `incCount(line, metric, ·)` calls -/
def sumInc (line metric : String) : List MOp → Int
  | [] => 0
  | .incCount l m n :: rest => (if strip l == line && m == metric then n else 0) + sumInc line metric rest
  | _ :: rest => sumInc line metric rest

def nUse (rank ty : String) (ops : List MOp) : Nat :=
  ops.countP (fun o => match o with | .addUse r _ _ t _ => r == rank && t == ty | _ => false)

def registers (rank : String) (ops : List MOp) : Bool := ops.contains (.registerRank rank)

/-- every call that needs a registered rank comes after that rank's `registerRank` -/
def safeB (regd : List String) : List MOp → Bool
  | [] => true
  | .registerRank r :: rest => safeB (r :: regd) rest
  | .addUse r _ _ _ none :: rest => regd.contains r && safeB regd rest
  | .incIter r :: rest => regd.contains r && safeB regd rest
  | .endIter r :: rest => regd.contains r && safeB regd rest
  | .incCount _ _ _ :: rest => safeB regd rest
  | _ :: _ => false

end Ft.C15
