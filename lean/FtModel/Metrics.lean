/-
  FtModel.Metrics — C15, the COUNTER side of `fibertree/core/metrics.py`.

  `MState` is the global collection state: the 13 class attributes of `Metrics` plus the trace
  files on disk (`fs`, which is *not* a class attribute: it survives `beginCollect`).  Every
  classmethod is an `MOp`; `step` mirrors the method bodies statement by statement; a failed
  `assert` / `KeyError` / `TypeError` is `none`.

  Representation choices (observationally neutral, the driver canonicalises the same way):
  * Python dicts are association lists (`dget/dhas/dset`), sets are duplicate-free lists;
  * `traces[rank][type]` (a dict of dicts) is one dict keyed by the pair `(rank, type)`;
  * a trace file is keyed by the triple `(prefix, rank, type)` (the code concatenates them with
    `-`; names that make two triples collide are outside the model) and holds parsed rows;
  * tuple coordinates (`rank_flatten`) are not modelled: `associateShape` only records the key.

  Trace *rows* (their stamps and addresses) belong to C16; here they are carried only as far as the
  counter side needs them: how many there are, and that a session cannot see earlier ones.
-/
namespace Ft.C15

/-! ### dictionaries -/
section
variable {κ α : Type} [BEq κ]

def dget (d : List (κ × α)) (k : κ) : Option α := (d.find? (fun e => e.1 == k)).map (·.2)
def dhas (d : List (κ × α)) (k : κ) : Bool := d.any (fun e => e.1 == k)
/-- `d[k] = v` (keeps the insertion position of an existing key, appends a new one) -/
def dset (d : List (κ × α)) (k : κ) (v : α) : List (κ × α) :=
  if dhas d k then d.map (fun e => if e.1 == k then (k, v) else e) else d ++ [(k, v)]

end

abbrev Dict (α : Type) := List (String × α)

/-! ### state -/

inductive Row
  | hdr (cols : List String)
  | dat (vals : List Int)
  deriving DecidableEq, Repr

/-- `(file_trace, mem_trace, is_started)` -/
structure TraceSt where
  file : Option (List Row)
  mem : Option (List Row)
  started : Bool
  deriving DecidableEq, Repr

abbrev TKey := String × String            -- (rank, type)
abbrev FKey := String × String × String   -- (prefix, rank, type)
abbrev FS := List (FKey × List Row)

structure MState where
  allRankMatches : Dict (List String) := []
  collecting : Bool := false
  fiberLabel : Dict Nat := []
  iteration : Option (List Int) := none
  lineOrder : Option (Dict Nat) := none
  loopOrder : Option (List String) := none
  metrics : Option (Dict (Dict Int)) := none
  numCachedUses : Nat := 1000
  point : Option (List Int) := none
  pfx : Option String := none
  rankMatches : Dict String := []
  rankFlatten : List String := []
  traces : List (TKey × TraceSt) := []
  /-- trace files on disk -/
  fs : FS := []
  deriving DecidableEq, Repr

/-- the class attributes as they stand when the module has just been imported -/
def MState.init : MState := {}

inductive MOp
  | beginCollect (pfx : Option String)
  | endCollect
  | registerRank (rank : String)
  | addUse (rank : String) (coord pos : Int) (ty : String) (iterNum : Option (List Int))
  | incIter (rank : String)
  | endIter (rank : String)
  | getLabel (rank : String)
  | getIndex (rank : String)
  | getIter
  | incCount (line metric : String) (inc : Int)
  | isCollecting
  | isTraced (rank ty : String)
  | matchRanks (r1 r2 : String)
  | trace (rank ty : String) (consumable : Bool)
  | consumeTrace (rank ty : String)
  | setNumCachedUses (n : Nat)
  | associateShape (rank : String)
  | dump
  deriving DecidableEq, Repr

inductive MRet
  | unit
  | nat (n : Nat)
  | bool (b : Bool)
  | rows (l : List Row)
  | iters (l : Option (List Int))
  | dump (m : Option (Dict (Dict Int)))
  deriving DecidableEq, Repr

def isWs (c : Char) : Bool :=
  c == ' ' || c == '\t' || c == '\n' || c == '\r' || c == '\x0b' || c == '\x0c'

/-- `str.strip()` (ASCII white space; written on character lists so that the kernel can evaluate it) -/
def strip (s : String) : String :=
  String.ofList (((s.toList.dropWhile isWs).reverse.dropWhile isWs).reverse)

/-! ### the private helpers -/

/-- `line_order[rank]` if registered, else `line_order[rank_matches[rank]]` (a `KeyError` is `none`) -/
def lineIdx (s : MState) (rank : String) : Option Nat :=
  match s.lineOrder with
  | none => none
  | some lo =>
    match dget lo rank with
    | some i => some i
    | none =>
      match dget s.rankMatches rank with
      | some r2 => dget lo r2
      | none => none

/-- `rank in cls.line_order or rank in cls.rank_matches` -/
def known (s : MState) (rank : String) : Bool :=
  match s.lineOrder with
  | some lo => dhas lo rank || dhas s.rankMatches rank
  | none => false

def typesOf (s : MState) (rank : String) : List String :=
  (s.traces.filter (fun e => e.1.1 == rank)).map (·.1.2)

/-- what `_writeTrace` finds in the file it writes to: a started trace appends (mode "a"), a trace
    that was never started begins a new file (mode "w") -/
def fileBase (s : MState) (k : FKey) (started : Bool) : List Row :=
  if started then (dget s.fs k).getD [] else []

/-- `Metrics._writeTrace`: write the cached rows to the file, empty the cache, mark started -/
def writeTrace (s : MState) (rank ty : String) : Option MState :=
  match dget s.traces (rank, ty), s.pfx with
  | some tr, some p =>
    match tr.file with
    | some f =>
      some { s with fs := dset s.fs (p, rank, ty) (fileBase s (p, rank, ty) tr.started ++ f),
                    traces := dset s.traces (rank, ty) { tr with file := some [], started := true } }
    | none => none
  | _, _ => none

/-- `Metrics._startTrace`: truncate the file, push the header row -/
def headerRow (lp : List String) (i : Nat) : Row :=
  .hdr ((lp.take (i + 1)).map (· ++ "_pos") ++ lp.take (i + 1) ++ ["fiber_pos"])

def startTrace (s : MState) (rank ty : String) : Option MState :=
  match lineIdx s rank, s.loopOrder, dget s.traces (rank, ty) with
  | some i, some lp, some tr =>
    match (match tr.file with
      | some _ => s.pfx.map (fun p => dset s.fs (p, rank, ty) [])
      | none => some s.fs) with
    | some fs' =>
      some { s with fs := fs',
                    traces := dset s.traces (rank, ty)
                      { file := tr.file.map (· ++ [headerRow lp i]), mem := tr.mem.map (· ++ [headerRow lp i]),
                        started := true } }
    | none => none
  | _, _, _ => none

def startAll (s : MState) (rank : String) : Option MState :=
  (typesOf s rank).foldlM (fun s ty => startTrace s rank ty) s

def union (a b : List String) : List String := a ++ b.filter (fun x => !a.contains x)

/-! ### the classmethods -/

def mBegin (p : Option String) (s : MState) : MState :=
  { s with allRankMatches := [], collecting := true, fiberLabel := [], iteration := some [],
           lineOrder := some [], loopOrder := some [], metrics := some [], point := some [],
           pfx := p, rankMatches := [], rankFlatten := [], traces := [] }

/-- one round of `endCollect`'s loop: flush a file trace, insist that a consumable one was consumed -/
def endOne (s : MState) (e : TKey × TraceSt) : Option MState :=
  match (if e.2.file.isSome then writeTrace s e.1.1 e.1.2 else some s) with
  | none => none
  | some s' =>
    match e.2.mem with
    | some m => if m.isEmpty then some s' else none
    | none => some s'

def mEnd (s : MState) : Option MState :=
  (s.traces.foldlM endOne s).map (fun s1 =>
    { s1 with collecting := false, fiberLabel := [], iteration := none, lineOrder := none,
              loopOrder := none, point := none, pfx := none, traces := [] })

def matchOne (rank : String) (s : MState) (e : String × List String) : Option MState :=
  if e.2.contains rank then startAll { s with rankMatches := dset s.rankMatches e.1 rank } e.1 else some s

/-- the bookkeeping of `registerRank` for a new rank, before its traces are started -/
def regState (s : MState) (rank : String) (lo : Dict Nat) (it : List Int) (lp : List String) (pt : List Int) : MState :=
  { s with fiberLabel := dset s.fiberLabel rank 0, iteration := some (it ++ [0]),
           lineOrder := some (dset lo rank it.length), loopOrder := some (lp ++ [rank]),
           point := some (pt ++ [0]) }

def mRegister (rank : String) (s : MState) : Option MState :=
  if s.collecting then
    match s.lineOrder, s.iteration, s.loopOrder, s.point with
    | some lo, some it, some lp, some pt =>
      if dhas lo rank then some s
      else
        match startAll (regState s rank lo it lp pt) rank with
        | none => none
        | some s2 => s2.allRankMatches.foldlM (matchOne rank) s2
    | _, _, _, _ => none
  else none

/-- the row `addUse` builds -/
def useRow (itl pt : List Int) (i : Nat) (coord pos : Int) : Row :=
  .dat (itl.take (i + 1) ++ (pt.take i ++ [coord]) ++ [pos])

/-- append a row to the trace's lists; at the threshold, write the file -/
def withRow (tr : TraceSt) (f : List Row) (data : Row) : TraceSt :=
  { tr with file := some (f ++ [data]), mem := tr.mem.map (· ++ [data]) }

def setTrace (s : MState) (k : TKey) (tr : TraceSt) : MState := { s with traces := dset s.traces k tr }

def pushRow (s : MState) (rank ty : String) (tr : TraceSt) (data : Row) : Option MState :=
  match tr.file with
  | some f =>
    if (f ++ [data]).length = s.numCachedUses then
      writeTrace (setTrace s (rank, ty) (withRow tr f data)) rank ty
    else
      some (setTrace s (rank, ty) (withRow tr f data))
  | none => some (setTrace s (rank, ty) { tr with mem := tr.mem.map (· ++ [data]) })

/-- the tail of `addUse`, after the point has been updated -/
def recordUse (s : MState) (rank ty : String) (pt : List Int) (i : Nat) (coord pos : Int)
    (iterNum : Option (List Int)) : Option MState :=
  match dget s.traces (rank, ty) with
  | none => some s
  | some tr =>
    match (match iterNum with | some l => some l | none => s.iteration) with
    | none => none
    | some itl => pushRow s rank ty tr (useRow itl pt i coord pos)

def newPoint (lo : Dict Nat) (pt : List Int) (rank : String) (i : Nat) (coord : Int) : List Int :=
  if dhas lo rank then pt.set i coord else pt

def setPoint (s : MState) (pt : List Int) : MState := { s with point := some pt }

def mAddUse (rank : String) (coord pos : Int) (ty : String) (iterNum : Option (List Int)) (s : MState) : Option MState :=
  if s.collecting && known s rank then
    match s.lineOrder, s.point, lineIdx s rank with
    | some lo, some pt, some i =>
      recordUse (setPoint s (newPoint lo pt rank i coord)) rank ty (newPoint lo pt rank i coord) i coord pos iterNum
    | _, _, _ => none
  else none

def mIncIter (rank : String) (s : MState) : Option MState :=
  if s.collecting && known s rank then
    match s.iteration, lineIdx s rank with
    | some it, some i => if i < it.length then some { s with iteration := some (it.modify i (· + 1)) } else none
    | _, _ => none
  else none

def mEndIter (rank : String) (s : MState) : Option MState :=
  if s.collecting then
    match s.iteration, lineIdx s rank with
    | some it, some i =>
      if i < it.length then
        some { s with fiberLabel := dset s.fiberLabel rank 0, iteration := some (it.set i 0) }
      else none
    | _, _ => none
  else none

def mGetLabel (rank : String) (s : MState) : Option (Nat × MState) :=
  if s.collecting then
    match s.lineOrder with
    | some lo =>
      let x : String × Dict Nat :=
        if dhas lo rank then (rank, s.fiberLabel)
        else match dget s.rankMatches rank with
          | some r2 => (r2, s.fiberLabel)
          | none => if dhas s.fiberLabel rank then (rank, s.fiberLabel) else (rank, dset s.fiberLabel rank 0)
      match dget x.2 x.1 with
      | some v => some (v, { s with fiberLabel := dset x.2 x.1 (v + 1) })
      | none => none
    | none => none
  else none

def mIncCount (line metric : String) (inc : Int) (s : MState) : Option MState :=
  if s.collecting then
    match s.metrics with
    | some m =>
      let l := strip line
      let inner := (dget m l).getD []
      some { s with metrics := some (dset m l (dset inner metric ((dget inner metric).getD 0 + inc))) }
    | none => none
  else none

/-- the bookkeeping part of `matchRanks`: the symmetric closure of the match -/
def matchClosure (r1 r2 : String) (s : MState) : List String × MState :=
  let arm := if dhas s.allRankMatches r1 then s.allRankMatches else dset s.allRankMatches r1 []
  let arm := if dhas arm r2 then arm else dset arm r2 []
  let all := union (union ((dget arm r1).getD []) ((dget arm r2).getD [])) (union [r1] [r2])
  (all, { s with allRankMatches := all.foldl (fun a r => dset a r (all.filter (· != r))) arm })

/-- a late match, for one source rank: unless it is registered or matched already, it is matched with
    `rank` and its traces are started -/
def lateSrc (rank : String) (s : MState) (src : String) : Option MState :=
  match s.lineOrder with
  | none => none
  | some lo =>
    if dhas lo src || dhas s.rankMatches src then some s
    else startAll { s with rankMatches := dset s.rankMatches src rank } src

/-- a late match, for one rank of the closure: only a rank that is already in the loop order acts -/
def lateRank (s : MState) (rank : String) : Option MState :=
  match s.lineOrder with
  | none => none
  | some lo =>
    if dhas lo rank then ((dget s.allRankMatches rank).getD []).foldlM (lateSrc rank) s else some s

/-- `matchRanks`: the closure is recorded; during collection a match with a rank that is already part
    of the loop order takes effect at once.  (The code walks Python sets: when a closure holds two
    registered ranks the rank an unmatched source ends up with depends on the set order — the model
    walks `all` in list order; the correspondence only generates closures with one registered rank.) -/
def mMatchRanks (r1 r2 : String) (s : MState) : Option MState :=
  let c := matchClosure r1 r2 s
  if c.2.collecting then c.1.foldlM lateRank c.2 else some c.2

def mTrace (rank ty : String) (consumable : Bool) (s : MState) : Option MState :=
  if (consumable || s.pfx.isSome) && s.collecting then
    let tr := (dget s.traces (rank, ty)).getD { file := none, mem := none, started := false }
    let tr' : TraceSt := if consumable then { tr with mem := some [] } else { tr with file := some [] }
    some { s with traces := dset s.traces (rank, ty) tr' }
  else none

def mConsume (rank ty : String) (s : MState) : Option (List Row × MState) :=
  if s.collecting then
    match dget s.traces (rank, ty) with
    | some tr =>
      match tr.mem with
      | some m => some (m, { s with traces := dset s.traces (rank, ty) { tr with mem := some [] } })
      | none => none
    | none => none
  else none

def step (op : MOp) (s : MState) : Option (MRet × MState) :=
  match op with
  | .beginCollect p => some (.unit, mBegin p s)
  | .endCollect => (mEnd s).map (fun s' => (.unit, s'))
  | .registerRank rank => (mRegister rank s).map (fun s' => (.unit, s'))
  | .addUse rank coord pos ty iterNum => (mAddUse rank coord pos ty iterNum s).map (fun s' => (.unit, s'))
  | .incIter rank => (mIncIter rank s).map (fun s' => (.unit, s'))
  | .endIter rank => (mEndIter rank s).map (fun s' => (.unit, s'))
  | .getLabel rank => (mGetLabel rank s).map (fun x => (.nat x.1, x.2))
  | .getIndex rank =>
    if s.collecting && known s rank then (lineIdx s rank).map (fun i => (.nat i, s)) else none
  | .getIter => some (.iters s.iteration, s)
  | .incCount line metric inc => (mIncCount line metric inc s).map (fun s' => (.unit, s'))
  | .isCollecting => some (.bool s.collecting, s)
  | .isTraced rank ty => if s.collecting then some (.bool (dhas s.traces (rank, ty)), s) else none
  | .matchRanks r1 r2 => (mMatchRanks r1 r2 s).map (fun s' => (.unit, s'))
  | .trace rank ty consumable => (mTrace rank ty consumable s).map (fun s' => (.unit, s'))
  | .consumeTrace rank ty => (mConsume rank ty s).map (fun x => (.rows x.1, x.2))
  | .setNumCachedUses n => if n > 1 then some (.unit, { s with numCachedUses := n }) else none
  | .associateShape rank =>
    some (.unit, { s with rankFlatten := if s.rankFlatten.contains rank then s.rankFlatten else s.rankFlatten ++ [rank] })
  | .dump => some (.dump s.metrics, s)

/-- run a list of calls, collecting the returned values -/
def runOps : List MOp → MState → Option (List MRet × MState)
  | [], s => some ([], s)
  | op :: rest, s => do
    let (r, s1) ← step op s
    let (rs, s2) ← runOps rest s1
    pure (r :: rs, s2)

/-- a client of the class: every next call may depend on what the previous ones returned -/
inductive Prog
  | done
  | call (op : MOp) (k : MRet → Prog)

def Prog.run : Prog → MState → Option (List MRet × MState)
  | .done, s => some ([], s)
  | .call op k, s => do
    let (r, s1) ← step op s
    let (rs, s2) ← (k r).run s1
    pure (r :: rs, s2)

/-- one collection session: `beginCollect(prefix)`, the client, `endCollect()` -/
def session (p : Option String) (client : Prog) (s : MState) : Option (List MRet × MState) := do
  let (_, s1) ← step (.beginCollect p) s
  let (rs, s2) ← client.run s1
  let (_, s3) ← step .endCollect s2
  pure (rs, s3)

/-- the calls a loop nest makes inside a session (everything except opening/closing sessions,
    declaring/consuming traces, matching ranks and changing the flush threshold) -/
def MOp.inBody : MOp → Bool
  | .registerRank _ | .addUse _ _ _ _ _ | .incIter _ | .endIter _ | .getLabel _ | .getIndex _
  | .getIter | .incCount _ _ _ | .isCollecting | .isTraced _ _ | .dump => true
  | _ => false

def MOp.isBegin : MOp → Bool
  | .beginCollect _ => true
  | _ => false

/-- `beginCollect(p)` followed by `trace(rank, type)` for the given file traces -/
def openOps (p : String) (keys : List TKey) : List MOp :=
  .beginCollect (some p) :: keys.map (fun k => .trace k.1 k.2 false)

/-! ### what a user reads after a session -/

/-- `Metrics.dump()[line][metric]`, 0 when absent (`Compute.numOps`) -/
def count (s : MState) (line metric : String) : Int :=
  (((s.metrics.getD []) |> (dget · line)).getD [] |> (dget · metric)).getD 0

/-- `Compute.numIters(file)`: lines after the first -/
def numIters (rows : List Row) : Nat := rows.length - 1

def fileOf (s : MState) (p rank ty : String) : List Row := (dget s.fs (p, rank, ty)).getD []

end Ft.C15
