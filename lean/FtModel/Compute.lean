/-
  FtModel.Compute — `Compute.numSwaps` / `_numSwapsTree` / `_merge` of
  fibertree/model/compute.py, and the specification of C19's second sentence.

  `_numSwapsTree(fiber, depth, radix, next_latency)` walks `depth` levels down over the
  *stored* payloads (`fiber.getPayloads()`), and at the last level merges the negated
  coordinate lists (`payload.getCoords()`: all stored coordinates) of the sub-fibers that
  hold at least one coordinate, in rounds of `radix` lists.  Payload values are never read.
-/
import FtModel.Basic
set_option linter.unusedVariables false
namespace Ft

/-- `next_latency`: an int, or "N" (unbounded) -/
inductive Lat
  | fin (l : Nat)
  | inf
  deriving DecidableEq, Repr

/-- Python's `sorted(...)` / `list.sort()` on ints -/
def pySort (l : List Int) : List Int := l.mergeSort (fun a b => decide (a ≤ b))

/-- `sorted([-c for c in coords])` -/
def negSorted (coords : List Int) : List Int := pySort (coords.map (fun c => -c))

/-! ### `_merge` with an int latency -/

def mergeFin (lat : Nat) (chunk : List (List Int)) : Nat × List Int :=
  let merged := pySort chunk.flatten
  (lat * (chunk.length + merged.length), merged)

/-! ### `_merge` with latency "N": incremental merge through a sorted list of heads

Entries of `head` are tuples `(negated coord, list index)` compared as Python tuples. -/

def tupLe (x y : Int × Nat) : Bool := decide (x.1 < y.1) || (decide (x.1 = y.1) && decide (x.2 ≤ y.2))

/-- `bisect.bisect_right(head, e)` on the (sorted) list `head`: number of leading entries ≤ e -/
def bisectRight (head : List (Int × Nat)) (e : Int × Nat) : Nat :=
  (head.takeWhile (fun h => tupLe h e)).length

/-- `list.insert(j, e)` -/
def c19_insertAt {α : Type} (l : List α) (j : Nat) (e : α) : List α := l.take j ++ e :: l.drop j

/-- "First insert all fibers": pops the last element of every list.  A list without
    elements would raise IndexError in Python; it cannot occur (presented sub-fibers hold
    at least one coordinate, merged lists of non-empty lists are non-empty) and is passed
    over here. -/
def infHeads : Nat → List (List Int) → List (Int × Nat) → Nat → List (List Int) × List (Int × Nat) × Nat
  | _, [], head, cmp => ([], head, cmp)
  | i, l :: ls, head, cmp =>
    match l.getLast? with
    | none =>
      let r := infHeads (i + 1) ls head cmp
      (l :: r.1, r.2.1, r.2.2)
    | some x =>
      let e := (x, i)
      let j := bisectRight head e
      let r := infHeads (i + 1) ls (c19_insertAt head j e) (cmp + (head.length - j + 1))
      (l.dropLast :: r.1, r.2.1, r.2.2)

/-- "Now build the result": `while head:` — every iteration pops one entry, `fuel` is the
    number of elements still to be emitted. -/
def infDrain : Nat → List (List Int) → List (Int × Nat) → List Int → Nat → Nat × List Int
  | 0, _, _, merged, cmp => (cmp, merged)
  | fuel + 1, coords, head, merged, cmp =>
    match head.getLast? with
    | none => (cmp, merged)
    | some elem =>
      let head := head.dropLast
      let merged := merged ++ [elem.1]
      let l := coords.getD elem.2 []
      match l.getLast? with
      | none => infDrain fuel coords head merged cmp
      | some x =>
        let new := (x, elem.2)
        let j := bisectRight head new
        infDrain fuel (coords.set elem.2 l.dropLast) (c19_insertAt head j new) merged
          (cmp + (head.length - j + 1))

def mergeInf (chunk : List (List Int)) : Nat × List Int :=
  let s := infHeads 0 chunk [] 0
  let r := infDrain (chunk.map List.length).sum s.1 s.2.1 [] s.2.2
  (r.1, pySort r.2)

def mergeChunk : Lat → List (List Int) → Nat × List Int
  | .fin l, chunk => mergeFin l chunk
  | .inf, chunk => mergeInf chunk

/-! ### the rounds -/

/-- `coords[i:min(i+radix, len)] for i in range(0, len(coords), radix)` -/
def chunks {α : Type} (r : Nat) (l : List α) : List (List α) :=
  if h : r = 0 ∨ l = [] then [] else l.take r :: chunks r (l.drop r)
termination_by l.length
decreasing_by
  have : l.length ≠ 0 := by
    intro h0; exact h (Or.inr (List.length_eq_zero_iff.1 h0))
  simp only [List.length_drop]; omega

/-- `if radix > len(coords): radix = len(coords)`; `none` is `float("inf")` -/
def clampRadix (radix : Option Nat) (len : Nat) : Nat :=
  match radix with
  | none => len
  | some r => if r > len then len else r

/-- `while len(coords) > 1: …` (`fuel` = number of lists: a round with radix ≥ 2 on ≥ 2
    lists leaves fewer lists; radix < 2 does not terminate in Python and is outside the
    model) -/
def swapRounds (lat : Lat) : Nat → Option Nat → List (List Int) → Nat
  | 0, _, _ => 0
  | fuel + 1, radix, coords =>
    if coords.length ≤ 1 then 0
    else
      let r := clampRadix radix coords.length
      let res := (chunks r coords).map (mergeChunk lat)
      (res.map (·.1)).sum + swapRounds lat fuel (some r) (res.map (·.2))

/-- the merge at one fiber of the target level -/
def swapsAt (radix : Option Nat) (lat : Lat) (lists : List (List Int)) : Nat :=
  swapRounds lat lists.length radix (lists.map negSorted)

/-- stored coordinates of a fiber (`Fiber.getCoords()`) -/
def coordsOf {κ ν : Type} {d : Nat} (f : Tree κ ν (d + 1)) : List κ :=
  (show List (κ × Tree κ ν d) from f).map (·.1)

/-- the lists merged at one fiber of the target level: the stored coordinates of every
    stored sub-fiber that holds at least one (`if len(payload.getCoords()) > 0`) -/
def storedLists {ν : Type} (e : Nat) (f : Tree Int ν (e + 2)) : List (List Int) :=
  ((show List (Int × Tree Int ν (e + 1)) from f).map (fun el => coordsOf (d := e) el.2)).filter
    (fun l => !l.isEmpty)

/-- the coordinate lists merged at each fiber of level `depth` (the walk visits every
    stored fiber) -/
def mergeNodes {ν : Type} (e : Nat) : (depth : Nat) → Tree Int ν (e + 2 + depth) → List (List (List Int))
  | 0, f => [storedLists e f]
  | depth + 1, f =>
    (show List (Int × Tree Int ν (e + 2 + depth)) from f).flatMap (fun el => mergeNodes e depth el.2)

/-- `Compute._numSwapsTree(fiber, depth, radix, next_latency)` -/
def numSwapsTree {ν : Type} (e : Nat) (radix : Option Nat) (lat : Lat) :
    (depth : Nat) → Tree Int ν (e + 2 + depth) → Nat
  | 0, f => swapsAt radix lat (storedLists e f)
  | depth + 1, f =>
    ((show List (Int × Tree Int ν (e + 2 + depth)) from f).map
      (fun el => numSwapsTree e radix lat depth el.2)).sum

/-! ### Specification -/

/-- ⌈k / r⌉ -/
def ceilDiv (k r : Nat) : Nat := (k + r - 1) / r

theorem ceilDiv_lt {k r : Nat} (hk : 2 ≤ k) (hr : 2 ≤ r) (hrk : r ≤ k) : ceilDiv k r < k := by
  unfold ceilDiv
  rw [Nat.div_lt_iff_lt_mul (by omega)]
  have h1 : k * 2 ≤ k * r := Nat.mul_le_mul_left k hr
  have h2 : 2 * r ≤ k * r := Nat.mul_le_mul_right r hk
  omega

/-- finite latency: every round over `k > 1` lists holding `n` elements in total costs
    `lat · (k + n)` and leaves ⌈k / min(radix, k)⌉ lists -/
def roundsCost (radix : Option Nat) (lat n : Nat) (k : Nat) : Nat :=
  if h : 2 ≤ k ∧ 2 ≤ clampRadix radix k then
    lat * (k + n) + roundsCost radix lat n (ceilDiv k (clampRadix radix k))
  else 0
termination_by k
decreasing_by
  apply ceilDiv_lt h.1 h.2
  unfold clampRadix
  cases radix with
  | none => exact Nat.le_refl _
  | some r => simp only; split <;> omega

/-- total number of coordinates in a list of lists -/
def total (ls : List (List Int)) : Nat := (ls.map List.length).sum

/-- The coordinate skeleton of a tree (payload values erased). -/
def skel {κ ν : Type} : (d : Nat) → Tree κ ν d → Tree κ Unit d
  | 0, _ => ()
  | d + 1, f => (show List (κ × Tree κ ν d) from f).map (fun el => (el.1, skel d el.2))

/-- the merge lists of a skeleton: the same walk on the tree without values -/
def skelNodes (e : Nat) (depth : Nat) (s : Tree Int Unit (e + 2 + depth)) : List (List (List Int)) :=
  mergeNodes e depth s

/-- the swap count as a function of the skeleton only -/
def swapsSpec (e : Nat) (radix : Option Nat) (lat : Lat) (depth : Nat)
    (s : Tree Int Unit (e + 2 + depth)) : Nat :=
  ((skelNodes e depth s).map (swapsAt radix lat)).sum

/-- finite latency, closed form, as a function of the skeleton only -/
def swapsSpecFin (e : Nat) (radix : Option Nat) (lat depth : Nat) (s : Tree Int Unit (e + 2 + depth)) : Nat :=
  ((skelNodes e depth s).map (fun ls => roundsCost radix lat (total ls) ls.length)).sum

/-! ### unbounded latency, stated on the coordinates themselves

A sorted buffer holds the current head `(coord, list index)` of every list, in emission
order: smaller coordinate first, equal coordinates: larger list index first.  Bringing a
new head into the buffer costs one comparison per buffered entry that is emitted before
it, plus one.  (No negation, no stacks, no positions.) -/

def ahead (x y : Int × Nat) : Bool := decide (x.1 < y.1) || (decide (x.1 = y.1) && decide (y.2 < x.2))

def bufInsert (buf : List (Int × Nat)) (e : Int × Nat) : List (Int × Nat) :=
  buf.filter (fun h => ahead h e) ++ e :: buf.filter (fun h => !ahead h e)

def bufCost (buf : List (Int × Nat)) (e : Int × Nat) : Nat := buf.countP (fun h => ahead h e) + 1

/-- fill the buffer with the first coordinate of every list -/
def specHeads : Nat → List (List Int) → List (Int × Nat) → Nat → List (List Int) × List (Int × Nat) × Nat
  | _, [], buf, cost => ([], buf, cost)
  | i, [] :: ls, buf, cost =>
    let r := specHeads (i + 1) ls buf cost
    ([] :: r.1, r.2.1, r.2.2)
  | i, (c :: l) :: ls, buf, cost =>
    let r := specHeads (i + 1) ls (bufInsert buf (c, i)) (cost + bufCost buf (c, i))
    (l :: r.1, r.2.1, r.2.2)

/-- emit the first buffered entry, bring in its successor -/
def specDrain : Nat → List (List Int) → List (Int × Nat) → List Int → Nat → Nat × List Int
  | 0, _, _, out, cost => (cost, out)
  | _ + 1, _, [], out, cost => (cost, out)
  | fuel + 1, lists, (c, i) :: buf, out, cost =>
    match lists.getD i [] with
    | [] => specDrain fuel lists buf (out ++ [c]) cost
    | c' :: l =>
      specDrain fuel (lists.set i l) (bufInsert buf (c', i)) (out ++ [c]) (cost + bufCost buf (c', i))

/-- one k-way merge of coordinate lists: comparison count and the (sorted) emitted list -/
def insertMerge (lists : List (List Int)) : Nat × List Int :=
  let s := specHeads 0 lists [] 0
  let r := specDrain (lists.map List.length).sum s.1 s.2.1 [] s.2.2
  (r.1, pySort r.2)

theorem ceilDiv_zero (r : Nat) (hr : r ≠ 0) : ceilDiv 0 r = 0 := by
  unfold ceilDiv
  rw [Nat.div_eq_zero_iff]; right; omega

theorem ceilDiv_step (k r : Nat) (hr : r ≠ 0) (hk : k ≠ 0) : ceilDiv k r = ceilDiv (k - r) r + 1 := by
  unfold ceilDiv
  by_cases h : r ≤ k
  · have : k + r - 1 = (k - r + r - 1) + r := by omega
    rw [this, Nat.add_div_right _ (by omega)]
  · have h1 : k - r = 0 := by omega
    rw [h1]
    have h2 : (0 + r - 1) / r = 0 := by
      rw [Nat.div_eq_zero_iff]; right; omega
    rw [h2]
    have h3 : k + r - 1 = (k - 1) + r := by omega
    rw [h3, Nat.add_div_right _ (by omega)]
    have h4 : (k - 1) / r = 0 := by
      rw [Nat.div_eq_zero_iff]; right; omega
    rw [h4]

theorem length_chunks {α : Type} (r : Nat) (hr : r ≠ 0) (l : List α) :
    (chunks r l).length = ceilDiv l.length r := by
  fun_induction chunks r l with
  | case1 l h =>
    rcases h with h | h
    · exact absurd h hr
    · simp [h, ceilDiv_zero r hr]
  | case2 l h ih =>
    have hl : l.length ≠ 0 := by
      intro h0; exact h (Or.inr (List.length_eq_zero_iff.1 h0))
    simp only [List.length_cons, ih, List.length_drop]
    rw [ceilDiv_step l.length r hr hl]

theorem clampRadix_le (radix : Option Nat) (k : Nat) : clampRadix radix k ≤ k := by
  unfold clampRadix
  cases radix with
  | none => exact Nat.le_refl _
  | some r => simp only; split <;> omega

/-- unbounded latency: every round merges the lists in groups of `min(radix, k)`; each
    merge is charged its insertion comparisons and leaves its emitted list -/
def roundsInf (radix : Option Nat) (lists : List (List Int)) : Nat :=
  if h : 2 ≤ lists.length ∧ 2 ≤ clampRadix radix lists.length then
    let ms := (chunks (clampRadix radix lists.length) lists).map insertMerge
    (ms.map (·.1)).sum + roundsInf radix (ms.map (·.2))
  else 0
termination_by lists.length
decreasing_by
  simp only [List.length_map]
  rw [length_chunks _ (by omega)]
  exact ceilDiv_lt h.1 h.2 (clampRadix_le radix lists.length)

/-- the swap count with unbounded latency as a function of the skeleton only -/
def swapsSpecInf (e : Nat) (radix : Option Nat) (depth : Nat) (s : Tree Int Unit (e + 2 + depth)) : Nat :=
  ((skelNodes e depth s).map (roundsInf radix)).sum

end Ft
