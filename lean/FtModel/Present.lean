/-
  What a fiber of a rank declared uncompressed ("U") presents to the co-iteration operators (C04) and to a
  populate loop (C05): `Fiber.__iter__` dispatches to `iterActiveShape` → `iterRangeShape(lo, hi)`, which is C07's
  `shapeIter` over `range(lo, hi)`.  The co-iteration side only needs each coordinate with a reference to what is
  delivered for it: `some i` = the operand's own payload stored at position `i` (explicit defaults included),
  `none` = a freshly synthesised default.
-/
import FtModel.Traverse
namespace Ft
open Ft.C07

/-- the elements an uncompressed rank presents over its active range `[lo, hi)`, as payload references -/
def presentDense {π : Type} (mk : π) (lo hi : Int) (f : Fib Int π) : Fib Int (Option Nat) :=
  (shapeIter mk f (pyRange lo hi 1)).map (fun e => (e.1, e.2.1))

end Ft
