/-
  FtModel.Traverse — the traversal modes of C07 (fibertree/core/iterators.py:16-448,
  fibertree/core/fiber.py `fromIterator`/`fromLazy`/`prune`/`project`).

  * `rangeLoop`     — the loop of `iterRange` (break at `coord >= end`, skip below `start`,
                      skip empties); also the loop of `project_iterator` (interval, no emptiness)
                      and the loop a lazy fiber's `__iter__` runs over its inner iterator.
  * `iterRange`     — eager fiber: positions `start_pos ..`, each yield carries its storage
                      position (= the object yielded is the fiber's own payload; the position is
                      also what `setSavedPos(i + j)` records).
  * `pyRange` / `pyRangeDown` / `pyRangeI` — Python's `range(start, end, step)`, `step ≠ 0`.
  * `shapeIter` / `shapeRefLoop` — `iterRangeShape` (`getPayload`, nothing inserted) and
                      `iterRangeShapeRef` (`getPayloadRef`, default inserted where absent).
  * `coShape` / `coShapeRefLoop` — the dense co-iterators (tuple of payloads per coordinate).
  * `getShape` / `getActive` / `iterDefault` — the wrappers' ranges and the `__iter__` dispatch
                      on the rank format.
  * `project` / `prune` / `fromLazy` — lazy fibers; a lazy fiber is re-instantiated per
                      traversal, so a traversal is a function of the (current) operands.

  Everything is generic in the payload type `π` with an emptiness test `emp`; the driver
  instantiates `π` with sub-trees.  All helper names live in `Ft.C07`.
-/
import FtModel.Basic
import FtModel.Point
import FtModel.Populate
import FtModel.Mutate
namespace Ft.C07
open Ft

/-! ### occupancy / range iteration (any strictly ordered coordinate type) -/
section generic
variable {κ π : Type} [LT κ] [DecidableRel (α := κ) (· < ·)]

/-- `end is not None and coord >= end` -/
def geEnd (e : Option κ) (c : κ) : Bool :=
  match e with
  | some e => !decide (c < e)
  | none => false

/-- `start is None or coord >= start` -/
def geStart (s : Option κ) (c : κ) : Bool :=
  match s with
  | some s => !decide (c < s)
  | none => true

/-- the `for … in enumerate(iter_)` loop of `iterRange` over what `iter_` delivers -/
def rangeLoop (emp : π → Bool) (s e : Option κ) : Fib κ π → Fib κ π
  | [] => []
  | (c, p) :: r =>
    if geEnd e c then []
    else if geStart s c && !emp p then (c, p) :: rangeLoop emp s e r
    else rangeLoop emp s e r

/-- membership in the slice an `iterRange(start, end)` names -/
def inSlice (emp : π → Bool) (s e : Option κ) (x : κ × π) : Bool :=
  !emp x.2 && geStart s x.1 && !geEnd e x.1

/-- the definition of the slice: the non-empty elements with `start <= coord < end`, in
    storage (= ascending) order -/
def rangeSpec (emp : π → Bool) (s e : Option κ) (f : Fib κ π) : Fib κ π :=
  f.filter (inSlice emp s e)

/-- every element with its storage position -/
def withPos (f : Fib κ π) : Fib κ (Nat × π) :=
  f.zipIdx.map (fun x => (x.1.1, (x.2, x.1.2)))

/-- forget the positions -/
def strip (f : Fib κ (Nat × π)) : Fib κ π := f.map (fun x => (x.1, x.2.2))

/-- `assert start_pos < len(self.coords)` -/
def startLegal (sp : Option Nat) (f : Fib κ π) : Bool :=
  match sp with
  | none => true
  | some i => decide (i < f.length)

/-- `iterRange(start, end, start_pos)` on an eager fiber: the generator
    `((coords[j], payloads[j]) for j in range(i, len))` fed to the loop -/
def iterRange (emp : π → Bool) (s e : Option κ) (sp : Option Nat) (f : Fib κ π) : Fib κ (Nat × π) :=
  rangeLoop (fun ip => emp ip.2) s e ((withPos f).drop (sp.getD 0))

/-- `Fiber.__reversed__` (also reached through `Tensor.__reversed__`): every stored element, empty
    ones included, in reversed storage order -/
def reversedIter (f : Fib κ π) : Fib κ (Nat × π) := (withPos f).reverse

/-- `getSavedPos()` after a complete traversal: `setSavedPos(i + j)` runs at every yield, but
    only when a `start_pos` was given -/
def savedAfter (old : Nat) (sp : Option Nat) (ys : Fib κ (Nat × π)) : Nat :=
  match sp with
  | none => old
  | some _ => match ys.getLast? with
    | some y => y.2.1
    | none => old

/-- a *valid* shortcut for the slice `[s, e)`: a legal position such that no skipped element
    belongs to the slice -/
def validStart (emp : π → Bool) (s e : Option κ) (sp : Nat) (f : Fib κ π) : Bool :=
  decide (sp < f.length) && (f.take sp).all (fun x => !inSlice emp s e x)

end generic

/-! ### shape iteration (integer coordinates) -/

/-- Python's `range(s, e, k)` for a positive step -/
def pyRange (s e : Int) (k : Nat) : List Int :=
  if _h : s < e ∧ 0 < k then s :: pyRange (s + k) e k else []
termination_by (e - s).toNat
decreasing_by omega

/-- Python's `range(s, e, -k)` for a positive `k`: descending -/
def pyRangeDown (s e : Int) (k : Nat) : List Int :=
  if _h : e < s ∧ 0 < k then s :: pyRangeDown (s - k) e k else []
termination_by (s - e).toNat
decreasing_by omega

/-- `range(s, e, k)` for any non-zero integer step (`k = 0` raises `ValueError` in Python;
    the empty list here, and such cases are kept out of the model) -/
def pyRangeI (s e k : Int) : List Int :=
  if 0 < k then pyRange s e k.toNat else pyRangeDown s e (-k).toNat

inductive Fmt | C | U
  deriving DecidableEq, Repr

/-- what the wrappers read from the fiber / its rank: format, declared shape, active range -/
structure Cfg where
  fmt : Fmt := .C
  shape : Option Int := none
  active : Option (Int × Int) := none

section shape
variable {π : Type}

/-- `estimateShape(all_ranks=False)`: `coords[-1] + 1`, `0` for a fiber without elements -/
def estShape (f : Fib Int π) : Int :=
  match f.getLast? with
  | some e => e.1 + 1
  | none => 0

/-- `getShape(all_ranks=False)`: the declared shape if there is one (`is not None`) -/
def getShape (cfg : Cfg) (f : Fib Int π) : Int :=
  match cfg.shape with
  | some s => s
  | none => estShape f

/-- `getActive()`: the active range if set, else `(0, shape)` with a falsy shape estimated -/
def getActive (cfg : Cfg) (f : Fib Int π) : Int × Int :=
  match cfg.active with
  | some a => a
  | none => (0, match cfg.shape with
      | some s => if s = 0 then estShape f else s
      | none => estShape f)

/-- the extent of an owned fiber's rank when it was not declared: `Rank.append` keeps the
    maximum of the (non-zero) estimates `coords[-1] + 1` of the fibers appended; `none` (no
    information: each fiber falls back to its own estimate) when every fiber was empty -/
def rankExtent (sibs : List (Fib Int π)) : Option Int :=
  sibs.foldl (fun acc g =>
    let n := estShape g
    if n = 0 then acc else match acc with
      | none => some n
      | some o => some (if o < n then n else o)) none

/-- the ranges of the wrappers: `iterRangeShape(s, e, k)` itself, `iterShape` = `(0, getShape)`,
    `iterActiveShape` = `getActive()`; the same for the `…Ref` and the `coiter…` forms (which read
    shape / active range from the first fiber) -/
inductive Wrap
  | range (s e : Int) (k : Int)
  | shape
  | active

def wrapCoords (w : Wrap) (cfg : Cfg) (f : Fib Int π) : List Int :=
  match w with
  | .range s e k => pyRangeI s e k
  | .shape => pyRange 0 (getShape cfg f) 1
  | .active => pyRange (getActive cfg f).1 (getActive cfg f).2 1

/-- `getPayload(c)` with the storage position of what is returned (`none`: a fresh default
    that is not part of the fiber) -/
def getPos (mk : π) (f : Fib Int π) (c : Int) : Option Nat × π :=
  match posLookup (withPos f) c with
  | some ip => (some ip.1, ip.2)
  | none => (none, mk)

/-- `iterRangeShape` over the coordinates `cs` -/
def shapeIter (mk : π) (f : Fib Int π) (cs : List Int) : Fib Int (Option Nat × π) :=
  cs.map (fun c => (c, getPos mk f c))

/-- declarative point lookup: the stored payload (with its position) or the default -/
def lookupPos (mk : π) (f : Fib Int π) (c : Int) : Option Nat × π :=
  match lookup (withPos f) c with
  | some ip => (some ip.1, ip.2)
  | none => (none, mk)

/-- the definition: every coordinate, the stored payload or the default -/
def shapeSpec (mk : π) (f : Fib Int π) (cs : List Int) : Fib Int (Option Nat × π) :=
  cs.map (fun c => (c, lookupPos mk f c))

/-- `iterRangeShapeRef` over the coordinates `cs`: `getPayloadRef(c)` inserts the default at
    the sorted position when `c` is absent; the yield is the (now) stored payload -/
def shapeRefLoop (mk : π) : Fib Int π → List Int → Fib Int π × Fib Int π
  | f, [] => (f, [])
  | f, c :: cs =>
    let r := shapeRefLoop mk (posrefF mk f c) cs
    (r.1, (c, (posLookup f c).getD mk) :: r.2)

/-- what the fiber must hold after a complete `…Ref` traversal of `cs` -/
def refExpect (mk : π) (f : Fib Int π) (cs : List Int) (c : Int) : Option π :=
  match lookup f c with
  | some p => some p
  | none => if c ∈ cs then some mk else none

/-- executable spec of the tree after a `…Ref` traversal, on a candidate `out` -/
def refSpecB [DecidableEq π] (mk : π) (f : Fib Int π) (cs : List Int) (out : Fib Int π) : Bool :=
  sortedB out &&
  (out.map (·.1) ++ f.map (·.1) ++ cs).all (fun c => decide (lookup out c = refExpect mk f cs c))

/-! ### dense co-iteration -/

/-- `coiterRangeShape`: per coordinate the tuple `getPayload(c)` of every fiber -/
def coShape (mk : π) (fs : List (Fib Int π)) (cs : List Int) : List (Int × List (Option Nat × π)) :=
  cs.map (fun c => (c, fs.map (fun f => getPos mk f c)))

def coShapeSpec (mk : π) (fs : List (Fib Int π)) (cs : List Int) : List (Int × List (Option Nat × π)) :=
  cs.map (fun c => (c, fs.map (fun f => lookupPos mk f c)))

/-- one coordinate of `coiterRangeShapeRef`: `tuple(fiber.getPayloadRef(c) for fiber in fibers)` -/
def coRefStep (mk : π) (c : Int) : List (Fib Int π) → List (Fib Int π) × List π
  | [] => ([], [])
  | f :: fs =>
    let r := coRefStep mk c fs
    (posrefF mk f c :: r.1, (posLookup f c).getD mk :: r.2)

def coShapeRefLoop (mk : π) : List (Fib Int π) → List Int → List (Fib Int π) × List (Int × List π)
  | fs, [] => (fs, [])
  | fs, c :: cs =>
    let st := coRefStep mk c fs
    let r := coShapeRefLoop mk st.1 cs
    (r.1, (c, st.2) :: r.2)

/-! ### `__iter__`: dispatch on the rank format -/

/-- tag a position-carrying yield as "stored at position i" -/
def stored (ys : Fib Int (Nat × π)) : Fib Int (Option Nat × π) :=
  ys.map (fun x => (x.1, (some x.2.1, x.2.2)))

/-- `Fiber.__iter__(start_pos)`: "C" → `iterOccupancy(start_pos)`, "U" → `iterActiveShape()`
    (which ignores `start_pos`) -/
def iterDefault (emp : π → Bool) (mk : π) (cfg : Cfg) (sp : Option Nat) (f : Fib Int π) :
    Fib Int (Option Nat × π) :=
  match cfg.fmt with
  | .C => stored (iterRange emp none none sp f)
  | .U => shapeIter mk f (pyRange (getActive cfg f).1 (getActive cfg f).2 1)

/-- what default iteration has to deliver -/
def iterDefaultSpec (emp : π → Bool) (mk : π) (cfg : Cfg) (f : Fib Int π) : Fib Int (Option Nat × π) :=
  match cfg.fmt with
  | .C => stored ((withPos f).filter (fun x => !emp x.2.2))
  | .U => shapeSpec mk f (pyRange (getActive cfg f).1 (getActive cfg f).2 1)

/-! ### lazy fibers: `project`, `prune`, `fromLazy` -/

inductive Err | assertion
  deriving DecidableEq, Repr

def Err.toString : Err → String
  | .assertion => "rejected"

/-- the affine coordinate transform `c ↦ k*c + m` on a list of elements -/
def transF {ρ : Type} (k m : Int) (l : Fib Int ρ) : Fib Int ρ := l.map (fun x => (k * x.1 + m, x.2))

/-- the interval test of `project_iterator` = the range loop without an emptiness test -/
def ivLoop {ρ : Type} (iv : Option (Int × Int)) (l : Fib Int ρ) : Fib Int ρ :=
  match iv with
  | none => l
  | some (lo, hi) => rangeLoop (fun _ => false) (some lo) (some hi) l

/-- the start-position assertions of `project` (forward path):
    `start_pos < len(coords)` and, with an interval,
    `start_pos == 0 or trans_fn(coords[start_pos - 1]) < interval[0]`
    (the skipped coordinate is compared in the interval's own, projected, coordinates) -/
def projStartOk (k m : Int) (iv : Option (Int × Int)) (sp : Option Nat) (f : Fib Int π) : Bool :=
  match sp with
  | none => true
  | some i => decide (i < f.length) &&
    (match iv with
     | none => true
     | some (lo, _) => i == 0 || (match f[i - 1]? with
        | some x => decide (k * x.1 + m < lo)
        | none => false))

/-- the reversed wrapper: `Fiber.fromIterator(reversed_iterator, default=self.getDefault())`
    presents `reversed(cps)` through its own `__iter__` (format "C"), i.e. the non-empty elements
    in reversed storage order -/
def revInner (emp : π → Bool) (f : Fib Int π) : Fib Int (Option Nat × π) :=
  stored (rangeLoop (fun ip => emp ip.2) none none (withPos f).reverse)

/-- the active range `project` gives its result: the interval if there is one, else the image
    of the source's active range (`trans(a0)`, `trans(a1 - 1)`, ordered, end exclusive) -/
def projActive (cfg : Cfg) (k m : Int) (iv : Option (Int × Int)) (f : Fib Int π) : Int × Int :=
  match iv with
  | some i => i
  | none =>
    let a := getActive cfg f
    let st := k * a.1 + m
    let en := k * (a.2 - 1) + m
    (if st < en then st else en, (if st < en then en else st) + 1)

/-- the active range of the lazy result of the dense co-iterators: `(start, end)` as passed -/
def wrapActive (w : Wrap) (cfg : Cfg) (f : Fib Int π) : Int × Int :=
  match w with
  | .range s e _ => (s, e)
  | .shape => (0, getShape cfg f)
  | .active => getActive cfg f

/-- `project` applied to a LAZY fiber presenting `src` (the result of an earlier project / prune):
    default iteration of a lazy fiber is occupancy iteration; an order-reversing transform is
    asserted out (`assert not self.isLazy()`), and so is a start position -/
def projectOfLazy {ρ : Type} (emp : ρ → Bool) (k m : Int) (iv : Option (Int × Int)) (sp : Option Nat)
    (src : Fib Int ρ) : Except Err (Fib Int ρ) :=
  if decide (k * 0 + m > k * 1 + m) || sp.isSome then .error .assertion
  else .ok (ivLoop iv (transF k m (rangeLoop emp none none src)))

/-- `prune` applied to a lazy fiber presenting `src` -/
def pruneOfLazy {ρ : Type} (emp : ρ → Bool) (pred : Nat → Int → ρ → Bool) (sp : Option Nat)
    (src : Fib Int ρ) : Except Err (Fib Int ρ) :=
  if sp.isSome then .error .assertion
  else .ok ((((rangeLoop emp none none src).zipIdx).filter (fun x => pred x.2 x.1.1 x.1.2)).map (·.1))

/-- a traversal of a lazy fiber: `iterRange(os, oe)` (plain `__iter__`: no bounds) runs the range
    loop over what a fresh instance of the fiber's iterator class delivers; a lazy fiber has
    format "C" and the emptiness test of the default it was given -/
def lazyIter {ρ : Type} (emp : ρ → Bool) (os oe : Option Int) (raw : Fib Int ρ) : Fib Int ρ :=
  rangeLoop emp os oe raw

/-- what a fresh `project_iterator` of the lazy fiber returned by `project` delivers.
    (`coord_ex` only decides between integer and tuple coordinates; with integer coordinates the
    reversal test is `trans_fn(0) > trans_fn(1)`.) -/
def projectRaw (emp : π → Bool) (mk : π) (cfg : Cfg) (k m : Int) (iv : Option (Int × Int))
    (sp : Option Nat) (f : Fib Int π) : Except Err (Fib Int (Option Nat × π)) :=
  let rev := decide (k * 0 + m > k * 1 + m)
  if rev then
    -- `assert not fiber.isLazy()` when a start position is given
    if sp.isSome then .error .assertion
    else .ok (ivLoop iv (transF k m (revInner emp f)))
  else if !projStartOk k m iv sp f then .error .assertion
  else .ok (ivLoop iv (transF k m (iterDefault emp mk cfg sp f)))

/-- `for c, p in f.project(…)` (resp. `.iterRange(os, oe)` of the result) -/
def project (emp : π → Bool) (mk : π) (cfg : Cfg) (k m : Int) (iv : Option (Int × Int))
    (sp : Option Nat) (os oe : Option Int) (f : Fib Int π) : Except Err (Fib Int (Option Nat × π)) :=
  (projectRaw emp mk cfg k m iv sp f).map (lazyIter (fun x => emp x.2) os oe)

def inIv (iv : Option (Int × Int)) (c : Int) : Bool :=
  match iv with
  | none => true
  | some (lo, hi) => decide (lo ≤ c) && decide (c < hi)

/-- projection as defined: the fiber's non-empty payloads under the transformed coordinates,
    restricted to the interval, ascending (= reversed storage order for an order-reversing
    transform) -/
def projectSpec (emp : π → Bool) (k m : Int) (iv : Option (Int × Int)) (os oe : Option Int)
    (f : Fib Int π) : Fib Int (Option Nat × π) :=
  let l := (transF k m (stored ((withPos f).filter (fun x => !emp x.2.2)))).filter
    (fun x => inIv iv x.1 && geStart os x.1 && !geEnd oe x.1)
  if k < 0 then l.reverse else l

/-- a *valid* shortcut for a projection: a legal position with nothing of the result before it —
    with an interval, the element before it lies below the interval *in target coordinates*
    (what the assertion in `project` is meant to say); without one, only empty elements are skipped -/
def projValidStart (emp : π → Bool) (k m : Int) (iv : Option (Int × Int)) (sp : Nat) (f : Fib Int π) : Bool :=
  decide (sp < f.length) &&
  (match iv with
   | none => (f.take sp).all (fun x => emp x.2)
   | some (lo, _) => sp == 0 || (match f[sp - 1]? with
      | some x => decide (k * x.1 + m < lo)
      | none => false))

/-- a "U" rank stores a dense array of its active range: no content outside it -/
def withinActive (emp : π → Bool) (cfg : Cfg) (f : Fib Int π) : Bool :=
  f.all (fun x => emp x.2 || (decide ((getActive cfg f).1 ≤ x.1) && decide (x.1 < (getActive cfg f).2)))

/-- what a fresh `prune_iterator` delivers: `assert start_pos < len(self.coords)`, then
    `trans_fn(i, c, p)` on the enumerated default traversal -/
def pruneRaw (emp : π → Bool) (mk : π) (cfg : Cfg) (pred : Nat → Int → π → Bool) (sp : Option Nat)
    (f : Fib Int π) : Except Err (Fib Int (Option Nat × π)) :=
  if !startLegal sp f then .error .assertion
  else .ok ((((iterDefault emp mk cfg sp f).zipIdx).filter (fun x => pred x.2 x.1.1 x.1.2.2)).map (·.1))

def prune (emp : π → Bool) (mk : π) (cfg : Cfg) (pred : Nat → Int → π → Bool) (sp : Option Nat)
    (os oe : Option Int) (f : Fib Int π) : Except Err (Fib Int (Option Nat × π)) :=
  (pruneRaw emp mk cfg pred sp f).map (lazyIter (fun x => emp x.2) os oe)

/-- pruning as defined: the non-empty elements of the default traversal that the predicate
    accepts (its first argument is the element's rank in that traversal), clipped to the
    range the result is iterated with -/
def pruneSpec (emp : π → Bool) (mk : π) (cfg : Cfg) (pred : Nat → Int → π → Bool) (os oe : Option Int)
    (f : Fib Int π) : Fib Int (Option Nat × π) :=
  (((iterDefaultSpec emp mk cfg f).zipIdx).filter
    (fun x => !emp x.1.2.2 && pred x.2 x.1.1 x.1.2.2 && geStart os x.1.1 && !geEnd oe x.1.1)).map (·.1)

end shape

/-! ### materialisation -/
section mat
variable {ν : Type} [DecidableEq ν]

/-- `Fiber.fromLazy(l)`: `for c, (ref, val) in f_out << l: ref <<= val` on a fresh fiber; the
    source of the populate is what `l.__iter__` presents; `<<=` on a sub-fiber copies its
    presented elements (`nonEmpty`) -/
def fromLazy (dflt : ν) (d : Nat) (ys : Fib Int (Tree Int ν d)) : Tree Int ν (d + 1) :=
  (populate dflt d (fun _ _ (bp : Tree Int ν d) => nonEmpty dflt d bp)
    (show Tree Int ν (d + 1) from ([] : List (Int × Tree Int ν d)))
    (ys.filter (fun x => !isEmpty dflt d x.2))).1

end mat

end Ft.C07
