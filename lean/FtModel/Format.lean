/-
  FtModel.Format — the footprint calculator of fibertree/model/format.py (class `Format`).

  Mirrors, as the code is today:
    * `_checkFillSpec` / `_checkFillIntField` / `_checkFillStrField`  (format.py:55-97)
      on Python dicts modelled as association lists,
    * `_getFiberFootprint`                                            (format.py:217-227)
    * `getRank` (a loop over `Rank.getFibers()`), `getRoot`, `getTensor` (format.py:150-164,195-202)
    * `_getFiberFromCoords` = `Tensor.getPayload(*coords)` with `allocate=True`
      (absent coordinate -> fresh empty fiber owned by the next rank)      (format.py:204-215)
    * `getSubTree`: the explicit stack walk (`fibers.pop()` / `fibers.append(child)`),
      children through `iterShape` (format "U": every coordinate of `range(shape)`, stored
      payload or a synthesized empty fiber) or `iterOccupancy` (format "C": the stored
      elements whose payload is not empty)                                 (format.py:166-193)

  Fibers live at a *height* `h` (distance from the leaf rank): a fiber of the leaf rank has
  type `Tree Int ν 1` and height 0, the root of a tensor with `D+1` ranks has height `D`.
  Per-rank data is a function `lv : Nat → FpLevel` of the height (rank `i` ↦ height `D - i`).

  The specification side: `fpReach` enumerates the fibers reachable below a fiber with their
  coordinate path, `FpReachable` is the declarative description of that set, `fpFibersAt`
  is the raw walk by depth through *all* stored elements (what a rank's fiber list mirrors).
-/
import FtModel.Basic
namespace Ft

/-! ### specification dictionaries -/

/-- a value found in a spec dictionary -/
inductive SpecVal
  | int (n : Nat)      -- a Python int (widths are counts of bits: non-negative)
  | str (s : String)
  | other              -- anything else (float, None, list …)
  deriving DecidableEq, Repr

/-- a Python dict with string keys (keys unique) -/
abbrev SpecDict := List (String × SpecVal)

/-- `_checkFillIntField`: `if field not in d: d[field] = 0`; `assert isinstance(d[field], int)` -/
def fillIntField (e : SpecDict) (k : String) : Option SpecDict :=
  let e' : SpecDict := match lookup e k with
    | none => e ++ [(k, SpecVal.int 0)]
    | some _ => e
  match lookup e' k with
  | some (SpecVal.int _) => some e'
  | _ => none

/-- `_checkFillStrField`: fill with the default, then the value must be one of the options -/
def fillStrField (e : SpecDict) (k dflt : String) (options : List String) : Option SpecDict :=
  let e' : SpecDict := match lookup e k with
    | none => e ++ [(k, SpecVal.str dflt)]
    | some _ => e
  match lookup e' k with
  | some (SpecVal.str s) => if options.contains s then some e' else none
  | _ => none

/-- the per-rank part of `_checkFillSpec` (`none` = an `assert` fires) -/
def checkFillRank (e : SpecDict) : Option SpecDict := do
  let e ← fillIntField e "rhbits"
  let e ← fillIntField e "fhbits"
  let e ← fillIntField e "cbits"
  let e ← fillIntField e "pbits"
  let e ← fillStrField e "format" "C" ["C", "U"]
  let e ← fillStrField e "layout" "contiguous" ["contiguous", "interleaved"]
  if e.length = 6 then some e else none

/-- the `"root"` part of `_checkFillSpec` -/
def checkFillRoot (e : SpecDict) : Option SpecDict := do
  let e ← fillIntField e "hbits"
  let e ← fillIntField e "pbits"
  if e.length = 2 then some e else none

/-- `for rank in ranks:` of `_checkFillSpec`; a missing rank key is first set to `{}` -/
def checkFillRanks : List (Option SpecDict) → Option (List SpecDict)
  | [] => some []
  | e :: r => do
    let x ← checkFillRank (e.getD [])
    let xs ← checkFillRanks r
    pure (x :: xs)

/-- `_checkFillSpec`: a missing `"root"` key is first set to `{}` -/
def checkFillSpec (root : Option SpecDict) (ranks : List (Option SpecDict)) :
    Option (SpecDict × List SpecDict) := do
  let r ← checkFillRoot (root.getD [])
  let rs ← checkFillRanks ranks
  pure (r, rs)

/-- the documented defaults of a rank entry: zero bits, compressed, contiguous -/
def specRankDefault (k : String) : Option SpecVal :=
  if k = "rhbits" ∨ k = "fhbits" ∨ k = "cbits" ∨ k = "pbits" then some (SpecVal.int 0)
  else if k = "format" then some (SpecVal.str "C")
  else if k = "layout" then some (SpecVal.str "contiguous")
  else none

/-- the defaults of the `"root"` entry -/
def specRootDefault (k : String) : Option SpecVal :=
  if k = "hbits" ∨ k = "pbits" then some (SpecVal.int 0) else none

/-- executable check that `filled` is `given` completed with the defaults `dflt` on `keys` -/
def specFilledB (dflt : String → Option SpecVal) (keys : List String) (given filled : SpecDict) : Bool :=
  keys.all (fun k => lookup filled k == (match lookup given k with | some v => some v | none => dflt k))

def specRankKeys : List String := ["rhbits", "fhbits", "cbits", "pbits", "format", "layout"]
def specRootKeys : List String := ["hbits", "pbits"]

def SpecDict.nat (e : SpecDict) (k : String) : Nat :=
  match lookup e k with
  | some (SpecVal.int n) => n
  | _ => 0

def SpecDict.str (e : SpecDict) (k : String) : String :=
  match lookup e k with
  | some (SpecVal.str s) => s
  | _ => ""

inductive FmtKind | C | U
  deriving DecidableEq, Repr

/-- What the footprint code reads of one rank: its filled spec and the shape that
    `fiber.getShape(all_ranks=False)` returns for the fibers of that rank. -/
structure FpLevel where
  format : FmtKind := .C
  rhbits : Nat := 0
  fhbits : Nat := 0
  cbits  : Nat := 0
  pbits  : Nat := 0
  shape  : Nat := 0
  deriving DecidableEq, Repr

def levelOf (e : SpecDict) (shape : Nat) : FpLevel :=
  { format := if e.str "format" = "U" then .U else .C,
    rhbits := e.nat "rhbits", fhbits := e.nat "fhbits",
    cbits := e.nat "cbits", pbits := e.nat "pbits", shape := shape }

/-- `getRoot` -/
def fpGetRoot (root : SpecDict) : Nat := root.nat "hbits" + root.nat "pbits"

/-- `getElem(rank, "elem")` -/
def fpElem (l : FpLevel) : Nat := l.cbits + l.pbits

/-! ### one fiber -/

/-- `num_elems` of `_getFiberFootprint`: `len(fiber)` if "C", the rank's shape otherwise -/
def fpNumElems (l : FpLevel) (occ : Nat) : Nat :=
  match l.format with
  | .C => occ
  | .U => l.shape

/-- `_getFiberFootprint(rank, fiber)` for a fiber with `len(fiber) = occ` -/
def fpFiber (l : FpLevel) (occ : Nat) : Nat :=
  l.fhbits + l.pbits * fpNumElems l occ + l.cbits * fpNumElems l occ

section
variable {ν : Type}

/-- `len(fiber)`: the number of stored elements (explicit defaults included) -/
def fpOcc (d : Nat) (f : Tree Int ν (d + 1)) : Nat := (show List (Int × Tree Int ν d) from f).length

def fpEmptyFiber (d : Nat) : Tree Int ν (d + 1) := (show List (Int × Tree Int ν d) from [])

/-- one level of `getPayload(c)` with `allocate=True`: the stored payload, else a fresh
    empty fiber (`_createDefault(addtorank=False)`) -/
def fpChildAt (d : Nat) (f : Tree Int ν (d + 2)) (c : Int) : Tree Int ν (d + 1) :=
  (lookup (show List (Int × Tree Int ν (d + 1)) from f) c).getD (fpEmptyFiber d)

/-- The child fibers `getSubTree` pushes for a fiber of height `d+1`, in iteration order:
    "U": `iterShape` — every `c` in `range(shape)`; "C": `iterOccupancy` — the stored
    elements whose payload is not empty. -/
def fpKids [DecidableEq ν] (dflt : ν) (l : FpLevel) (d : Nat) (f : Tree Int ν (d + 2)) :
    List (Int × Tree Int ν (d + 1)) :=
  match l.format with
  | .U => (List.range l.shape).map (fun (c : Nat) => ((c : Int), fpChildAt d f (c : Int)))
  | .C => present dflt (d + 1) f

/-- an entry of the `fibers` stack of `getSubTree`: a fiber and its height -/
structure FpItem (ν : Type) where
  h : Nat
  f : Tree Int ν (h + 1)

/-- `_getFiberFootprint(rank, fiber)` of a stack entry -/
def fpItemCost (lv : Nat → FpLevel) (it : FpItem ν) : Nat := fpFiber (lv it.h) (fpOcc it.h it.f)

/-- the `isinstance(payload, Fiber)` children of a stack entry (none at the leaf rank) -/
def fpItemKids [DecidableEq ν] (dflt : ν) (lv : Nat → FpLevel) : FpItem ν → List (FpItem ν)
  | ⟨0, _⟩ => []
  | ⟨d + 1, f⟩ => (fpKids dflt (lv (d + 1)) d f).map (fun k => ⟨d, k.2⟩)

/-- The `while len(fibers) > 0` loop of `getSubTree`.  Head of the list = top of the
    Python stack; the children are appended in iteration order, so the last one is on top.
    `fuel` bounds the number of loop iterations (structural recursion); `fpSize` below is the
    exact number the loop performs. -/
def fpWalk [DecidableEq ν] (dflt : ν) (lv : Nat → FpLevel) : Nat → List (FpItem ν) → Nat → Nat
  | _, [], total => total
  | 0, _ :: _, total => total
  | fuel + 1, it :: stack, total =>
    fpWalk dflt lv fuel ((fpItemKids dflt lv it).reverse ++ stack) (total + fpItemCost lv it)

/-- number of fibers the walk visits below (and including) a fiber -/
def fpSize [DecidableEq ν] (dflt : ν) (lv : Nat → FpLevel) : (d : Nat) → Tree Int ν (d + 1) → Nat
  | 0, _ => 1
  | d + 1, f => 1 + ((fpKids dflt (lv (d + 1)) d f).map (fun k => fpSize dflt lv d k.2)).sum

/-- `_getFiberFromCoords(*coords)`: `tensor.getRoot()` / `tensor.getPayload(*coords)`;
    `none` = the `assert isinstance(fiber, Fiber)` (or "too many coordinates") fires. -/
def fpDescend : (d : Nat) → Tree Int ν (d + 1) → List Int → Option (FpItem ν)
  | d, f, [] => some ⟨d, f⟩
  | 0, _, _ :: _ => none
  | d + 1, f, c :: cs => fpDescend d (fpChildAt d f c) cs

/-- `getFiber(*coords)` -/
def fpGetFiber (lv : Nat → FpLevel) (D : Nat) (root : Tree Int ν (D + 1)) (coords : List Int) :
    Option Nat :=
  (fpDescend D root coords).map (fpItemCost lv)

/-- `getSubTree(*coords)`: a full-length point returns the leaf rank's element bits without
    looking at the tree; otherwise the stack walk from the addressed fiber. -/
def fpGetSubTree [DecidableEq ν] (dflt : ν) (lv : Nat → FpLevel) (D : Nat)
    (root : Tree Int ν (D + 1)) (coords : List Int) : Option Nat :=
  if coords.length = D + 1 then some ((lv 0).cbits + (lv 0).pbits)
  else (fpDescend D root coords).map
    (fun it => fpWalk dflt lv (fpSize dflt lv it.h it.f) [it] 0)

/-! ### ranks and the tensor -/

/-- an element of `Rank.getFibers()` as the footprint code sees it: the fiber's identity
    (its coordinate path from the root, `none` if it is not in the tree) and `len(fiber)` -/
abbrev FpRankEntry := Option (List Int) × Nat

/-- `getRank(rank_id)`: `total = rhbits; for fiber in rank.getFibers(): total += …` -/
def fpGetRank (l : FpLevel) (fibers : List FpRankEntry) : Nat :=
  fibers.foldl (fun total e => total + fpFiber l e.2) l.rhbits

/-- `getTensor()`: `total = getRoot(); for rank in getRankIds(): total += getRank(rank)`.
    Rank `i` (0 = top) of a tensor with `D+1` ranks has height `D - i`. -/
def fpGetTensor (rootBits : Nat) (lv : Nat → FpLevel) (D : Nat) (ranks : List (List FpRankEntry)) : Nat :=
  (List.range (D + 1)).foldl (fun total i => total + fpGetRank (lv (D - i)) (ranks.getD i [])) rootBits

/-! ### specification side: raw walks of the tree -/

/-- Raw walk by depth: every stored fiber `i` levels below `f` (through *all* stored
    elements, empty or not), with its coordinate path and `len`. -/
def fpFibersAt : (d : Nat) → Tree Int ν (d + 1) → Nat → List FpRankEntry
  | d, f, 0 => [(some [], fpOcc d f)]
  | 0, _, _ + 1 => []
  | d + 1, f, i + 1 =>
    (show List (Int × Tree Int ν (d + 1)) from f).flatMap
      (fun e => (fpFibersAt d e.2 i).map (fun r => (r.1.map (e.1 :: ·), r.2)))

/-- C02's `Mirror`, restricted to what footprints read: the fiber list of rank `i` is a
    permutation of the fibers found `i` levels below the root. -/
def FpMirror (D : Nat) (root : Tree Int ν (D + 1)) (ranks : List (List FpRankEntry)) : Prop :=
  ∀ i, i ≤ D → (ranks.getD i []).Perm (fpFibersAt D root i)

def fpMirrorB (D : Nat) (root : Tree Int ν (D + 1)) (ranks : List (List FpRankEntry)) : Bool :=
  (List.range (D + 1)).all (fun i => (ranks.getD i []).isPerm (fpFibersAt D root i))

/-- rank footprint recomputed from the raw walk -/
def fpRankSpec (lv : Nat → FpLevel) (D : Nat) (root : Tree Int ν (D + 1)) (i : Nat) : Nat :=
  (lv (D - i)).rhbits + ((fpFibersAt D root i).map (fun e => fpFiber (lv (D - i)) e.2)).sum

/-- tensor footprint recomputed from the raw walk -/
def fpTensorSpec (rootBits : Nat) (lv : Nat → FpLevel) (D : Nat) (root : Tree Int ν (D + 1)) : Nat :=
  rootBits + ((List.range (D + 1)).map (fpRankSpec lv D root)).sum

/-- a reachable fiber: coordinate path from the start fiber, its height, its `len` -/
abbrev FpReached := List Int × Nat × Nat

/-- Enumeration of the fibers reachable below (and including) `f`. -/
def fpReach [DecidableEq ν] (dflt : ν) (lv : Nat → FpLevel) :
    (d : Nat) → Tree Int ν (d + 1) → List FpReached
  | 0, f => [([], 0, fpOcc 0 f)]
  | d + 1, f => ([], d + 1, fpOcc (d + 1) f) ::
      (fpKids dflt (lv (d + 1)) d f).flatMap
        (fun k => (fpReach dflt lv d k.2).map (fun r => (k.1 :: r.1, r.2)))

/-- Declarative reachability: `f` itself by the empty path; through coordinate `c` of an
    uncompressed rank iff `0 ≤ c < shape` (the child being the stored payload, or an empty
    fiber if absent); through `c` of a compressed rank iff `c` is stored with a non-empty
    payload. -/
def FpReachable [DecidableEq ν] (dflt : ν) (lv : Nat → FpLevel) :
    (d : Nat) → Tree Int ν (d + 1) → List Int → Nat → Nat → Prop
  | 0, f, p, h, o => p = [] ∧ h = 0 ∧ o = fpOcc 0 f
  | d + 1, f, p, h, o =>
    match p with
    | [] => h = d + 1 ∧ o = fpOcc (d + 1) f
    | c :: p' =>
      match (lv (d + 1)).format with
      | .U => 0 ≤ c ∧ c < ((lv (d + 1)).shape : Int) ∧
              FpReachable dflt lv d (fpChildAt d f c) p' h o
      | .C => ∃ g, (c, g) ∈ (show List (Int × Tree Int ν (d + 1)) from f) ∧
              isEmpty dflt (d + 1) g = false ∧ FpReachable dflt lv d g p' h o

/-- Declarative description of the raw walk: the stored fiber at coordinate path `p` below `f`
    has `len = o` (every stored element counts, empty or not). -/
def FpStored : (d : Nat) → Tree Int ν (d + 1) → List Int → Nat → Prop
  | 0, f, p, o => p = [] ∧ o = fpOcc 0 f
  | d + 1, f, p, o =>
    match p with
    | [] => o = fpOcc (d + 1) f
    | c :: p' => ∃ g, (c, g) ∈ (show List (Int × Tree Int ν (d + 1)) from f) ∧ FpStored d g p' o

/-- Every fiber of the tree has pairwise distinct coordinates (`Fiber._checkUnique`): what the
    linear / bisection lookups need to agree with `lookup`; weaker than `WF` (sortedness), so that
    fibers created with `ordered=False` are inside the model. -/
def FpUniq : (d : Nat) → Tree Int ν d → Prop
  | 0, _ => True
  | d + 1, f => (show List (Int × Tree Int ν d) from f).Pairwise (fun a b => a.1 ≠ b.1) ∧
                ∀ e ∈ (show List (Int × Tree Int ν d) from f), FpUniq d e.2

def fpPairwiseNeB : List Int → Bool
  | [] => true
  | c :: r => !r.contains c && fpPairwiseNeB r

def fpUniqB : (d : Nat) → Tree Int ν d → Bool
  | 0, _ => true
  | d + 1, f => fpPairwiseNeB ((show List (Int × Tree Int ν d) from f).map (·.1)) &&
                (show List (Int × Tree Int ν d) from f).all (fun e => fpUniqB d e.2)

/-- sub-tree footprint recomputed from the enumeration of reachable fibers -/
def fpSubTreeSpec [DecidableEq ν] (dflt : ν) (lv : Nat → FpLevel) (d : Nat) (f : Tree Int ν (d + 1)) : Nat :=
  ((fpReach dflt lv d f).map (fun r => fpFiber (lv r.2.1) r.2.2)).sum

/-- the same, from a point prefix of the tensor (adopted reading for a full-length point:
    the leaf rank's element bits, as the code returns) -/
def fpSubTreeAtSpec [DecidableEq ν] (dflt : ν) (lv : Nat → FpLevel) (D : Nat)
    (root : Tree Int ν (D + 1)) (coords : List Int) : Option Nat :=
  if coords.length = D + 1 then some (fpElem (lv 0))
  else (fpDescend D root coords).map (fun it => fpSubTreeSpec dflt lv it.h it.f)

end
end Ft
