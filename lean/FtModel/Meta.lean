/-
  FtModel.Meta — what a tensor *reports about itself* (C14): rank ids, authoritative shape,
  leaf default, per-rank formats, mutability hint, and per-fiber active ranges.

  Mirrors, block by block (fibertree/core/tensor.py unless noted):
    * `_splitGeneric`            (1317-1371)  → `mSplit`
    * `swizzleRanks`             (1396-1406, 1474-1488) → `mSwizzle`
    * `swapRanks`                (1534-1570)  → `mSwap`
    * `flattenRanks`/`mergeRanks` + `_flattenRankIdsShape` (1591-1732) → `mFlatten`
    * `unflattenRanks` + `_unflattenRankIdsShape`          (1772-1838) → `mUnflatten`
    * `updateCoords`/`updatePayloads` (deep copy, 1175-1194)           → `mUpdate`
    * `Tensor.__init__` / `fromFiber` (118-168, 354-384)               → `mFromFiber`, `mEmpty`
    * `Rank.append` shape estimation (rank.py:445-460) + `Rank.getShape` (237-242) → `estShape`
    * lazy results (iterators.py: the `fromIterator(…, active_range=…)` + `setId` pair that ends each of
      coiterRangeShape(Ref), intersection, union, __and__, __or__, __xor__, __lshift__, __sub__;
      fiber.py: end of `prune` (1074-1076) and `project` (1322-1336))                     → `lazyAttrs`
    * `_addFiber` reconciliation + owner delegation (tensor.py:731-753, fiber.py:1448-1572,
      2648-2653)                                                       → `joinShape`, `joined`

  The model functions (`m…`) follow the code as it is (at /repo e4536c9: swizzle restores formats and
  mutability, swap passes the swapped authoritative shape, unflatten passes the default) — formats
  are looked up *by rank id* (`Tensor.getFormat` → `list.index`).
  The specification functions (`s…`) are the documented carry-over (positional).
  Everything is Mathlib-free and executable.
-/
import FtModel.Basic
import FtModel.Split
namespace Ft.C14

/-! ### values that appear as coordinates / shapes / range bounds of flattened ranks -/

/-- Python ints, `float("inf")` and (nested) tuples.  `(a, b, c)` is `cons a (cons b (cons c nil))`. -/
inductive Sx
  | n (v : Int)
  | inf
  | nil
  | cons (h t : Sx)
  deriving DecidableEq, Repr, Inhabited

def Sx.ofList : List Sx → Sx
  | [] => .nil
  | a :: r => .cons a (Sx.ofList r)

/-- `len(s)` of a tuple (0 for anything that is not a tuple) -/
def Sx.len : Sx → Nat
  | .cons _ t => t.len + 1
  | _ => 0

/-- "the coordinate lies inside the shape", componentwise: `0 ≤ c < s` on integers,
    same structure on tuples -/
def Sx.inShape : Sx → Sx → Bool
  | .n c, .n s => decide (0 ≤ c) && decide (c < s)
  | .nil, .nil => true
  | .cons c cs, .cons s ss => Sx.inShape c s && Sx.inShape cs ss
  | _, _ => false

/-- Python's `<`/`==`/`>` on such values; `none` is the `TypeError` of comparing an int with a tuple -/
def Sx.cmp : Sx → Sx → Option Ordering
  | .n a, .n b => some (compare a b)
  | .n _, .inf => some .lt
  | .inf, .n _ => some .gt
  | .inf, .inf => some .eq
  | .nil, .nil => some .eq
  | .nil, .cons _ _ => some .lt
  | .cons _ _, .nil => some .gt
  | .cons a as, .cons b bs =>
    match Sx.cmp a b with
    | some .eq => Sx.cmp as bs
    | r => r
  | _, _ => none

/-- `lo <= c < hi` as `iterRange` evaluates it (a `TypeError` counts as "not inside") -/
def Sx.inRange (lo hi c : Sx) : Bool :=
  (match Sx.cmp lo c with | some .lt => true | some .eq => true | _ => false) &&
  (match Sx.cmp c hi with | some .lt => true | _ => false)

/-! ### the observation of a (result) tensor's fibers, and the bounds invariant -/

/-- one fiber: its stored coordinates and `getActive()` -/
structure FObs where
  coords : List Sx
  lo : Sx
  hi : Sx
  deriving DecidableEq, Repr

def fiberInShape (s : Sx) (f : FObs) : Bool := f.coords.all (fun c => c.inShape s)
def fiberInActive (f : FObs) : Bool := f.coords.all (fun c => Sx.inRange f.lo f.hi c)

/-- **the invariant**: every stored coordinate of every fiber of level `i` lies inside `shape[i]`
    and inside that fiber's active range.  `lv[i]` lists the fibers of level `i`. -/
def boundsB (shape : List Sx) (lv : List (List FObs)) : Bool :=
  decide (lv.length ≤ shape.length) &&
  (lv.zip shape).all (fun p => p.1.all (fun f => fiberInShape p.2 f && fiberInActive f))

/-- the levels at which the invariant fails, tagged `shape@i` / `active@i` (for reports) -/
def boundsFailures (shape : List Sx) (lv : List (List FObs)) : List String :=
  ((lv.zip shape).zipIdx).flatMap (fun q =>
    (if q.1.1.all (fiberInShape q.1.2) then [] else [s!"shape@{q.2}"]) ++
    (if q.1.1.all fiberInActive then [] else [s!"active@{q.2}"])) ++
  (if lv.length ≤ shape.length then [] else ["depth"])

/-! ### rank ids, formats, Meta -/

/-- a rank id is a string, or — after a flatten — the list of the merged ids -/
inductive RId
  | one (s : String)
  | many (l : List String)
  deriving DecidableEq, Repr, Inhabited

def RId.toList : RId → List String
  | .one s => [s]
  | .many l => l

inductive Fmt | C | U
  deriving DecidableEq, Repr, Inhabited

inductive Style | tuple | pair | absolute | relative | linear
  deriving DecidableEq, Repr

structure Meta where
  ids   : List RId
  /-- `getShape(authoritative=True)`: `none` when some rank's shape is only estimated -/
  shape : Option (List Sx)
  dflt  : Int
  fmts  : List Fmt
  mutable : Bool
  deriving DecidableEq, Repr

/-- what the transforms assume silently: one format per rank, shape as long as the id list,
    ids pairwise distinct -/
def Meta.wfB (m : Meta) : Bool :=
  decide (m.fmts.length = m.ids.length) &&
  (match m.shape with | none => true | some s => decide (s.length = m.ids.length)) &&
  decide m.ids.Nodup

/-- `xs[ids.index(r)]` — how the code finds "the entry of rank `r`" (`Tensor.getFormat`,
    `old_rank_ids.index(rank_id)` in swizzle): the first position whose id equals `r` -/
def lookD {α : Type} (ids : List RId) (xs : List α) (r : RId) (dflt : α) : α :=
  match ids, xs with
  | i :: is, x :: xs => if i = r then x else lookD is xs r dflt
  | _, _ => dflt

/-- `Tensor.getFormat(rank_id)`: `self.ranks[rank_ids.index(rank_id)].getFormat()` -/
def Meta.getFmt (m : Meta) (r : RId) : Fmt := lookD m.ids m.fmts r .C

/-- "Maintain the formats for untouched rank ids, compress everything else" (tensor.py:1606-1610) -/
def Meta.fmtOrC (m : Meta) (r : RId) : Fmt := if r ∈ m.ids then m.getFmt r else .C

/-! ### split (`_splitGeneric`) -/

/-- `rank_ids[depth] = f"{id}.1"; rank_ids.insert(depth + 1, f"{id}.0")` -/
def splitIds (k : Nat) (s : String) (ids : List RId) : List RId :=
  ids.take k ++ [.one (s ++ ".1"), .one (s ++ ".0")] ++ ids.drop (k + 1)

/-- `shape.insert(depth + 1, shape[depth])`: entry `k` is duplicated -/
def dupAt {α : Type} (k : Nat) (l : List α) : List α := l.take (k + 1) ++ l.drop k

def mSplit (k : Nat) (m : Meta) : Option Meta :=
  match m.ids[k]? with
  | some (.one s) =>
    let ids' := splitIds k s m.ids
    some { ids := ids'
           shape := m.shape.map (dupAt k)
           dflt := m.dflt
           fmts := ids'.map (fun r =>
             if r = .one (s ++ ".1") then m.getFmt (.one s)
             else if r = .one (s ++ ".0") then m.getFmt (.one s)
             else m.getFmt r)
           mutable := m.mutable }
  | _ => none

/-- documented: X → X.1, X.0; the split rank's shape entry is duplicated; default and mutability
    kept; both halves inherit X's format, every other rank keeps its own -/
def sSplit (k : Nat) (m : Meta) : Option Meta :=
  match m.ids[k]? with
  | some (.one s) =>
    some { ids := splitIds k s m.ids, shape := m.shape.map (dupAt k), dflt := m.dflt
           fmts := dupAt k m.fmts, mutable := m.mutable }
  | _ => none

/-! ### swizzle -/

/-- the loop at tensor.py:1408-1412: number of leading ranks that have to be re-arranged -/
def swizLen (ids order : List RId) : Nat :=
  order.length - ((ids.reverse.zip order.reverse).takeWhile (fun p => p.1 = p.2)).length

def mSwizzle (order : List RId) (m : Meta) : Meta :=
  if m.ids = order then m            -- `copied = copy.deepcopy(self)`; only the name changes
  else
    let n := swizLen m.ids order
    { ids := order
      -- `[old_shape[guide[i]] for i in range(swiz_len)] + old_shape[swiz_len:]`,
      -- `guide[i] = old_rank_ids.index(rank_ids[i])`
      shape := m.shape.map (fun s => (order.take n).map (fun r => lookD m.ids s r default) ++ s.drop n)
      dflt := m.dflt
      -- since /repo ba838e8: `for rank_id in rank_ids: swizzled.setFormat(rank_id, self.getFormat(rank_id))`
      fmts := order.map (fun r => m.getFmt r)
      mutable := m.mutable }                  -- … and `swizzled.setMutable(self.isMutable())`

/-- documented: the requested order; shape, formats permuted alike; default, mutability kept -/
def sSwizzle (order : List RId) (m : Meta) : Meta :=
  { ids := order
    shape := m.shape.map (fun s => order.map (fun r => lookD m.ids s r default))
    dflt := m.dflt
    fmts := order.map (fun r => m.getFmt r)
    mutable := m.mutable }

/-- the loop that ends `swizzleRanks` ("For each fiber, reset its active range", tensor.py): a rebuilt
    non-empty fiber of rank X gets `(min of the starts of the operand's rank-X ranges that contain
    its first coordinate, max of the ends of those that contain its last coordinate)`;
    `none` is the `ValueError` of `min([])` / `max([])` -/
def swizReset (ranges : List (Int × Int)) (coords : List Int) : Option (Int × Int) :=
  match coords.head?, coords.getLast? with
  | some c0, some c1 =>
    let starts := (ranges.filter (fun r => decide (r.1 ≤ c0) && decide (c0 < r.2))).map (·.1)
    let ends := (ranges.filter (fun r => decide (r.1 ≤ c1) && decide (c1 < r.2))).map (·.2)
    match starts, ends with
    | s :: ss, e :: es => some (ss.foldl min s, es.foldl max e)
    | _, _ => none
  | _, _ => none

/-! ### swap -/

def swapAt {α : Type} (k : Nat) (l : List α) : List α :=
  l.take k ++ (l.drop (k + 1)).take 1 ++ (l.drop k).take 1 ++ l.drop (k + 2)

/-- since /repo 38ce55b the operand's authoritative shape is passed on with entries `k`, `k+1`
    exchanged (`shape[depth], shape[depth + 1] = shape[depth + 1], shape[depth]`), in both branches
    (real swap / deep copy of an all-empty rank); formats are looked up by id -/
def mSwap (k : Nat) (m : Meta) : Option Meta :=
  if k + 1 < m.ids.length then
    let ids' := swapAt k m.ids
    some { ids := ids'
           shape := m.shape.map (swapAt k)
           dflt := m.dflt
           fmts := ids'.map (fun r => m.getFmt r)
           mutable := m.mutable }
  else none

def sSwap (k : Nat) (m : Meta) : Option Meta :=
  if k + 1 < m.ids.length then
    some { ids := swapAt k m.ids, shape := m.shape.map (swapAt k), dflt := m.dflt
           fmts := swapAt k m.fmts, mutable := m.mutable }
  else none

/-! ### flatten / merge -/

/-- ids `k … k+levels` merged into one list id (tensor.py:1662-1677) -/
def flatIds (k levels : Nat) (ids : List RId) : List RId :=
  ids.take k ++ [.many (((ids.drop k).take (levels + 1)).flatMap RId.toList)] ++ ids.drop (k + levels + 1)

/-- `(S0, (S1, (… (Sn-1, Sn))))` -/
def nestPair : List Sx → Sx
  | [] => .nil
  | [a] => .cons a .nil
  | [a, b] => .cons a (.cons b .nil)
  | a :: r => .cons a (.cons (nestPair r) .nil)

def sxProd : List Sx → Option Int
  | [] => some 1
  | .n v :: r => (sxProd r).map (v * ·)
  | _ => none

/-- the shape entry of the merged rank (tensor.py:1694-1726) -/
def flatEntry (style : Style) (seg : List Sx) : Option Sx :=
  match style with
  | .tuple => some (Sx.ofList seg)
  | .pair => some (nestPair seg)
  | .absolute => seg.getLast?
  | .relative => seg.head?
  | .linear => (sxProd seg).map Sx.n

def flatShape (style : Style) (k levels : Nat) (s : List Sx) : Option (List Sx) :=
  (flatEntry style ((s.drop k).take (levels + 1))).map (fun e => s.take k ++ [e] ++ s.drop (k + levels + 1))

def mFlatten (style : Style) (k levels : Nat) (m : Meta) : Option Meta :=
  if 1 ≤ levels ∧ k + levels < m.ids.length then
    let ids' := flatIds k levels m.ids
    match m.shape with
    | none => some { ids := ids', shape := none, dflt := m.dflt, fmts := ids'.map m.fmtOrC, mutable := m.mutable }
    | some s =>
      (flatShape style k levels s).map (fun s' =>
        { ids := ids', shape := some s', dflt := m.dflt, fmts := ids'.map m.fmtOrC, mutable := m.mutable })
  else none

/-- documented: merged id list; shape entry per coordinate style; default, mutability kept;
    surviving ranks keep their format, the merged rank is compressed -/
def sFlatten (style : Style) (k levels : Nat) (m : Meta) : Option Meta :=
  if 1 ≤ levels ∧ k + levels < m.ids.length then
    let fm := m.fmts.take k ++ [Fmt.C] ++ m.fmts.drop (k + levels + 1)
    match m.shape with
    | none => some { ids := flatIds k levels m.ids, shape := none, dflt := m.dflt, fmts := fm, mutable := m.mutable }
    | some s =>
      (flatShape style k levels s).map (fun s' =>
        { ids := flatIds k levels m.ids, shape := some s', dflt := m.dflt, fmts := fm, mutable := m.mutable })
  else none

/-! ### unflatten -/

/-- the loop at tensor.py:1817-1823: `id[0]`, then `id[1]` (two members) or `id[1:]` -/
def unflIds : Nat → Nat → List RId → Option (List RId)
  | 0, _, ids => some ids
  | l + 1, k, ids =>
    match ids[k]? with
    | some (.many [a, b]) => unflIds l (k + 1) (ids.take k ++ [.one a, .one b] ++ ids.drop (k + 1))
    | some (.many (a :: b :: c :: r)) =>
      unflIds l (k + 1) (ids.take k ++ [.one a, .many (b :: c :: r)] ++ ids.drop (k + 1))
    | _ => none

/-- the loop at tensor.py:1830-1836 on the shape list -/
def unflShape : Nat → Nat → List Sx → Option (List Sx)
  | 0, _, s => some s
  | l + 1, k, s =>
    match s[k]? with
    | some (.cons a (.cons b .nil)) => unflShape l (k + 1) (s.take k ++ [a, b] ++ s.drop (k + 1))
    | some (.cons a (.cons b (.cons c r))) =>
      unflShape l (k + 1) (s.take k ++ [a, .cons b (.cons c r)] ++ s.drop (k + 1))
    | _ => none

/-- since /repo COMMIT:C14-01 only the authoritative shape is re-arranged and passed on (before, the
    possibly estimated `self.getShape()` was); the leaf default is passed to `Tensor.fromFiber`
    (e4536c9); formats are looked up by id -/
def mUnflatten (k levels : Nat) (m : Meta) : Option Meta :=
  match unflIds levels k m.ids with
  | none => none
  | some ids' =>
    match m.shape with
    | none => some { ids := ids', shape := none, dflt := m.dflt, fmts := ids'.map m.fmtOrC, mutable := m.mutable }
    | some s => (unflShape levels k s).map (fun s' =>
        { ids := ids', shape := some s', dflt := m.dflt, fmts := ids'.map m.fmtOrC, mutable := m.mutable })

/-- documented: the inverse re-arrangement of ids and (authoritative) shape; default, mutability
    kept; surviving ranks keep their format, the `levels + 1` new ranks are compressed -/
def sUnflatten (k levels : Nat) (m : Meta) : Option Meta :=
  match unflIds levels k m.ids with
  | none => none
  | some ids' =>
    let fm := m.fmts.take k ++ List.replicate (levels + 1) Fmt.C ++ m.fmts.drop (k + 1)
    match m.shape with
    | none => some { ids := ids', shape := none, dflt := m.dflt, fmts := fm, mutable := m.mutable }
    | some s => (unflShape levels k s).map (fun s' =>
        { ids := ids', shape := some s', dflt := m.dflt, fmts := fm, mutable := m.mutable })

/-! ### update, constructors -/

/-- `copy.deepcopy(self)` then an in-place change of the root -/
def mUpdate (m : Meta) : Meta := m

/-- `Tensor.fromFiber(rank_ids, fiber, shape, default=…)`; `Tensor.fromUncompressed` and
    `fromRandom` end here with a declared shape -/
def mFromFiber (ids : List RId) (shape : Option (List Sx)) (dflt : Int) : Meta :=
  { ids := ids, shape := shape, dflt := dflt, fmts := ids.map (fun _ => Fmt.C), mutable := false }

/-- `Tensor(rank_ids=…, shape=…, default=…)` (an empty, mutable tensor); `makePopulated` also
    ends with `setMutable(True)` -/
def mEmpty (ids : List RId) (shape : Option (List Sx)) (dflt : Int) : Meta :=
  { mFromFiber ids shape dflt with mutable := true }

/-! ### shape estimation -/

section
variable {ν : Type}

/-- the coordinate lists of the fibers of level `i`, left to right -/
def fibersAt : (d : Nat) → Tree Int ν d → Nat → List (List Int)
  | 0, _, _ => []
  | _ + 1, f, 0 => [(show List (Int × Tree Int ν _) from f).map (·.1)]
  | d + 1, f, i + 1 => (show List (Int × Tree Int ν d) from f).flatMap (fun e => fibersAt d e.2 i)

/-- `Fiber.estimateShape(all_ranks=False)`: `maxCoord() + 1` = last stored coordinate + 1, 0 if empty -/
def estFiber (cs : List Int) : Int :=
  match cs.getLast? with
  | some c => c + 1
  | none => 0

/-- `Rank.append` on a rank without declared shape: `old is None and new != 0 → new`,
    `new != 0 → max(old, new)` -/
def estStep (old : Option Int) (cs : List Int) : Option Int :=
  let new := estFiber cs
  match old with
  | none => if new ≠ 0 then some new else none
  | some o => if new ≠ 0 then some (max o new) else some o

/-- … and `Rank.getShape`: the recorded value, or 0 (no fibers / only empty fibers) -/
def estLevel (fs : List (List Int)) : Int := (fs.foldl estStep none).getD 0

def estShape (d : Nat) (t : Tree Int ν d) : List Int :=
  (List.range d).map (fun i => estLevel (fibersAt d t i))

/-- fibers of a freshly constructed tensor carry no explicit range: `getActive()` = `(0, shape)` -/
def ctorLevels (d : Nat) (t : Tree Int ν d) (shape : List Int) : List (List FObs) :=
  (List.range d).map (fun i =>
    (fibersAt d t i).map (fun cs => ⟨cs.map Sx.n, .n 0, .n (shape.getD i 0)⟩))

/-- strictly ascending coordinates (`_checkOrdered` + `_checkUnique`) -/
def ascB : List Int → Bool
  | [] => true
  | [_] => true
  | a :: b :: r => decide (a < b) && ascB (b :: r)

/-- every fiber of the tree stores strictly ascending coordinates (C01's order clause) -/
def levelsAscB (d : Nat) (t : Tree Int ν d) : Bool :=
  (List.range d).all (fun i => (fibersAt d t i).all ascB)

def nonnegB (d : Nat) (t : Tree Int ν d) : Bool :=
  (List.range d).all (fun i => (fibersAt d t i).all (fun cs => cs.all (fun c => decide (0 ≤ c))))

end

/-! ### flattening two levels of fibers (`_mergeRanksHelper`, styles tuple / pair, one level) -/

section
variable {π : Type}

/-- a fiber with its active range -/
structure AF (π : Type) where
  elems : Fib Int π
  lo : Int
  hi : Int

/-- coordinates `(c1, c0)` in storage order -/
def flat2 (f : Fib Int (AF π)) : Fib (Int × Int) π :=
  f.flatMap (fun e => e.2.elems.map (fun x => ((e.1, x.1), x.2)))

/-- `range_start = min(...)`, `range_end = max(...)` over the children (fiber.py:4304-4308);
    `(0, inf)` is not representable on `Int`: the caller must have at least one child -/
def childLo (f : Fib Int (AF π)) : Option Int :=
  match f with
  | [] => none
  | e :: r => some (r.foldl (fun a x => min a x.2.lo) e.2.lo)

def childHi (f : Fib Int (AF π)) : Option Int :=
  match f with
  | [] => none
  | e :: r => some (r.foldl (fun a x => max a x.2.hi) e.2.hi)

/-- lexicographic `(a1, a0) ≤ (c1, c0)` and `<` -/
def lexLe (a c : Int × Int) : Bool := decide (a.1 < c.1) || (decide (a.1 = c.1) && decide (a.2 ≤ c.2))
def lexLt (a c : Int × Int) : Bool := decide (a.1 < c.1) || (decide (a.1 = c.1) && decide (a.2 < c.2))

end

/-! ### lazily produced fibers -/

/-- what a fiber reports through `getRankAttrs().getId()` and `getActive()` -/
structure FAttr where
  id : String
  lo : Int
  hi : Int
  deriving DecidableEq, Repr

inductive LazyOp
  | and | or | xor | sub | prune | intersection | union
  | populate                                   -- `z << b`: first operand is the destination
  | coiterActiveShape
  | coiterRangeShape (lo hi : Int)             -- also `coiterShape` with `(0, shape)`
  /-- `project(trans_fn = c ↦ k·c + m, interval, rank_id)` -/
  | project (k m : Int) (interval : Option (Int × Int)) (rankId : Option String)
  deriving DecidableEq, Repr

def affine (k m c : Int) : Int := k * c + m

/-- `project` (fiber.py:1322-1331) without interval: the transformed active range -/
def projRange (k m lo hi : Int) : Int × Int :=
  let s := affine k m lo
  let e := affine k m (hi - 1)
  (min s e, max s e + 1)

/-- the attributes the code gives the lazy result (`a` first operand, `b` second) -/
def lazyAttrs (op : LazyOp) (a b : FAttr) : FAttr :=
  match op with
  | .populate => ⟨a.id, b.lo, b.hi⟩
  | .coiterRangeShape lo hi => ⟨a.id, lo, hi⟩
  | .project k m iv rid =>
    let r := match iv with | some i => i | none => projRange k m a.lo a.hi
    ⟨rid.getD "Unknown", r.1, r.2⟩           -- `setId` only `if rank_id is not None`
  | _ => ⟨a.id, a.lo, a.hi⟩

/-- the default a lazy result reports (`getDefault()`): a scalar, or the tuple
    `("", d_1, …, d_n)` of a union-like result (the mask slot is not represented) -/
inductive LDflt
  | scalar (v : Int)
  | mask (ds : List Int)
  deriving DecidableEq, Repr

/-- as the code has it: `| ^` and `union` set `("", defaults…)`, `-`, `prune`, `project` copy the first
    operand's default, everything else keeps the 0 of the fresh `Fiber()` made by `fromIterator`;
    `nUnion` = number of operands of `Fiber.union` after the first -/
def lazyDefault (op : LazyOp) (da db : Int) (nUnion : Nat) : LDflt :=
  match op with
  | .or | .xor => .mask [da, db]
  | .union => .mask (da :: List.replicate nUnion db)
  | .sub | .prune | .project .. => .scalar da
  | _ => .scalar 0

/-- the statement: first operand's id (the requested target id for a projection that names one),
    and the active range the operation defines -/
def lazySpec (op : LazyOp) (a b : FAttr) : FAttr :=
  match op with
  | .populate => ⟨a.id, b.lo, b.hi⟩
  | .coiterRangeShape lo hi => ⟨a.id, lo, hi⟩
  | .project k m iv rid =>
    let r := match iv with | some i => i | none => projRange k m a.lo a.hi
    ⟨rid.getD a.id, r.1, r.2⟩
  | _ => ⟨a.id, a.lo, a.hi⟩

/-! ### an unowned fiber joins a tensor -/

/-- the attributes an unowned fiber holds itself (`_rank_attrs`) -/
structure OwnAttrs where
  id : String
  shape : Option Int
  dflt : Int
  fmt : Fmt
  deriving DecidableEq, Repr

structure RankAttrs where
  id : String
  shape : Option Int
  estimated : Bool
  dflt : Int
  fmt : Fmt
  deriving DecidableEq, Repr

/-- `_addFiber` (tensor.py:738-751) then `Rank.append` (rank.py:445-460) for one fiber whose
    own estimate is `est` -/
def joinShape (r : RankAttrs) (own : Option Int) (est : Int) : RankAttrs :=
  let r1 : RankAttrs :=
    match own with
    | some fs =>
      if fs ≠ 0 then
        match r.shape with
        | some rs => if rs ≠ 0 then { r with shape := some (max fs rs) }
                     else { r with shape := some fs, estimated := false }
        | none => { r with shape := some fs, estimated := false }
      else r
    | none => r
  if r1.estimated then
    let new := own.getD est
    match r1.shape with
    | none => if new ≠ 0 then { r1 with shape := some new } else r1
    | some o => if new ≠ 0 then { r1 with shape := some (max o new) } else r1
  else r1

/-- what the fiber reports once owned: everything comes from the rank (`getRankAttrs`,
    `getDefault`, `getShape` delegate to the owner) -/
def joined (r : RankAttrs) (_own : OwnAttrs) : OwnAttrs :=
  ⟨r.id, r.shape, r.dflt, r.fmt⟩

end Ft.C14
