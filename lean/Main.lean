import FtDriver
open Lean (Json)
open FtDriver

def dispatch (j : Json) : Except String Verdict := do
  let prop ← fStr j "prop"
  match prop with
  | "C01" => handleC01 j
  | "C02" => handleC02 j
  | "C03" => handleC03 j
  | "C04" => handleC04 j
  | "C05" => handleC05 j
  | "C06" => handleC06 j
  | "C07" => handleC07 j
  | "C08" => handleC08 j
  | "C09" => handleC09 j
  | "C10" => handleC10 j
  | "C11" => handleC11 j
  | "C12" => handleC12 j
  | "C13" => handleC13 j
  | "C14" => handleC14 j
  | "C15" => handleC15 j
  | "C16" => handleC16 j
  | "C17" => handleC17 j
  | "C18" => handleC18 j
  | "C19" => handleC19 j
  | "C20" => handleC20 j
  | _ => throw s!"unknown property {prop}"

def answer (line : String) : String :=
  match Json.parse line with
  | .error e => (Json.mkObj [("error", Json.str s!"parse: {e}")]).compress
  | .ok j =>
    let id := (j.getObjVal? "id").toOption.getD Json.null
    match dispatch j with
    | .ok v => (v.toJson id).compress
    | .error e => (Json.mkObj [("id", id), ("error", Json.str e)]).compress

partial def loop (hin hout : IO.FS.Stream) : IO Unit := do
  let line ← hin.getLine
  if line.isEmpty then return ()
  let l := line.trimAscii.toString
  if !l.isEmpty then
    hout.putStrLn (answer l)
  loop hin hout

def main : IO Unit := do
  let hin ← IO.getStdin
  let hout ← IO.getStdout
  loop hin hout
  hout.flush
