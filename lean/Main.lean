import FtDriver
open Lean (Json)
open FtDriver

def dispatch (j : Json) : Except String Verdict := do
  let prop ← fStr j "prop"
  match prop with
  | "C04" => handleC04 j
  | _ => throw s!"unknown property {prop}"

def answer (line : String) : String :=
  match Json.parse line with
  | .error e => (Json.mkObj [("error", Json.str s!"parse: {e}")]).compress
  | .ok j =>
    let id := (j.getObjVal? "id").toOption.getD Json.null
    match dispatch j with
    | .ok v => (v.toJson id).compress
    | .error e => (Json.mkObj [("id", id), ("error", Json.str e)]).compress

partial def loop (hin hout : IO.FS.Stream) : IO Unit := do
  let line ← hin.getLine
  if line.isEmpty then return ()
  let l := line.trimAscii.toString
  if !l.isEmpty then
    hout.putStrLn (answer l)
  loop hin hout

def main : IO Unit := do
  let hin ← IO.getStdin
  let hout ← IO.getStdout
  loop hin hout
  hout.flush
