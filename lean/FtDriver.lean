import FtDriver.Json
import FtDriver.C04
