import FtDriver.Json
open Lean (Json)
namespace FtDriver
open Ft

def hasResidue (dflt : Int) (d : Nat) (t : T d) : Bool := !canonicalB dflt d t

def handleC12 (j : Json) : Except String Verdict := do
  let op ← fStr j "op"
  let d ← fNat j "d"          -- trees have depth d+1
  let da := fIntD j "da" 0
  let a ← fTree j "a" (d + 1)
  if !wfB (d + 1) a then return { agree := true, spec := true, tags := ["OUT_OF_MODEL"] }
  let resTag := if hasResidue da (d + 1) a then ["residueA"] else []
  match op with
  | "eq" =>
    let db := fIntD j "db" 0
    let b ← fTree j "b" (d + 1)
    if !wfB (d + 1) b then return { agree := true, spec := true, tags := ["OUT_OF_MODEL"] }
    let impl ← (← field j "impl").getBool?
    let m := fiberEq da db (d + 1) a b
    let ca := content da (d + 1) a
    let cb := content db (d + 1) b
    let s := decide (ca = cb)
    let tags := resTag ++ (if hasResidue db (d + 1) b then ["residueB"] else []) ++
      (if s then ["equal"] else ["differ"]) ++ (if ca.isEmpty then ["emptyA"] else []) ++
      (if !s && ca.length == cb.length && ((ca.zip cb).filter (fun p => p.1 != p.2)).length == 1 then ["differ-one-point"] else [])
    pure { agree := m == impl, spec := s == impl, model := Json.bool m, tags }
  | "teq" =>
    let db := fIntD j "db" 0
    let b ← fTree j "b" (d + 1)
    if !wfB (d + 1) b then return { agree := true, spec := true, tags := ["OUT_OF_MODEL"] }
    let impl ← (← field j "impl").getBool?
    let idsA ← (← fArr j "idsA").mapM (·.getStr?)
    let idsB ← (← fArr j "idsB").mapM (·.getStr?)
    let m := decide (idsA = idsB) && fiberEq da db (d + 1) a b
    let s := decide (idsA = idsB) && decide (content da (d + 1) a = content db (d + 1) b)
    pure { agree := m == impl, spec := s == impl, model := Json.bool m,
           tags := resTag ++ (if s then ["equal"] else ["differ"]) ++ (if idsA = idsB then [] else ["ids-differ"]) }
  | "isempty" =>
    let impl ← (← field j "impl").getBool?
    let m := isEmpty da (d + 1) a
    let s := (content da (d + 1) a).isEmpty
    pure { agree := m == impl, spec := s == impl, model := Json.bool m,
           tags := resTag ++ (if s then ["empty"] else ["nonempty"]) }
  | "count" | "tcount" =>
    let impl ← fNat j "impl"
    let m := countValues da (d + 1) a
    let s := (content da (d + 1) a).length
    pure { agree := m == impl, spec := s == impl, model := jNat m, tags := resTag ++ (if s == 0 then ["empty"] else ["nonempty"]) }
  | "nonempty" =>
    let impl ← fTree j "impl" (d + 1)
    let m := nonEmpty da (d + 1) a
    let s := canonicalB da (d + 1) impl && wfB (d + 1) impl &&
      decide (content da (d + 1) impl = content da (d + 1) a)
    let ag := treeEq (d + 1) m impl
    pure { agree := ag, spec := s, model := treeToJson (d + 1) m, tags := resTag }
  | _ => throw s!"C12: unknown op {op}"

end FtDriver
