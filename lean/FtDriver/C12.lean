import FtDriver.Json
open Lean (Json)
namespace FtDriver
open Ft

def handleC12 (_j : Json) : Except String Verdict := throw "C12: not implemented"

end FtDriver
