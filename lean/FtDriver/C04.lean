import FtDriver.Json
open Lean (Json)
namespace FtDriver
open Ft

/-- presented elements of a compressed fiber, carrying their storage position -/
def presentPos (dflt : Int) (d : Nat) (f : T (d + 1)) : Fib Int Nat :=
  (((show List (Int × T d) from f).zipIdx).filter (fun e => !isEmpty dflt d e.1.2)).map
    (fun e => (e.1.1, e.2))

def maskOfStr : String → Except String Mask
  | "A" => pure .A | "B" => pure .B | "AB" => pure .AB | s => throw s!"bad mask {s}"

def mergeTags (pa pb : Fib Int Nat) (rawA rawB : Nat) : List String :=
  let la := pa.getLast?.map (·.1); let lb := pb.getLast?.map (·.1)
  (if pa.isEmpty then ["emptyA"] else []) ++ (if pb.isEmpty then ["emptyB"] else []) ++
  (if pa.length < rawA then ["skipA"] else []) ++ (if pb.length < rawB then ["skipB"] else []) ++
  (if pa.any (fun e => hasCoord pb e.1) then ["match"] else []) ++
  (match la, lb with
   | some x, some y => if x < y then ["tailB"] else if y < x then ["tailA"] else ["tailNone"]
   | _, _ => [])

/-- what `__iter__` presents, with payload references: `some pos` = the operand's stored payload at
    that position, `none` = a freshly synthesised default.  Format "C": the non-empty stored elements;
    format "U" with shape `n`: every coordinate `0..n-1` (stored payload, explicit defaults included,
    or a fresh default) -/
def presentRef (fmt : String) (lo shape : Nat) (dflt : Int) (d : Nat) (f : T (d + 1)) : Fib Int (Option Nat) :=
  -- "U": `Ft.presentDense` = C07's dense iteration over [lo, shape) (theorem `presentDense_spec`)
  if fmt == "U" then presentDense (defaultTree dflt d) (Int.ofNat lo) (Int.ofNat shape) (show Fib Int (T d) from f)
  else (presentPos dflt d f).map (fun e => (e.1, some e.2))

def rawRef (d : Nat) (f : T (d + 1)) : Fib Int Nat :=
  ((show List (Int × T d) from f).zipIdx).map (fun e => (e.1.1, e.2))

def optPosJson (o : Option (Option Nat)) : Json :=
  match o with
  | some (some p) => jNat p
  | _ => jInt (-1)

def handleNary (j : Json) (op : String) : Except String Verdict := do
  let d ← fNat j "d"
  let dflt := fIntD j "dflt" 0
  let opsJ ← fArr j "ops"
  let ops ← opsJ.mapM (parseTree (d + 1))
  if !(ops.all (wfB (d + 1))) || ops.isEmpty then return { agree := true, spec := true, tags := ["OUT_OF_MODEL"] }
  let impl ← fArr j "impl"
  let pres := ops.map (presentPos dflt d)
  let tags := [s!"k{ops.length}"] ++ (if pres.any (·.isEmpty) then ["some-empty"] else [])
  -- n-ary intersection with operands of uncompressed ranks ("fmtN": per operand null or {fmt, lo, sh}): every
  -- operand is presented with payload references (`presentRef`), a fresh default being `none`
  match j.getObjVal? "fmtN" with
  | .ok (Json.arr fm) =>
    if op != "nand" then throw "fmtN is generated for nand only"
    let presR : List (Fib Int (Option Nat)) := (ops.zip fm.toList).map (fun (o, f) =>
      match f with
      | Json.null => presentRef "C" 0 0 dflt d o
      | fj => presentRef "U" ((fNat fj "lo").toOption.getD 0) ((fNat fj "sh").toOption.getD 0) dflt d o)
    match presR with
    | [] => throw "nand without operands"
    | a :: rest =>
      let rows ← impl.mapM (fun r => do
        match (← asList r) with
        | [c, ps] => do pure ((← c.getInt?), (← asInts ps).map optPos)
        | _ => throw "nand row")
      let m := naryAnd a rest
      return { agree := decide (m = rows), spec := decide (rows = naryAndSpec a rest),
               model := jList (m.map (fun r => jList [jInt r.1, jList (r.2.map posJson)])),
               tags := tags ++ ["nary-U"] ++ (if m.isEmpty then ["empty-result"] else ["nonempty-result"]) }
  | _ => pure ()
  match op, pres with
  | "nand", a :: rest =>
    let rows ← impl.mapM (fun r => do
      match (← asList r) with
      | [c, ps] => do pure ((← c.getInt?), (← asInts ps).map (·.toNat))
      | _ => throw "nand row")
    let m := naryAnd a rest
    pure { agree := decide (m = rows), spec := decide (rows = naryAndSpec a rest),
           model := jList (m.map (fun r => jList [jInt r.1, jList (r.2.map jNat)])),
           tags := tags ++ (if m.isEmpty then ["empty-result"] else ["nonempty-result"]) }
  | "nor", a :: rest =>
    let rows ← impl.mapM (fun r => do
      match (← asList r) with
      | [c, m, ps] => do pure ((← c.getInt?), (← m.getStr?), (← asInts ps).map optPos)
      | _ => throw "nor row")
    let m := naryOr a rest
    let rowsP : Fib Int (List (Option Nat)) := rows.map (fun r => (r.1, r.2.2))
    let maskOk := rows.all (fun r => r.2.1 == naryMask r.2.2)
    pure { agree := decide (m = rowsP) && maskOk, spec := naryOrSpecB (a :: rest) rowsP && maskOk,
           model := jList (m.map (fun r => jList [jInt r.1, Json.str (naryMask r.2), jList (r.2.map posJson)])),
           tags := tags ++ (if m.isEmpty then ["empty-result"] else ["nonempty-result"]) }
  | "lf", _ :: _ =>
    if fStrD j "fmt0" "C" == "U" then
      -- the leader's rank is declared uncompressed: it presents its whole active range [lo0, sh0), with its
      -- stored payload (explicit defaults included) or a fresh default
      let lo0 := (fNat j "lo0").toOption.getD 0
      let sh0 := (fNat j "sh0").toOption.getD 0
      let aU : Fib Int (Option Nat) := match ops with | o :: _ => presentRef "U" lo0 sh0 dflt d o | [] => []
      let followersU := (ops.drop 1).map (rawRef d)
      let rowsU ← impl.mapM (fun r => do
        match (← asList r) with
        | [c, pa, ps] => do pure ((← c.getInt?), (optPos (← pa.getInt?), (← asInts ps).map optPos))
        | _ => throw "lf row")
      let mU := leaderFollower aU followersU
      let specU := aU.map (fun e => (e.1, (e.2, followersU.map (fun b => lookup b e.1))))
      return { agree := decide (mU = rowsU), spec := decide (rowsU = specU),
               model := jList (mU.map (fun r => jList [jInt r.1, posJson r.2.1, jList (r.2.2.map posJson)])),
               tags := tags ++ ["leader-U"] }
    match pres with
    | [] => throw "lf without operands"
    | a :: _ =>
    -- followers are searched by position in their raw stored elements
    let followers := (ops.drop 1).map (rawRef d)
    let rows ← impl.mapM (fun r => do
      match (← asList r) with
      | [c, pa, ps] => do pure ((← c.getInt?), ((← pa.getNat?), (← asInts ps).map optPos))
      | _ => throw "lf row")
    let m := leaderFollower a followers
    let spec := a.map (fun e => (e.1, (e.2, followers.map (fun b => lookup b e.1))))
    pure { agree := decide (m = rows), spec := decide (rows = spec),
           model := jList (m.map (fun r => jList [jInt r.1, jNat r.2.1, jList (r.2.2.map posJson)])),
           tags := tags ++ (if rows.any (fun r => r.2.2.any (·.isNone)) then ["follower-absent"] else []) }
  | _, _ => throw s!"C04: bad n-ary op {op}"

def handleC04Core (j : Json) : Except String Verdict := do
  let op ← fStr j "op"
  if op == "nand" || op == "nor" || op == "lf" then return (← handleNary j op)
  let d ← fNat j "d"
  let dflt := fIntD j "dflt" 0
  let a ← fTree j "a" (d + 1)
  let b ← fTree j "b" (d + 1)
  let impl ← fArr j "impl"
  let fa := fStrD j "fa" "C"; let fb := fStrD j "fb" "C"
  let sa := (fNat j "sa").toOption.getD 0; let sb := (fNat j "sb").toOption.getD 0
  -- active range of an uncompressed operand: [la, sa) (la defaults to 0)
  let la := (fNat j "la").toOption.getD 0; let lb := (fNat j "lb").toOption.getD 0
  let pa := presentRef fa la sa dflt d a
  let pb := presentRef fb lb sb (fIntD j "dfltB" dflt) d b
  let pre := wfB (d + 1) a && wfB (d + 1) b
  if !pre then return { agree := true, spec := true, tags := ["OUT_OF_MODEL"] }
  let tags := mergeTags (pa.map (fun e => (e.1, 0))) (pb.map (fun e => (e.1, 0)))
      (show List (Int × T d) from a).length (show List (Int × T d) from b).length ++
    (if fa == "U" then ["fmtU-A"] else []) ++ (if fb == "U" then ["fmtU-B"] else [])
  let opt (i : Int) : Option Nat := optPos i
  match op with
  | "and" =>
    let rows ← impl.mapM (fun r => do
      match (← asInts r) with
      | [c, ia, ib] => pure (c, (opt ia, opt ib))
      | _ => throw "and row")
    let m := andMerge pa pb
    let out := jList (m.map (fun r => jList [jInt r.1, posJson r.2.1, posJson r.2.2]))
    pure { agree := decide (m = rows), spec := decide (rows = andSpec pa pb), model := out, tags }
  | "sub" =>
    let rows ← impl.mapM (fun r => do
      match (← asInts r) with
      | [c, ia] => pure (c, opt ia)
      | _ => throw "sub row")
    let m := subMerge pa pb
    let out := jList (m.map (fun r => jList [jInt r.1, posJson r.2]))
    pure { agree := decide (m = rows), spec := decide (rows = subSpec pa pb), model := out, tags }
  | "or" | "xor" =>
    let rows ← impl.mapM (fun r => do
      match (← asList r) with
      | [c, m, ia, ib] => do
        -- absent side: `none`; present side: `some ref` where ref itself may be a fresh default (U format)
        let mk ← maskOfStr (← m.getStr?)
        let ra := opt (← ia.getInt?); let rb := opt (← ib.getInt?)
        let sideA : Option (Option Nat) := if mk == .B then none else some ra
        let sideB : Option (Option Nat) := if mk == .A then none else some rb
        -- an absent side must have been delivered as a fresh default
        if (mk == .B && ra.isSome) || (mk == .A && rb.isSome) then throw "absent side delivered a stored payload"
        pure ((← c.getInt?), (mk, sideA, sideB))
      | _ => throw "or row")
    let m := if op == "or" then orMerge pa pb else xorMerge pa pb
    let out := jList (m.map (fun r => jList [jInt r.1, Json.str r.2.1.toString, optPosJson r.2.2.1, optPosJson r.2.2.2]))
    let spec := if op == "or" then orSpecB pa pb rows else xorSpecB pa pb rows
    pure { agree := decide (m = rows), spec, model := out, tags }
  | _ => throw s!"C04: unknown op {op}"

end FtDriver

namespace FtDriver
open Ft
open Lean (Json)

/-- a 1-level fiber with tuple coordinates: presented (non-default) elements with storage positions -/
def parseTupleFiber (dflt : Int) (j : Json) : Except String (Fib TCoord Nat × Fib TCoord Nat) := do
  let rows ← (← asList j).mapM (fun e => do
    match (← asList e) with
    | [c, v] => do pure ((⟨← asInts c⟩ : TCoord), (← v.getInt?))
    | _ => throw "tuple fiber row")
  let all := rows.zipIdx.map (fun r => (r.1.1, r.2))
  let pres := (rows.zipIdx.filter (fun r => r.1.2 != dflt)).map (fun r => (r.1.1, r.2))
  pure (all, pres)

def tcJson (c : TCoord) : Json := jInts c.v

def handleTuple (j : Json) : Except String Verdict := do
  let dflt := fIntD j "dflt" 0
  let opk ← fStr j "opk"
  let ka ← fNat j "ka"
  let kb ← fNat j "kb"
  let (allA, pa) ← parseTupleFiber dflt (← field j "a")
  let (allB, pb) ← parseTupleFiber dflt (← field j "b")
  if !(sortedB allA && sortedB allB && allA.all (fun e => e.1.v.length == ka) && allB.all (fun e => e.1.v.length == kb)) then
    return { agree := true, spec := true, tags := ["OUT_OF_MODEL"] }
  let impl ← fArr j "impl"
  let tags := [s!"arity{ka}-{kb}"] ++ (if pa.isEmpty || pb.isEmpty then ["some-empty"] else [])
  match opk with
  | "and" =>
    let rows ← impl.mapM (fun r => do
      match (← asList r) with
      | [c, ia, ib] => do pure ((⟨← asInts c⟩ : TCoord), ((← ia.getNat?), (← ib.getNat?)))
      | _ => throw "tuple and row")
    let (m, spec) : Fib TCoord (Nat × Nat) × Fib TCoord (Nat × Nat) :=
      if ka == kb then (andMerge pa pb, andSpec pa pb)
      else if ka < kb then (prefixAndMerge ka pa pb, prefixAndSpec ka pa pb)
      else ((prefixAndMerge kb pb pa).map (fun r => (r.1, (r.2.2, r.2.1))),
            (prefixAndSpec kb pb pa).map (fun r => (r.1, (r.2.2, r.2.1))))
    pure { agree := decide (m = rows), spec := decide (rows = spec),
           model := jList (m.map (fun r => jList [tcJson r.1, jNat r.2.1, jNat r.2.2])),
           tags := tags ++ (if m.isEmpty then ["empty-result"] else ["nonempty-result"]) }
  | "sub" =>
    if ka != kb then return { agree := true, spec := true, tags := ["OUT_OF_MODEL"] }
    let rows ← impl.mapM (fun r => do
      match (← asList r) with
      | [c, ia] => do pure ((⟨← asInts c⟩ : TCoord), (← ia.getNat?))
      | _ => throw "tuple sub row")
    let m := subMerge pa pb
    pure { agree := decide (m = rows), spec := decide (rows = subSpec pa pb),
           model := jList (m.map (fun r => jList [tcJson r.1, jNat r.2])), tags }
  | "or" | "xor" =>
    if ka != kb then return { agree := true, spec := true, tags := ["OUT_OF_MODEL"] }
    let rows ← impl.mapM (fun r => do
      match (← asList r) with
      | [c, m, ia, ib] => do
        pure ((⟨← asInts c⟩ : TCoord), ((← maskOfStr (← m.getStr?)), optPos (← ia.getInt?), optPos (← ib.getInt?)))
      | _ => throw "tuple or row")
    let m := if opk == "or" then orMerge pa pb else xorMerge pa pb
    let spec := if opk == "or" then orSpecB pa pb rows else xorSpecB pa pb rows
    pure { agree := decide (m = rows), spec,
           model := jList (m.map (fun r => jList [tcJson r.1, Json.str r.2.1.toString, posJson r.2.2.1, posJson r.2.2.2])), tags }
  | _ => throw s!"C04 tuple: unknown op {opk}"

def handleC04 (j : Json) : Except String Verdict := do
  if (← fStr j "op") == "tuple" then handleTuple j else
  let v1 ← handleC04Core j
  -- a second pass over the same fiber objects after both operands were re-declared wider and grown: judged like
  -- a fresh case on the grown trees and extents
  match j.getObjVal? "impl2" with
  | .ok i2 =>
    let j2 := ((((j.setObjVal! "impl" i2).setObjVal! "a" (← field j "a2")).setObjVal! "b" (← field j "b2")).setObjVal!
      "sa" (← field j "sa2")).setObjVal! "sb" (← field j "sb2")
    let v2 ← handleC04Core j2
    pure { v1 with agree := v1.agree && v2.agree, spec := v1.spec && v2.spec, tags := v1.tags ++ ["regrown"],
                   why := if v1.agree && v1.spec && !(v2.agree && v2.spec) then "second pass after growth differs" else v1.why }
  | _ => pure v1

end FtDriver
