import FtDriver.Json
open Lean (Json)
namespace FtDriver
open Ft

/-- presented elements of a compressed fiber, carrying their storage position -/
def presentPos (dflt : Int) (d : Nat) (f : T (d + 1)) : Fib Int Nat :=
  (((show List (Int × T d) from f).zipIdx).filter (fun e => !isEmpty dflt d e.1.2)).map
    (fun e => (e.1.1, e.2))

def maskOfStr : String → Except String Mask
  | "A" => pure .A | "B" => pure .B | "AB" => pure .AB | s => throw s!"bad mask {s}"

def mergeTags (pa pb : Fib Int Nat) (rawA rawB : Nat) : List String :=
  let la := pa.getLast?.map (·.1); let lb := pb.getLast?.map (·.1)
  (if pa.isEmpty then ["emptyA"] else []) ++ (if pb.isEmpty then ["emptyB"] else []) ++
  (if pa.length < rawA then ["skipA"] else []) ++ (if pb.length < rawB then ["skipB"] else []) ++
  (if pa.any (fun e => hasCoord pb e.1) then ["match"] else []) ++
  (match la, lb with
   | some x, some y => if x < y then ["tailB"] else if y < x then ["tailA"] else ["tailNone"]
   | _, _ => [])

def handleC04 (j : Json) : Except String Verdict := do
  let op ← fStr j "op"
  let d ← fNat j "d"
  let dflt := fIntD j "dflt" 0
  let a ← fTree j "a" (d + 1)
  let b ← fTree j "b" (d + 1)
  let impl ← fArr j "impl"
  let pa := presentPos dflt d a
  let pb := presentPos dflt d b
  let pre := wfB (d + 1) a && wfB (d + 1) b
  if !pre then return { agree := true, spec := true, tags := ["OUT_OF_MODEL"] }
  let tags := mergeTags pa pb (show List (Int × T d) from a).length (show List (Int × T d) from b).length
  match op with
  | "and" =>
    let rows ← impl.mapM (fun r => do
      match (← asInts r) with
      | [c, ia, ib] => pure (c, (ia.toNat, ib.toNat))
      | _ => throw "and row")
    let m := andMerge pa pb
    let out := jList (m.map (fun r => jInts [r.1, r.2.1, r.2.2]))
    pure { agree := decide (m = rows), spec := decide (rows = andSpec pa pb), model := out, tags }
  | "sub" =>
    let rows ← impl.mapM (fun r => do
      match (← asInts r) with
      | [c, ia] => pure (c, ia.toNat)
      | _ => throw "sub row")
    let m := subMerge pa pb
    let out := jList (m.map (fun r => jInts [r.1, r.2]))
    pure { agree := decide (m = rows), spec := decide (rows = subSpec pa pb), model := out, tags }
  | "or" | "xor" =>
    let rows ← impl.mapM (fun r => do
      match (← asList r) with
      | [c, m, ia, ib] => do
        pure ((← c.getInt?), ((← maskOfStr (← m.getStr?)), optPos (← ia.getInt?), optPos (← ib.getInt?)))
      | _ => throw "or row")
    let m := if op == "or" then orMerge pa pb else xorMerge pa pb
    let out := jList (m.map (fun r => jList [jInt r.1, Json.str r.2.1.toString, posJson r.2.2.1, posJson r.2.2.2]))
    let spec := if op == "or" then orSpecB pa pb rows else xorSpecB pa pb rows
    pure { agree := decide (m = rows), spec, model := out, tags }
  | _ => throw s!"C04: unknown op {op}"

end FtDriver
