import FtDriver.Json
open Lean (Json)
namespace FtDriver
open Ft

def handleC01 (_j : Json) : Except String Verdict := throw "C01: not implemented"

end FtDriver
