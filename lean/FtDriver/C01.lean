import FtDriver.Json
import FtDriver.C05
open Lean (Json)
namespace FtDriver
open Ft

/-- the executable side of C01 on the implementation's raw snapshot: uniform depth, singly boxed
    integer leaves, coordinates strictly increasing, coords/payloads paired (the harness emits a
    tagged object for anything else, which fails here) -/
def rawWF : Nat → Json → Bool
  | 0, j => match j with
    | .num n => n.exponent == 0
    | _ => false
  | d + 1, j =>
    match j.getArr? with
    | .error _ => false
    | .ok arr =>
      let rows := arr.toList.map (fun e =>
        match e.getArr? with
        | .ok p => if p.size == 2 then (match p[0]!.getInt? with | .ok c => some (c, p[1]!) | _ => none) else none
        | _ => none)
      rows.all (·.isSome) &&
      (let cs := rows.filterMap (fun r => r.map (·.1))
       (cs.zip cs.tail).all (fun p => decide (p.1 < p.2))) &&
      rows.all (fun r => match r with | some (_, sub) => rawWF d sub | none => false)

def treeArgOfJson (j : Json) : TreeArg Int := ⟨fun d => (parseTree d j).toOption⟩

def optIntField (j : Json) (k : String) : Option Int :=
  match j.getObjVal? k with
  | .ok v => v.getInt?.toOption
  | _ => none

/-- JSON op → model op; `none` for operation kinds the C01 model does not cover -/
def parseMutOp (dflt : Int) (j : Json) : Except String (Option (MutOp Int)) := do
  let k ← fStr j "k"
  let at_ := match j.getObjVal? "at" with | .ok a => (asInts a).toOption.getD [] | _ => []
  match k with
  | "ref" => pure (some (.ref (← asInts (← field j "p"))))
  | "posref" => pure (some (.posref at_ (← fInt j "c")))
  | "refsp" => pure (some (.posref at_ (← fInt j "c")))   -- a legal shortcut does not change the effect
  | "append" => pure (some (.append at_ (← fInt j "c") (treeArgOfJson (← field j "v"))))
  | "extend" => pure (some (.extend at_ (treeArgOfJson (← field j "f"))))
  | "setitem" =>
    let v ← field j "v"
    pure (some (.setitem at_ (← fNat j "pos") (optIntField j "c") (if v.isNull then none else some (treeArgOfJson v))))
  | "clear" => pure (some (.clear at_))
  | "updcoords" => pure (some (.updCoords at_ (← fInt j "mul") (← fInt j "add")))
  | "updpayloads" => let a ← fInt j "add"; pure (some (.updPayloads at_ (fun v => v + a)))
  | "denseref" =>
    let s ← fInt j "s"; let e ← fInt j "e"; let st ← fInt j "step"
    let cs : List Int := pyRange s e st
    let w ← (← fArr j "w").mapM (fun r => do
      match (← asInts r) with | [c, v] => pure (c, v) | _ => throw "denseref write")
    pure (some (.denseRef at_ cs w))
  | "assignf" => pure (some (.assignF at_ (treeArgOfJson (← field j "f"))))
  | "populate" =>
    let acts ← parseActs (← field j "acts")
    pure (some (.populate at_ (treeArgOfJson (← field j "a"))
      (fun p cur av => leafAct dflt acts p cur av)
      (fun p => match acts.get p with | some .skip => Inner.skip | some (.touch c) => Inner.touch c | _ => Inner.recurse)))
  | "iaddf" =>
    pure (some (.populate at_ (treeArgOfJson (← field j "f")) (fun _ cur av => cur + av) (fun _ => Inner.recurse)))
  | _ => pure none

/-- in-place arithmetic on a leaf fiber, expressed through the modelled mutators from the pre-state:
    `f += s` is `iterShapeRef()` with `p += s` (dense references over the shape, every visited element
    written), `f *= s` rewrites the non-default payloads, `f *= g` writes the products at the coordinates
    both fibers present and the default at the other coordinates `f` presents -/
def parseArith (dflt : Int) (d : Nat) (tb : T (d + 1)) (j : Json) : Except String (Option (MutOp Int)) := do
  let k ← fStr j "k"
  let at_ := match j.getObjVal? "at" with | .ok a => (asInts a).toOption.getD [] | _ => []
  match locate d tb at_ with
  | some ⟨0, leaf⟩ =>
    let l := (show List (Int × T 0) from leaf)
    let cur (c : Int) : Int := match lookup l c with | some v => (show Int from v) | none => dflt
    match k with
    | "iadd" =>
      let s ← fInt j "s"
      match (fNat j "shape").toOption with
      | none => pure none
      | some n =>
        let cs : List Int := (List.range n).map Int.ofNat
        pure (some (.denseRef at_ cs (cs.map (fun c => (c, cur c + s)))))
    | "imul" =>
      let s ← fInt j "s"
      pure (some (.updPayloads at_ (fun v => if v = dflt then v else v * s)))
    | "imulf" =>
      let g ← parseTree 1 (← field j "f")
      let gl := (show List (Int × T 0) from g)
      -- every element `self` presents is rewritten: the product where `other` presents the coordinate
      -- too, the default where it does not (`for _, v in self - other: v <<= default`)
      let both := l.filter (fun e => (show Int from e.2) != dflt)
      let gv (c : Int) : Option Int := match lookup gl c with
        | some x => if (show Int from x) != dflt then some (show Int from x) else none
        | none => none
      let w := both.map (fun e => (e.1, match gv e.1 with | some y => (show Int from e.2) * y | none => dflt))
      pure (some (.denseRef at_ (both.map (·.1)) w))
    | _ => pure none
  | _ => pure none

def handleC01 (j : Json) : Except String Verdict := do
  let D ← fNat j "d"
  let dflt := fIntD j "dflt" 0
  let steps ← fArr j "impl"
  let mut okAgree := true
  let mut okSpec := true
  let mut why := ""
  let mut tags : List String := []
  match D with
  | 0 => return { agree := true, spec := true, tags := ["OUT_OF_MODEL"] }
  | d + 1 =>
    for st in steps do
      let opJ ← field st "op"
      let k ← fStr opJ "k"
      let before ← field st "before"
      let after ← field st "after"
      let outcome ← fStr st "outcome"
      if !tags.contains k then tags := k :: tags
      if !tags.contains outcome then tags := outcome :: tags
      -- specification on the implementation's observation
      if !(rawWF (d + 1) after) then
        okSpec := false
        if why.isEmpty then why := s!"{k}: tree after the step is not well-formed ({outcome})"
      if outcome == "rejected-order" && before.compress != after.compress then
        okSpec := false
        if why.isEmpty then why := s!"{k}: rejected for coordinate order but the tree changed"
      if outcome.startsWith "ERR" then
        okSpec := false
        if why.isEmpty then why := s!"{k}: unexpected exception {outcome}"
      -- correspondence with the model, step by step from the implementation's own state
      -- fibers declared with default None ("no empty value") are outside the model's default handling: for them
      -- only the specification side (well-formedness after every step, rejected => unchanged) is evaluated
      let noDefault := match j.getObjVal? "ndflt" with | .ok (Json.bool true) => true | _ => false
      if noDefault && !tags.contains "no-empty-value" then tags := "no-empty-value" :: tags
      match parseTree (d + 1) before with
      | .error _ => pure ()
      | .ok tb =>
        if wfB (d + 1) tb && !noDefault then
          let parsed ← (do
            match (← parseMutOp dflt opJ) with
            | some op => pure (some op)
            | none => parseArith dflt d tb opJ)
          match parsed with
          | none => if !tags.contains "unmodelled" then tags := "unmodelled" :: tags
          | some op =>
            let (mt, mo) := mstep dflt d tb op
            match parseTree (d + 1) after with
            | .error _ =>
              okAgree := false
              if why.isEmpty then why := s!"{k}: model yields a tree, implementation's state does not parse"
            | .ok ta =>
              if !(treeEq (d + 1) mt ta) then
                okAgree := false
                if why.isEmpty then why := s!"{k}: tree after the step differs from the model ({(treeToJson (d+1) mt).compress})"
              if outcome == "ok" || outcome == "rejected-order" || outcome == "rejected-index" then
                if mo.toString != outcome && !(mo == .badPath) then
                  okAgree := false
                  if why.isEmpty then why := s!"{k}: outcome {outcome}, model {mo.toString}"
    pure { agree := okAgree, spec := okSpec, tags, why }

end FtDriver
