import FtDriver.Json
open Lean (Json)
namespace FtDriver
open Ft

def handleC15 (_j : Json) : Except String Verdict := throw "C15: not implemented"

end FtDriver
