import FtDriver.Json
open Lean (Json)
namespace FtDriver
namespace C15
open Ft Ft.C15

/-! ### JSON forms (dicts are printed sorted by key: insertion order is not observable) -/

def c15_sortBy {α : Type} (key : α → String) (l : List α) : List α :=
  l.mergeSort (fun a b => key a ≤ key b)

def c15_rowJson : Row → Json
  | .hdr cols => Json.mkObj [("h", jList (cols.map Json.str))]
  | .dat vals => jInts vals

def c15_parseRow (j : Json) : Except String Row :=
  match j.getObjVal? "h" with
  | .ok h => do pure (.hdr (← (← asList h).mapM (·.getStr?)))
  | .error _ => do pure (.dat (← asInts j))

def c15_optJson {α : Type} (f : α → Json) : Option α → Json
  | none => Json.null
  | some a => f a

def c15_metricsJson (m : Dict (Dict Int)) : Json :=
  jList ((c15_sortBy (·.1) m).map (fun e =>
    jList [Json.str e.1, jList ((c15_sortBy (·.1) e.2).map (fun x => jList [Json.str x.1, jInt x.2]))]))

def c15_retJson : MRet → Json
  | .unit => Json.null
  | .nat n => jNat n
  | .bool b => Json.bool b
  | .rows l => jList (l.map c15_rowJson)
  | .iters l => c15_optJson jInts l
  | .dump m => c15_optJson c15_metricsJson m

def c15_stateJson (s : MState) : Json :=
  Json.mkObj [
    ("arm", jList ((c15_sortBy (·.1) s.allRankMatches).map (fun e =>
      jList [Json.str e.1, jList ((c15_sortBy id e.2).map Json.str)]))),
    ("collecting", Json.bool s.collecting),
    ("fl", jList ((c15_sortBy (·.1) s.fiberLabel).map (fun e => jList [Json.str e.1, jNat e.2]))),
    ("iteration", c15_optJson jInts s.iteration),
    ("lo", c15_optJson (fun lo => jList ((c15_sortBy (·.1) lo).map (fun e => jList [Json.str e.1, jNat e.2]))) s.lineOrder),
    ("lp", c15_optJson (fun l => jList (l.map Json.str)) s.loopOrder),
    ("metrics", c15_optJson c15_metricsJson s.metrics),
    ("ncu", jNat s.numCachedUses),
    ("point", c15_optJson jInts s.point),
    ("pfx", c15_optJson Json.str s.pfx),
    ("rm", jList ((c15_sortBy (·.1) s.rankMatches).map (fun e => jList [Json.str e.1, Json.str e.2]))),
    ("rf", jList ((c15_sortBy id s.rankFlatten).map Json.str)),
    ("traces", jList ((c15_sortBy (fun e => e.1.1 ++ "\x00" ++ e.1.2) s.traces).map (fun e =>
      jList [Json.str e.1.1, Json.str e.1.2, c15_optJson (fun l => jList (l.map c15_rowJson)) e.2.file,
             c15_optJson (fun l => jList (l.map c15_rowJson)) e.2.mem, Json.bool e.2.started]))),
    ("fs", jList ((c15_sortBy (fun e => e.1.1 ++ "\x00" ++ e.1.2.1 ++ "\x00" ++ e.1.2.2) s.fs).map (fun e =>
      jList [Json.str e.1.1, Json.str e.1.2.1, Json.str e.1.2.2, jList (e.2.map c15_rowJson)])))]

def c15_optStr (j : Json) : Except String (Option String) :=
  if j.isNull then pure none else do pure (some (← j.getStr?))

def c15_parseOp (j : Json) : Except String MOp := do
  match (← asList j) with
  | [n] =>
    match (← n.getStr?) with
    | "endCollect" => pure .endCollect
    | "getIter" => pure .getIter
    | "isCollecting" => pure .isCollecting
    | "dump" => pure .dump
    | s => throw s!"op {s}"
  | [n, a] =>
    match (← n.getStr?) with
    | "beginCollect" => pure (.beginCollect (← c15_optStr a))
    | "registerRank" => pure (.registerRank (← a.getStr?))
    | "incIter" => pure (.incIter (← a.getStr?))
    | "endIter" => pure (.endIter (← a.getStr?))
    | "getLabel" => pure (.getLabel (← a.getStr?))
    | "getIndex" => pure (.getIndex (← a.getStr?))
    | "setNumCachedUses" => pure (.setNumCachedUses (← a.getNat?))
    | "associateShape" => pure (.associateShape (← a.getStr?))
    | s => throw s!"op {s}"
  | [n, a, b] =>
    match (← n.getStr?) with
    | "isTraced" => pure (.isTraced (← a.getStr?) (← b.getStr?))
    | "matchRanks" => pure (.matchRanks (← a.getStr?) (← b.getStr?))
    | "consumeTrace" => pure (.consumeTrace (← a.getStr?) (← b.getStr?))
    | s => throw s!"op {s}"
  | [n, a, b, c] =>
    match (← n.getStr?) with
    | "incCount" => pure (.incCount (← a.getStr?) (← b.getStr?) (← c.getInt?))
    | "trace" => pure (.trace (← a.getStr?) (← b.getStr?) (← c.getBool?))
    | s => throw s!"op {s}"
  | [n, a, b, c, d, e] =>
    match (← n.getStr?) with
    | "addUse" =>
      let it ← (if e.isNull then pure none else do pure (some (← asInts e)))
      pure (.addUse (← a.getStr?) (← b.getInt?) (← c.getInt?) (← d.getStr?) it)
    | s => throw s!"op {s}"
  | _ => throw "op arity"

/-- run calls one by one; stops at the first one the model rejects -/
def c15_runList : List MOp → MState → List MRet → Nat → List MRet × MState × Int
  | [], s, acc, _ => (acc.reverse, s, -1)
  | op :: rest, s, acc, i =>
    match step op s with
    | some (r, s') => c15_runList rest s' (r :: acc) (i + 1)
    | none => (acc.reverse, s, i)

/-- number of `matchRanks` calls that took effect at once (a late match) -/
def c15_lateMatches : List MOp → MState → Nat → Nat
  | [], _, n => n
  | op :: rest, s, n =>
    match step op s with
    | some (_, s') =>
      let late := match op with
        | .matchRanks _ _ => s'.rankMatches.length != s.rankMatches.length
        | _ => false
      c15_lateMatches rest s' (if late then n + 1 else n)
    | none => n

/-! ### executable specs evaluated on the implementation's observations -/

/-- counters a session must show: the sum of its `incCount` calls, per stripped line and metric -/
def c15_expectCounts (ops : List MOp) : Dict (Dict Int) :=
  ops.foldl (fun m op => match op with
    | .incCount l k n =>
      let l := strip l
      let inner := (dget m l).getD []
      dset m l (dset inner k ((dget inner k).getD 0 + n))
    | _ => m) []

def c15_lastSession (ops : List MOp) : List MOp :=
  ops.foldl (fun acc op => match op with | .beginCollect _ => [op] | _ => acc ++ [op]) []

/-- a structured session: `beginCollect(p)`, trace declarations (files, each once), then only
    calls a kernel makes, then `endCollect` -/
def c15_structured (sess : List MOp) : Option (String × List TKey × List MOp) :=
  match sess with
  | .beginCollect (some p) :: rest =>
    let decls := rest.takeWhile (fun o => match o with | .trace _ _ false => true | _ => false)
    let body := rest.drop decls.length
    let keys := decls.filterMap (fun o => match o with | .trace r t _ => some (r, t) | _ => none)
    match body.getLast? with
    | some .endCollect =>
      let b := body.dropLast
      if keys.eraseDups.length == keys.length && b.all (fun o => match o with
        | .registerRank _ | .addUse _ _ _ _ _ | .incIter _ | .endIter _ | .getLabel _ | .getIndex _
        | .getIter | .incCount _ _ _ | .isCollecting | .isTraced _ _ | .dump => true
        | _ => false) then some (p, keys, b) else none
    | _ => none
  | _ => none

def c15_fsOf (st : Json) : Except String (List (FKey × List Row)) := do
  (← fArr st "fs").mapM (fun e => do
    match (← asList e) with
    | [p, r, t, rows] => do
      pure (((← p.getStr?), (← r.getStr?), (← t.getStr?)), (← (← asList rows).mapM c15_parseRow))
    | _ => throw "fs row")

def c15_dropKeys (j : Json) (ks : List String) : Json :=
  match j with
  | .obj kvs => Json.mkObj ((kvs.toList.filter (fun (e : String × Json) => !ks.contains e.1)))
  | _ => j

def handleApi (j : Json) : Except String Verdict := do
  let ops ← (← fArr j "ops").mapM c15_parseOp
  let sessStart := fIntD j "sess_start" (-1)
  let impl ← field j "impl"
  let irets ← fArr impl "rets"
  let ierr ← fInt impl "err_at"
  let ist ← field impl "state"
  let (mrets, ms, merr) := c15_runList ops MState.init [] 0
  let mretsJ := jList (mrets.map c15_retJson)
  let agreeR := mretsJ.compress == (jList irets).compress
  let agreeE := merr == ierr
  let agreeS := (c15_stateJson ms).compress == ist.compress
  let mut why := (if !agreeR then "returned values differ from model; " else "") ++
    (if !agreeE then s!"first rejected call: model {merr} impl {ierr}; " else "") ++
    (if !agreeS then "class attributes / files differ from model; " else "")
  let mut spec := true
  let mut tags : List String := []
  if c15_lateMatches ops MState.init 0 > 0 then tags := tags ++ ["late-match"]
  if ierr < 0 then
    -- exact counters: what dump() shows is the sum of the incCount calls of the last session
    let sess := c15_lastSession ops
    let begun := sess.any (fun o => match o with | .beginCollect _ => true | _ => false)
    if begun then
      let want := c15_metricsJson (c15_expectCounts sess)
      let got := (ist.getObjVal? "metrics").toOption.getD Json.null
      if want.compress != got.compress then
        spec := false; why := why ++ "dump() is not the sum of the session's incCount calls; "
      tags := tags ++ ["session"]
    -- iteration counts and isolation, for a structured final session
    if sessStart ≥ 0 then
      let sess := ops.drop sessStart.toNat
      match c15_structured sess with
      | none => tags := tags ++ ["unstructured"]
      | some (p, keys, body) =>
        tags := tags ++ ["structured"]
        let fs ← c15_fsOf ist
        for (r, t) in keys do
          let rows := (dget fs (p, r, t)).getD []
          let uses := nUse r t body
          if registers r body then
            tags := tags ++ ["started"]
            if numIters rows != uses then
              spec := false; why := why ++ s!"numIters of {r}-{t} is {numIters rows}, addUse calls {uses}; "
          else
            tags := tags ++ ["never-started"]
            if numIters rows != 0 then
              spec := false; why := why ++ s!"stale rows: {r}-{t} never registered in this session but its file shows {numIters rows} iterations; "
        -- isolation: the same session run in a fresh process
        let fresh ← field impl "fresh"
        let frets ← fArr fresh "rets"
        let fst ← field fresh "state"
        let ffs ← c15_fsOf fst
        let sameRets := (jList (irets.drop sessStart.toNat)).compress == (jList frets).compress
        let sameAttrs := (c15_dropKeys ist ["ncu", "fs"]).compress == (c15_dropKeys fst ["ncu", "fs"]).compress
        let sameFiles := keys.all (fun (r, t) => dget fs (p, r, t) == dget ffs (p, r, t))
        let staleKey := keys.any (fun (r, t) => dget fs (p, r, t) != dget ffs (p, r, t) && !registers r body)
        if !sameRets then spec := false; why := why ++ "session returns differ from a fresh process; "
        if !sameAttrs then spec := false; why := why ++ "class attributes after the session differ from a fresh process; "
        if !sameFiles then
          spec := false
          why := why ++ (if staleKey then "isolation: stale rows, a traced rank never registered keeps the file of an earlier session; "
            else "isolation: a trace file of this session differs from a fresh process; ")
        if sessStart > 0 then tags := tags ++ ["history"]
  else
    tags := tags ++ ["rejected"]
  pure { agree := agreeR && agreeE && agreeS, spec, model := c15_stateJson ms, tags, why }

/-! ### kernels -/

def c15_parseOperand (j : Json) : Except String Operand := do
  let ranks ← (← fArr j "ranks").mapM (·.getStr?)
  let t ← parseTree ranks.length (← field j "t")
  let u := match j.getObjVal? "ushape" with
    | .ok v => v.getNat?.toOption
    | .error _ => none
  pure { ranks, t := ⟨ranks.length, t⟩, uShape := u }

def c15_atreeJson (a : ATree) : Json := treeToJson a.1 a.2

def c15_sublist : List String → List String → Bool
  | [], _ => true
  | _ :: _, [] => false
  | a :: as, b :: bs => if a == b then c15_sublist as bs else c15_sublist (a :: as) bs

/-- the kernel is in the family: ranks concordant with the loop order, every loop has an operand,
    all operand ranks are loops, operands well-formed, "U" only on a leaf rank iterated alone and
    not an output rank -/
def c15_inFamily (loops out : List String) (ops : List Operand) : Bool :=
  loops.eraseDups.length == loops.length && c15_sublist out loops &&
  ops.all (fun o => c15_sublist o.ranks loops && wfB o.t.1 o.t.2 && !o.ranks.isEmpty) &&
  loops.all (fun v => ops.any (fun o => o.ranks.contains v)) &&
  ops.all (fun o => match o.uShape with
    | none => true
    | some _ => match o.ranks.getLast? with
      | some v => !out.contains v && (ops.filter (fun o' => o'.ranks.contains v)).length == 1
      | none => false)

def c15_getN (j : Json) (k : String) : Int := fIntD j k (-1)

def handleKernel (j : Json) : Except String Verdict := do
  let loops ← (← fArr j "loops").mapM (·.getStr?)
  let out ← (← fArr j "out").mapM (·.getStr?)
  let declared ← (← field j "declared").getBool?
  let z ← parseTree out.length (← field j "z")
  let ops ← (← fArr j "ops").mapM c15_parseOperand
  let traces ← (← fArr j "traces").mapM (fun e => do
    match (← asList e) with
    | [r, t] => do pure ((← r.getStr?), (← t.getStr?))
    | _ => throw "trace decl")
  let hist ← (← fArr j "hist").mapM c15_parseOp
  let p ← fStr j "pfx"
  if !c15_inFamily loops out ops || !wfB out.length z then
    return { agree := true, spec := true, tags := ["OUT_OF_MODEL"] }
  let body : Body := match fStrD j "body" "iadd" with
    | "add_assign" | "radd_assign" => .addAssign
    | "imul" => .imulTmp
    | _ => .iaddMul            -- "iadd" and "rmul" (first factor unboxed: `__rmul__` instead of `__mul__`)
  let repeatN := fIntD j "repeat" 1
  let pre := fIntD j "pre" 0
  let cfg : KCfg := { declared, body }
  -- an earlier collecting session of the same kernel on the same operand objects (declared, empty output)
  let z0 : ATree := ⟨out.length, defaultTree 0 out.length⟩
  let preOps : List MOp := if pre == 1 then
      [MOp.beginCollect (some p)] ++ traces.map (fun (rk, t) => MOp.trace rk t false) ++
        callsOf (runK { cfg with declared := true } loops out z0 ops).2 ++ [MOp.endCollect]
    else []
  let (_, s0, herr) := c15_runList (hist ++ preOps) MState.init [] 0
  if herr ≥ 0 then return { agree := true, spec := true, tags := ["OUT_OF_MODEL"] }
  let r1 := runK cfg loops out ⟨out.length, z⟩ ops
  -- the kernel applied twice to the same operands and the same output
  let r := if repeatN == 2 then
      let r2 := runK cfg loops out r1.1 ops
      (r2.1, r1.2 ++ r2.2)
    else r1
  let okAsserts := assertsOk (wtrOf traces) r.2
  let sessOps := [MOp.beginCollect (some p)] ++ traces.map (fun (rk, t) => MOp.trace rk t false) ++ callsOf r.2 ++ [MOp.endCollect]
  let (_, sN, serr) := c15_runList sessOps s0 [] 0
  let impl ← field j "impl"
  let off ← field impl "off"
  let on ← field impl "on"
  let onErr := (on.getObjVal? "err").toOption.isSome
  let offErr := (off.getObjVal? "err").toOption.isSome
  let mout := c15_atreeJson r.1
  let mut why := ""
  let mut agree := true
  if mout.compress != off.compress then agree := false; why := why ++ "result (collection off) differs from model; "
  if onErr == okAsserts then agree := false; why := why ++ s!"collecting run aborts: model {!okAsserts} impl {onErr}; "
  if serr ≥ 0 then agree := false; why := why ++ s!"model rejects the kernel's own Metrics call #{serr}; "
  let dump ← field impl "dump"
  let wrap ← field impl "wrap"
  let bodies ← field impl "bodies"
  let iters ← field impl "iters"
  let iterRanks := (traces.filter (fun e => e.2 == "iter")).map (·.1)
  let mut spec := true
  -- (1) transparency
  if offErr then spec := false; why := why ++ "kernel fails with collection off; "
  if onErr then
    spec := false; why := why ++ "transparent: the kernel aborts with collection on (lshift_iterator asserts insert_pos is not None: insertion with the write trace on, output shape not declared) but runs with collection off; "
  else if on.compress != off.compress then
    spec := false; why := why ++ "transparent: results with collection on and off differ; "
  if !onErr then
    -- agreement of the counters with the model
    for (key, metric, ghost) in [("mul", "payload_mul", nMul r.2), ("add", "payload_add", nAdd r.2), ("update", "payload_update", nUpd r.2)] do
      if c15_getN dump key != count sN "Compute" metric then
        agree := false; why := why ++ s!"{metric}: model {count sN "Compute" metric} impl {c15_getN dump key}; "
      -- (2) exact counts: dump() against the independent wrappers around the Payload operators
      if c15_getN dump key != c15_getN wrap key then
        spec := false; why := why ++ s!"exact: reported {metric} {c15_getN dump key}, executed {c15_getN wrap key}; "
      if (ghost : Int) != count sN "Compute" metric then
        agree := false; why := why ++ s!"{metric}: model counter differs from model ghost count; "
    for v in loops do
      if c15_getN bodies v != ((nBody v r.2 : Nat) : Int) && !(c15_getN bodies v == -1 && nBody v r.2 == 0) then
        agree := false; why := why ++ s!"bodies at {v}: model {nBody v r.2} impl {c15_getN bodies v}; "
    -- (3) iteration counts
    for v in iterRanks do
      let b := if c15_getN bodies v < 0 then 0 else c15_getN bodies v
      let mi := numIters (fileOf sN p v "iter")
      if c15_getN iters v != (mi : Int) then
        agree := false; why := why ++ s!"numIters at {v}: model {mi} impl {c15_getN iters v}; "
      if c15_getN iters v != b then
        let stale := !registers v (callsOf r.2)
        let isU := ops.any (fun o => o.uShape.isSome && o.ranks.getLast? == some v)
        spec := false
        why := why ++ (if stale then s!"numIters: stale rows, rank {v} never iterated in this session but its file shows {c15_getN iters v} iterations; "
          else if isU then s!"numIters: format-U rank {v} ran {b} loop bodies, trace shows {c15_getN iters v}; "
          else s!"numIters: rank {v} ran {b} loop bodies, trace shows {c15_getN iters v}; ")
    -- (4) isolation
    let fresh ← field impl "fresh"
    if (← field fresh "dump").compress != dump.compress then
      spec := false; why := why ++ "isolation: counters differ from the same kernel in a fresh process; "
    if (← field fresh "files").compress != (← field impl "files").compress then
      let stale := traces.any (fun (rk, _) => !registers rk (callsOf r.2))
      spec := false
      why := why ++ (if stale then "isolation: stale rows, a traced rank never iterated keeps the file of an earlier session; "
        else "isolation: traces differ from the same kernel in a fresh process; ")
  let zl := match (⟨out.length, z⟩ : ATree) with
    | ⟨_ + 1, f⟩ => !(show List _ from f).isEmpty
    | _ => false
  let tags := (if r.2.any (fun e => match e with | .assertShape _ _ _ => true | _ => false) then ["revisit"] else []) ++
    (if r.2.any (fun e => match e with | .assertShape _ _ ins => ins | _ => false) then ["inserting"] else []) ++
    (if r.2.any (fun e => match e with | .assertShape v d ins => !d && ins && !wtrOf traces v | _ => false) then ["undeclared-insert-untraced"] else []) ++
    (if !okAsserts then ["assert-fires"] else []) ++
    (if nAdd r.2 > 0 then ["add"] else []) ++ (if nMul r.2 > 0 then ["mul"] else []) ++
    (if nUpd r.2 == 0 then ["no-update"] else []) ++
    (if out.isEmpty then ["scalar-out"] else []) ++ (if zl then ["z-preloaded"] else []) ++
    (if hist.isEmpty then ["hist-none"] else ["hist"]) ++
    (if traces.isEmpty then ["traces-none"] else []) ++
    (if traces.any (fun e => e.2 != "iter") then ["traces-other"] else []) ++
    (if iterRanks.any (fun v => !registers v (callsOf r.2)) then ["traced-never-iterated"] else []) ++
    (if iterRanks.any (fun v => registers v (callsOf r.2)) then ["traced-iterated"] else []) ++
    (if ops.any (fun o => o.uShape.isSome) then ["format-U"] else []) ++
    (if ops.any (fun o => (presentA o.t).isEmpty) then ["empty-operand"] else []) ++
    (if repeatN == 2 then ["applied-twice"] else []) ++ (if pre == 1 then ["operands-reused-across-sessions"] else []) ++
    (if fIntD j "inside" 0 == 1 then ["built-inside-bracket"] else []) ++
    [s!"body-{fStrD j "body" "iadd"}", s!"loops{loops.length}", s!"ops{ops.length}"]
  pure { agree, spec, model := mout, tags, why }

/-- programs of the whole C06 family (tilings, nesting / hoisting, `Fiber.intersection` styles, formats, value
    kinds): no Lean model of these loop nests — the executable specification of C15 is evaluated on the
    implementation's observations alone (result off vs on, dump() vs the independent operator count, loop
    bodies vs numIters, the same session in a fresh process) -/
def handleProgram (j : Json) : Except String Verdict := do
  let traces ← (← fArr j "traces").mapM (fun e => do
    match (← asList e) with
    | [r, t] => do pure ((← r.getStr?), (← t.getStr?))
    | _ => throw "trace decl")
  let soloU ← (← fArr j "solo_u").mapM (·.getStr?)
  let ranks ← (← fArr j "ranks").mapM (·.getStr?)
  let impl ← field j "impl"
  let off ← field impl "off"
  let on ← field impl "on"
  let onErr := (on.getObjVal? "err").toOption.isSome
  let offErr := (off.getObjVal? "err").toOption.isSome
  let errLine := fStrD impl "err_line" ""
  let dump ← field impl "dump"
  let wrap ← field impl "wrap"
  let bodies ← field impl "bodies"
  let iters ← field impl "iters"
  let iterRanks := (traces.filter (fun e => e.2 == "iter")).map (·.1)
  let mut spec := true
  let mut why := ""
  -- a kernel that fails the same way with collection off is not a matter of this property (tagged, not judged)
  -- the collecting run's abort is classified by its own cause first: the populate shape assertion is the
  -- documented class whether or not the same kernel also fails (later, elsewhere) with collection off
  let shapeAssert := onErr && (errLine.splitOn "insert_pos is not None").length > 1
  if offErr && on.compress != off.compress && !shapeAssert then
    spec := false; why := why ++ "transparent: the kernel fails with collection off and behaves differently with collection on; "
  if onErr && (!offErr || shapeAssert) then
    spec := false
    why := why ++ (if shapeAssert then
        "transparent: the kernel aborts with collection on (lshift_iterator asserts insert_pos is not None: insertion with the write trace on, output shape not declared) " ++
          (if offErr then "before the point where it fails, for another reason, with collection off; " else "but runs with collection off; ")
      else s!"transparent: the kernel aborts with collection on ({errLine}) but runs with collection off; ")
  else if !onErr && on.compress != off.compress then
    spec := false; why := why ++ "transparent: results with collection on and off differ; "
  if !onErr && !offErr then
    for (key, metric) in [("mul", "payload_mul"), ("add", "payload_add"), ("update", "payload_update")] do
      if c15_getN dump key != c15_getN wrap key then
        spec := false; why := why ++ s!"exact: reported {metric} {c15_getN dump key}, executed {c15_getN wrap key}; "
    for v in iterRanks do
      let b := if c15_getN bodies v < 0 then 0 else c15_getN bodies v
      if c15_getN iters v != b then
        spec := false
        why := why ++ (if soloU.contains v then s!"numIters: format-U rank {v} ran {b} loop bodies, trace shows {c15_getN iters v}; "
          else if !ranks.contains v || c15_getN bodies v < 0 then s!"numIters: stale rows, rank {v} never iterated in this session but its file shows {c15_getN iters v} iterations; "
          else s!"numIters: rank {v} ran {b} loop bodies, trace shows {c15_getN iters v}; ")
    let fresh ← field impl "fresh"
    if (← field fresh "dump").compress != dump.compress then
      spec := false; why := why ++ "isolation: counters differ from the same kernel in a fresh process; "
    if (← field fresh "files").compress != (← field impl "files").compress then
      spec := false; why := why ++ "isolation: traces differ from the same kernel in a fresh process; "
  let tags := ["spec-only", s!"style-{fStrD j "style" "?"}", s!"vals-{fStrD j "vals" "int"}"] ++
    (if fIntD j "tiled" 0 == 1 then ["tiled"] else []) ++ (if fIntD j "nU" 0 > 0 then ["format-U-any"] else []) ++
    (if !soloU.isEmpty then ["dense-walk"] else []) ++
    (if fIntD j "repeat" 1 == 2 then ["applied-twice"] else []) ++ (if fIntD j "pre" 0 == 1 then ["operands-reused-across-sessions"] else []) ++
    (if fIntD j "inside" 0 == 1 then ["built-inside-bracket"] else []) ++ (if fIntD j "bare" 0 == 1 then ["unowned-fiber-operand"] else []) ++
    (if c15_getN wrap "update" > 0 then ["effectual"] else []) ++ (if onErr then ["aborts"] else []) ++ (if offErr then ["fails-off-too"] else []) ++
    (if ranks.any (fun v => c15_getN bodies v > 0) then ["ran-bodies"] else []) ++
    (if fStrD j "kind" "" == "assign" then [if fIntD j "dflt" 0 == 0 then "default-0" else "default-nonzero"] else []) ++
    (if fStrD j "kind" "" == "chunked" then [s!"first-pos-{fIntD j "first_pos" (-1)}"] else []) ++
    (if traces.isEmpty then ["traces-none"] else [])
  pure { agree := true, spec, tags, why }

end C15

def handleC15 (j : Json) : Except String Verdict := do
  match (← fStr j "kind") with
  | "api" => C15.handleApi j
  | "kernel" => C15.handleKernel j
  | "program" => C15.handleProgram j
  | "chunked" => C15.handleProgram j
  | "assign" => C15.handleProgram j
  | "ref" => C15.handleProgram j
  | k => throw s!"C15: unknown kind {k}"

end FtDriver
