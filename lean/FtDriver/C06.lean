import FtDriver.Json
open Lean (Json)
namespace FtDriver
open Ft

def handleC06 (_j : Json) : Except String Verdict := throw "C06: not implemented"

end FtDriver
