import FtDriver.Json
open Lean (Json)
namespace FtDriver
open Ft Ft.C06

namespace C06

def castT {d d' : Nat} (h : d = d') (t : T d) : T d' := h ▸ t

/-- a tree together with its rank ids (loop-variable numbers) -/
structure Opnd where
  ids : List Nat
  t : T ids.length

def Opnd.json (o : Opnd) : Json := treeToJson o.ids.length o.t

def mkOpnd (ids : List Nat) (d : Nat) (t : T d) : Except String Opnd :=
  if h : d = ids.length then pure ⟨ids, castT h t⟩ else throw "C06: rank list / depth mismatch"

/-- `T.splitUniform(step, rankid=v)` on a tensor whose ranks all have declared shape `n` -/
def tileOpnd (n : Int) (v : Nat) (step : Int) (o : Opnd) : Except String Opnd := do
  let k := o.ids.idxOf (2 * v)
  if k ≥ o.ids.length then return o
  let d' := o.ids.length - 1 - k
  if h : o.ids.length = d' + 1 + k then
    let t : T (d' + 1 + k) := castT h o.t
    let cfg : SplitCfg := { op := .uniform step, act := some (0, n) }
    match splitAt cfg (0 : Int) d' k t with
    | none => throw "C06: split raised in the model"
    | some r => mkOpnd (o.ids.take k ++ [2 * v + 1, 2 * v] ++ o.ids.drop (k + 1)) (d' + 2 + k) r
  else throw "C06: tile depth arithmetic"

/-- number of trailing positions on which two lists agree -/
def commonSuffix (a b : List Nat) : Nat :=
  ((a.reverse.zip b.reverse).takeWhile (fun p => p.1 == p.2)).length

/-- `T.swizzleRanks(target)` -/
def swizzleOpnd (target : List Nat) (o : Opnd) : Except String Opnd := do
  if target == o.ids then return o
  let s := o.ids.length - commonSuffix o.ids target
  let r := o.ids.length - s
  let guide := (target.take s).map (fun id => o.ids.idxOf id)
  if h : o.ids.length = r + s then
    let t : T (r + s) := castT h o.t
    mkOpnd target (r + s) (swizzle (0 : Int) r s guide t)
  else throw "C06: swizzle depth arithmetic"

def toCur (o : Opnd) : Cur Int := ⟨o.ids, o.t⟩

def styleOf : String → Except String Style
  | "and" => pure .tf | "tf" => pure .tf | "andr" => pure .tfr | "andh" => pure .tfr | "andi" => pure .tfr | "lf" => pure .lf | "lff" => pure .lff
  | s => throw s!"C06: unknown style {s}"

/-- all assignments of `vars` over `U` (other variables 0) -/
def assigns (U : List Int) (vars : List Nat) : List (Nat → Int) :=
  vars.foldl (fun acc v => acc.flatMap (fun σ => U.map (fun c => upd σ v c))) [fun _ => 0]

def hasExplicitZero : (d : Nat) → T d → Bool
  | 0, v => decide ((show Int from v) = 0)
  | d + 1, f => (show List (Int × T d) from f).any (fun e => hasExplicitZero d e.2)

def hasEmptySub : (d : Nat) → T d → Bool
  | 0, _ => false
  | 1, _ => false
  | d + 2, f => (show List (Int × T (d + 1)) from f).any
      (fun e => (show List (Int × T d) from e.2).isEmpty || hasEmptySub (d + 1) e.2)

/-- how many participants each loop has (a static property of the program) -/
def partCounts (order : List Nat) (ranks : List (List Nat)) : List Nat :=
  order.map (fun v => (ranks.filter (fun r => r.contains v)).length)

/-- apply `f` to every sub-tree `k` levels down (stored payloads, each at its own position) -/
def mapAt {m : Nat} (f : T m → T m) : (k : Nat) → T (m + k) → T (m + k)
  | 0, t => f t
  | k + 1, t => (show List (Int × T (m + k)) from t).map (fun e => (e.1, mapAt f k e.2))

/-- all fibers `k` levels down are empty (`all(fiber.isEmpty() for fiber in self.ranks[depth].fibers)`) -/
def allEmptyAt {m : Nat} : (k : Nat) → T (m + k) → Bool
  | 0, t => isEmpty (0 : Int) m t
  | k + 1, t => (show List (Int × T (m + k)) from t).all (fun e => allEmptyAt k e.2)

/-- `Tensor.swapRanks(depth=k)`: every fiber at depth `k` is replaced by `Fiber.swapRanks()` of it (flatten the
    two ranks to pairs, sort on the reversed pairs, unflatten) — an empty fiber by an empty one; a tensor
    whose fibers at that depth are all empty becomes the empty tensor -/
def swapOpnd (k : Nat) (o : Opnd) : Except String Opnd := do
  if k + 2 > o.ids.length then throw "C06: swap depth"
  let r := o.ids.length - 2 - k
  let ids' := o.ids.take k ++ [o.ids.getD (k + 1) 0, o.ids.getD k 0] ++ o.ids.drop (k + 2)
  if h : o.ids.length = (r + 2) + k then
    let t : T ((r + 2) + k) := castT h o.t
    let sw : T (r + 2) → T (r + 2) := fun f =>
      if isEmpty (0 : Int) (r + 2) f then defaultTree (0 : Int) (r + 2)
      else
        -- flattenRanks iterates both ranks: only the presented (non-empty) elements are carried over
        let pres : T (r + 2) := (show List (Int × T (r + 1)) from
          (present (0 : Int) (r + 1) f).map (fun e => (e.1, (show T (r + 1) from present (0 : Int) r e.2))))
        swizzle (0 : Int) r 2 [1, 0] pres
    let t' : T ((r + 2) + k) := if allEmptyAt k t then
        (match k with | 0 => defaultTree (0 : Int) _ | _ + 1 => defaultTree (0 : Int) _)
      else mapAt sw k t
    mkOpnd ids' ((r + 2) + k) t'
  else throw "C06: swap depth arithmetic"

/-- `T / parts` on a tensor: the rank is first moved to the top (`swizzleRanks`), the root fiber is split
    with step `ceil(shape / parts)` (Fiber.__truediv__ with the rank's declared shape `n`) -/
def tdivOpnd (n : Int) (v : Nat) (parts : Nat) (o : Opnd) : Except String Opnd := do
  if !o.ids.contains (2 * v) then return o
  let o1 ← swizzleOpnd ((2 * v) :: o.ids.erase (2 * v)) o
  tileOpnd n v ((n + (parts : Int) - 1) / (parts : Int)) o1

/-- the result of one kernel (one stage of a pipeline) -/
structure StageRes where
  oom : Bool := false
  agree : Bool := true
  spec : Bool := true
  zr : List Nat := []
  zm : T zr.length
  zi : Option (T zr.length) := none
  expected : List (List Int × Int) := []
  tags : List String := []
  why : String := ""

/-- one kernel: parse the program in `j`, run the model pipeline, compare with `j.impl`, evaluate the
    dense einsum.  An operand marked `"prev": true` is the previous kernel's output: `prevM` (the
    model's output tree) on the model side, `prevS` (the tree of the previous dense result) on the
    spec side. -/
def stage (j : Json) (prevM prevS : Option ((d : Nat) × T d)) : Except String StageRes := do
  let nv ← fNat j "nvars"
  let n ← fNat j "n"
  let order ← (← fArr j "order").mapM (·.getNat?)
  let out ← (← fArr j "out").mapM (·.getNat?)
  let style ← styleOf (← fStr j "style")
  let tiles ← (← fArr j "tiles").mapM (fun e => do
    match (← asList e) with
    | [v, s] => pure ((← v.getNat?), (← s.getInt?))
    | _ => throw "C06: tile")
  -- tilings requested as `T / parts` (the step is then ceil(n / parts))
  let tdiv ← match (j.getObjVal? "tdiv") with
    | .ok (Json.arr a) => a.toList.mapM (fun e => do
        match (← asList e) with
        | [v, s] => pure ((← v.getNat?), (← s.getNat?))
        | _ => throw "C06: tdiv")
    | _ => pure []
  -- coordinate universe: 0..n-1, or the listed coordinates (sparse multi-digit coordinates)
  let U : List Int := match (j.getObjVal? "univ") with
    | .ok (Json.arr a) => a.toList.filterMap (fun x => x.getInt?.toOption)
    | _ => (List.range n).map (fun (i : Nat) => (i : Int))
  let var := (j.getObjVal? "var").toOption.getD Json.null
  let reps := ((var.getObjVal? "reps").toOption.bind (fun x => x.getNat?.toOption)).getD 1
  let okU := U.all (fun c => 0 ≤ c && c < (n : Int)) && sortedB (U.map (fun c => (c, ())))
  -- original operands (model side / spec side)
  let opsJ ← fArr j "ops"
  let parseOps (prev : Option ((d : Nat) × T d)) : Except String (List Opnd) :=
    opsJ.mapM (fun o => do
      let ranks ← (← fArr o "ranks").mapM (·.getNat?)
      match (o.getObjVal? "prev"), prev with
      | .ok (Json.bool true), some ⟨d, t⟩ => mkOpnd (ranks.map (2 * ·)) d t
      | .ok (Json.bool true), none => throw "C06: no previous stage"
      | _, _ => do
        let t ← parseTree ranks.length (← field o "t")
        mkOpnd (ranks.map (2 * ·)) ranks.length t)
  let orig ← parseOps prevM
  let origS ← parseOps prevS
  -- re-ordering spelled with swapRanks: per operand the sequence of swap depths, applied BEFORE the tiling
  let swaps ← opsJ.mapM (fun o => match (o.getObjVal? "swaps") with
    | .ok (Json.arr a) => a.toList.mapM (fun x => x.getNat?)
    | _ => pure [])
  let zr0 : List Nat := []
  let dummy : StageRes := { zr := zr0, zm := (0 : Int) }
  -- model domain: well-formed operands inside the declared shape, a loop order that is a
  -- permutation of the loop variables, every loop variable in some operand, positive steps
  let tiled (v : Nat) : Bool := tiles.any (fun t => t.1 == v)
  let loopVars := (List.range nv).flatMap (fun v => if tiled v then [2 * v + 1, 2 * v] else [2 * v])
  let okOrder := order.length == loopVars.length && loopVars.all (order.contains ·) && order.eraseDups.length == order.length
  let okOps := (orig ++ origS).all (fun o => wfB o.ids.length o.t && coordsInB U o.ids.length o.t && o.ids.eraseDups.length == o.ids.length
    && o.ids.all (fun i => i / 2 < nv))
  let okCover := (List.range nv).all (fun v => orig.any (fun o => o.ids.contains (2 * v)))
  let okTiles := tiles.all (fun t => t.2 > 0 && t.1 < nv) && (tiles.map (·.1)).eraseDups.length == tiles.length &&
    tdiv.all (fun d => d.2 > 0 && tiles.any (fun t => t.1 == d.1 && t.2 == ((n : Int) + (d.2 : Int) - 1) / (d.2 : Int)))
  if !(okOrder && okOps && okCover && okTiles && okU && (reps == 1 || reps == 2) && out.all (· < nv) && !orig.isEmpty) then
    return { dummy with oom := true }
  -- model pipeline: tile (splitUniform, then the `/` tilings), swizzle
  let prepared ← (orig.zip swaps).mapM (fun (o, sw) => do
    let o ← sw.foldlM (fun o k => swapOpnd k o) o
    let o1 ← (tiles.filter (fun t => !tdiv.any (fun d => d.1 == t.1))).foldlM (fun o t => tileOpnd n t.1 t.2 o) o
    let o2 ← tdiv.foldlM (fun o d => tdivOpnd n d.1 d.2 o) o1
    swizzleOpnd (order.filter (o2.ids.contains ·)) o2)
  let zr := order.filter (fun l => out.contains (l / 2))
  let z0 : T zr.length := defaultTree (0 : Int) zr.length
  let zm1 := run style order (prepared.map toCur) zr z0
  -- reps = 2: the program is executed a second time on the same output (kernel_denote with a non-empty z)
  let zm := if reps == 2 then run style order (prepared.map toCur) zr zm1 else zm1
  -- implementation's observation
  let impl ← field j "impl"
  let implOps ← fArr impl "ops"
  let zJ ← field impl "z"
  -- the dense result of the ORIGINAL operands, at the output's (tiled) points
  let stepOf (v : Nat) : Int := ((tiles.find? (fun t => t.1 == v)).map (·.2)).getD 1
  let zpt : (Nat → Int) → List Int := fun σ =>
    zr.map (fun l => if l % 2 == 1 then tileOf (stepOf (l / 2)) (σ (l - 1)) else σ l)
  let vars := (List.range nv).map (2 * ·)
  let σ0 : Nat → Int := fun _ => 0
  let cands := ((sortLex ((assigns U vars).map (fun σ => (zpt σ, ())))).map (·.1)).eraseDups
  let expected := (denseOn U vars (origS.map toCur) zpt σ0 cands).map (fun pv => (pv.1, pv.2 * (reps : Int)))
  let cancel := cands.any (fun q => einsum U vars (origS.map toCur) zpt q σ0 == 0 &&
    (assigns U vars).any (fun σ => zpt σ == q && prodVal (origS.map toCur) σ != 0))
  let pc := partCounts order (prepared.map (·.ids))
  let tags := (if expected.isEmpty then [] else ["nonzero"]) ++ (if cancel then ["cancel"] else []) ++
    (if pc.any (· == 2) then ["coiter2"] else []) ++ (if pc.any (· ≥ 3) then ["coiter3"] else []) ++
    (if zr.isEmpty then ["scalar-out"] else ["populate"]) ++
    (if tiles.isEmpty then [] else ["tiled"]) ++ (if tdiv.isEmpty then [] else ["tiled-by-truediv"]) ++
    (if swaps.any (!·.isEmpty) then ["reordered-by-swapRanks"] else []) ++
    (if swaps.any (!·.isEmpty) && !tiles.isEmpty then ["swap-then-tile"] else []) ++
    (let has := fun (k : String) => match var.getObjVal? k with
        | .ok (Json.arr a) => a.any (fun x => match x with | Json.arr b => !b.isEmpty | Json.null => false | _ => true)
        | .ok (Json.bool b) => b
        | .ok (Json.str s) => s != "int"
        | .ok (Json.num m) => m != 0 && m != 1
        | _ => false
     (if has "fmtU" then ["operand-format-U"] else []) ++ (if has "zU" then ["output-format-U"] else []) ++
     (if has "bare" then ["bare-fiber-operands"] else []) ++ (if has "shapes" then ["own-declared-shapes"] else []) ++
     (if has "fdefault" then ["fiber-default-differs"] else []) ++ (if has "reps" then ["accumulate-twice"] else []) ++
     (if has "warm" then ["operands-reused"] else []) ++ (if has "vkind" then ["float-or-bool-values"] else []) ++
     (match var.getObjVal? "vkind" with | .ok (Json.str "quarter") => ["non-integral-values"] | _ => [])) ++
    (match (j.getObjVal? "univ") with | .ok (Json.arr _) => ["multi-digit-coordinates"] | _ => []) ++
    (match (j.getObjVal? "declared") with | .ok (Json.bool false) => ["shape-estimated"] | _ => []) ++
    (if pc.any (· ≥ 3) && style == .tfr then ["lazy-right-operand"] else []) ++
    (if tiles.any (fun t => out.contains t.1) then ["tiled-out"] else []) ++
    [match style with | .tf => "style-tf" | .tfr => "style-tfr" | .lf => "style-lf" | .lff => "style-lff"] ++
    (if orig.any (fun o => (content (0 : Int) o.ids.length o.t).isEmpty) then ["empty-operand"] else []) ++
    (if orig.any (fun o => hasExplicitZero o.ids.length o.t) then ["explicit-zero"] else []) ++
    (if orig.any (fun o => hasEmptySub o.ids.length o.t) then ["empty-subfiber"] else []) ++
    (if prepared.zip orig |>.any (fun p => p.1.ids != p.2.ids && p.1.ids.length == p.2.ids.length) then ["swizzled"] else []) ++
    (if order != loopVars then ["reordered"] else []) ++
    (if !canonicalB (0 : Int) zr.length zm then ["z-residue"] else [])
  if zJ.isNull then
    return { zr := zr, zm := zm, agree := false, spec := false, expected, tags, why := "the program raised" }
  let zi ← parseTree zr.length zJ
  let agreeOps := implOps.length == prepared.length &&
    (implOps.zip prepared).all (fun p => p.1.compress == p.2.json.compress)
  let agreeZ := treeEq zr.length zm zi
  let specContent := decide ((content (0 : Int) zr.length zi : List (List Int × Int)) = expected)
  let specWf := wfB zr.length zi
  let why := (if !agreeOps then "tiled/swizzled operands differ from the model's; " else "") ++
    (if !agreeZ then "output tree differs from the model's; " else "") ++
    (if !specContent then "output content is not the non-zero entries of the dense result; " else "") ++
    (if !specWf then "output not well-formed; " else "")
  pure { zr := zr, zm := zm, zi := some zi, agree := agreeOps && agreeZ, spec := specContent && specWf, expected, tags, why }

end C06

open C06 in
def handleC06 (j : Json) : Except String Verdict := do
  let implerr := fStrD j "implerr" ""
  let r1 ← stage j none none
  if r1.oom then return { agree := true, spec := true, tags := ["OUT_OF_MODEL"] }
  let m1 := treeToJson r1.zr.length r1.zm
  if implerr != "" && r1.zi.isNone then
    return { agree := false, spec := false, model := m1, tags := r1.tags, why := s!"the program raised {implerr}" }
  match (j.getObjVal? "then") with
  | .ok (Json.obj _) =>
    -- a pipeline: the first kernel's OUTPUT OBJECT is operand 0 of the second kernel.  Model side: the
    -- model's output tree; spec side: the tree of the first kernel's dense result (built from the content)
    let j2 ← field j "then"
    let impl ← field j "impl"
    let j2 := j2.setObjVal! "impl" ((impl.getObjVal? "then").toOption.getD Json.null)
    let d := r1.zr.length
    let specTree : T (0 + d) := rebuild (0 : Int) 0 d r1.expected
    let prevS : (d : Nat) × T d := ⟨0 + d, specTree⟩
    let r2 ← stage j2 (some ⟨d, r1.zm⟩) (some prevS)
    if r2.oom then return { agree := true, spec := true, tags := ["OUT_OF_MODEL"] }
    let m2 := treeToJson r2.zr.length r2.zm
    let tags := (r1.tags ++ r2.tags.map (fun t => "k2:" ++ t) ++ ["pipeline"]).eraseDups
    if implerr != "" && r2.zi.isNone then
      return { agree := false, spec := false, model := m2, tags, why := s!"the second kernel raised {implerr}" }
    pure { agree := r1.agree && r2.agree, spec := r1.spec && r2.spec, model := Json.mkObj [("z1", m1), ("z", m2)], tags,
           why := (if r1.why.isEmpty then "" else "kernel 1: " ++ r1.why) ++ (if r2.why.isEmpty then "" else "kernel 2: " ++ r2.why) }
  | _ => pure { agree := r1.agree, spec := r1.spec, model := m1, tags := r1.tags, why := r1.why }

end FtDriver
