import FtDriver.Json
open Lean (Json)
namespace FtDriver
open Ft

def handleC02 (_j : Json) : Except String Verdict := throw "C02: not implemented"

end FtDriver
