import FtDriver.Json
import FtDriver.C01
open Lean (Json)
namespace FtDriver
open Ft

/-- rank lists as reported by the harness: each registered fiber by its path, `null` if the fiber
    is not part of the tree any more (stale) -/
def parseRanks (j : Json) : Except String (List (List (Option (List Int)))) := do
  (← asList j).mapM (fun r => do
    (← asList r).mapM (fun p => if p.isNull then pure none else do pure (some (← asInts p))))

def ranksNoStale (R : List (List (Option (List Int)))) : Bool := R.all (fun r => r.all (·.isSome))
def ranksPaths (R : List (List (Option (List Int)))) : RankLists Int := R.map (fun r => r.filterMap id)

def sameRanks (A B : RankLists Int) : Bool :=
  A.length == B.length && (A.zip B).all (fun p => p.1.isPerm p.2)

def mirrorWhy (D : Nat) (t : T D) (R : List (List (Option (List Int)))) : String :=
  if !ranksNoStale R then "a rank lists a fiber that is no longer in the tree"
  else if (ranksPaths R).length != D then "number of ranks differs from the depth of the tree"
  else
    match (List.range D).find? (fun i => !((ranksPaths R).getD i []).isPerm (pathsAt D t i)) with
    | some i => s!"rank {i} does not list exactly the fibers found at depth {i}"
    | none => ""

def handleC02 (j : Json) : Except String Verdict := do
  let D ← fNat j "d"
  let dflt := fIntD j "dflt" 0
  match (← fStr j "op") with
  | "ctor" =>
    let impl ← field j "impl"
    let t ← fTree impl "t" D
    let R ← parseRanks (← field impl "ranks")
    let why := mirrorWhy D t R
    let agree := sameRanks (regAll D t) (ranksPaths R) && ranksNoStale R
    pure { agree, spec := why.isEmpty, why, tags := [fStrD j "ctor" "?"] }
  | "history" =>
    match D with
    | 0 => return { agree := true, spec := true, tags := ["OUT_OF_MODEL"] }
    | d + 1 =>
      let steps ← fArr j "impl"
      let mut okAgree := true
      let mut okSpec := true
      let mut why := ""
      let mut tags : List String := []
      for st in steps do
        let opJ ← field st "op"
        let k ← fStr opJ "k"
        if !tags.contains k then tags := k :: tags
        let after ← parseTree (d + 1) (← field st "after")
        let Ra ← parseRanks (← field st "ranks_after")
        let w := mirrorWhy (d + 1) after Ra
        if !w.isEmpty then
          okSpec := false
          if why.isEmpty then why := s!"{k}: {w}"
        -- correspondence for the modelled bookkeeping operations
        match parseTree (d + 1) (← field st "before"), parseRanks (← field st "ranks_before") with
        | .ok tb, .ok Rb =>
          if wfB (d + 1) tb && mirrorB (d + 1) tb (ranksPaths Rb) && ranksNoStale Rb then
            let at_ := match opJ.getObjVal? "at" with | .ok a => (asInts a).toOption.getD [] | _ => []
            let model : Option (T (d + 1) × RankLists Int) ← (match k with
              | "ref" => do pure (some (refStepR dflt (d + 1) tb (ranksPaths Rb) (← asInts (← field opJ "p"))))
              | "posref" => do pure (some (refStepR dflt (d + 1) tb (ranksPaths Rb) (at_ ++ [← fInt opJ "c"])))
              | "clear" => pure (some (clearStepR d tb (ranksPaths Rb) at_))
              | "assignf" => do pure (some (assignStepR dflt d tb (ranksPaths Rb) at_ (treeArgOfJson (← field opJ "f"))))
              | "populate" => do
                match (← parseMutOp dflt opJ) with
                | some (.populate q a lf inn) => pure (some (populateStepR dflt d tb (ranksPaths Rb) q a lf inn))
                | _ => pure none
              | "denseref" => do
                -- iterRangeShapeRef(s, e, step): getPayloadRef(c) for every visited coordinate
                let s0 ← fInt opJ "s"; let e0 ← fInt opJ "e"; let stp ← fInt opJ "step"
                let cs := pyRange s0 e0 stp
                let refs := cs.foldl (fun (st : T (d + 1) × RankLists Int) c => refStepR dflt (d + 1) st.1 st.2 (at_ ++ [c]))
                  (tb, ranksPaths Rb)
                -- the tree also carries the values written through the references (C01's model of the step)
                match (← parseMutOp dflt opJ) with
                | some mop => pure (some ((mstep dflt d tb mop).1, refs.2))
                | none => pure (some refs)
              | "get" | "query" => pure (some (tb, ranksPaths Rb))
              | _ => pure none)
            match model with
            | some (mt, mR) =>
              -- populate appends in creation order, which the model predicts exactly
              let ranksOk := if k == "populate" then decide (mR = ranksPaths Ra) else sameRanks mR (ranksPaths Ra)
              if !(treeEq (d + 1) mt after) || !ranksOk then
                okAgree := false
                if why.isEmpty then why := s!"{k}: tree or rank lists after the step differ from the model"
            | none =>
              -- in-place arithmetic acts on leaf fibers only: the rank lists must not move
              if ["iadd", "imul", "iaddf", "imulf"].contains k then
                if !(decide (ranksPaths Rb = ranksPaths Ra)) then
                  okAgree := false
                  if why.isEmpty then why := s!"{k}: rank lists changed by leaf-level in-place arithmetic"
              else if !tags.contains "bookkeeping-unmodelled" then tags := "bookkeeping-unmodelled" :: tags
        | _, _ => pure ()
      pure { agree := okAgree, spec := okSpec, tags, why }
  | o => throw s!"C02: unknown op {o}"

end FtDriver
