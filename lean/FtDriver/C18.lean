import FtDriver.Json
open Lean (Json)
namespace FtDriver
open Ft

/-! C18 — format footprints.  Case layout (harness/props/c18.py):
  D        number of ranks (≥ 1)
  dflt     leaf default of the tensor
  spec     {"root": dict|null, "ranks": [dict|null …]}   dict = [[key, value] …] in Python order
  points   [[c …] …] coordinate prefixes queried with getFiber / getSubTree
  muts     optional [[op …] …]: batches of in-place mutations of the tensor applied between rounds of
           queries to the SAME Format object; impl.phases then holds one observation per round
  impl     {"outcome": "ok"|"rejected",
            "state": tree snapshot of the tensor, "shape": [n …] (tensor.getShape()),
            "tformat": ["C"|"U" …] the tensor's own rank formats (tags only: the code does not read them),
            "ranklists": [[[path|null, len] …] …]  (Rank.getFibers(), identity as path),
            "filled": {"root": dict, "ranks": [dict …]},
            "root": n, "ranks": [n …], "tensor": n, "tensor2": n,
            "fiber": [n|null …], "subtree": [n|null …]}
-/

def parseSpecVal (j : Json) : Except String (Option SpecVal) :=
  match j with
  | .str s => pure (some (SpecVal.str s))
  | .num _ =>
    match j.getInt? with
    | .ok i => if i < 0 then pure none else pure (some (SpecVal.int i.toNat))
    | .error _ => pure (some SpecVal.other)
  | _ => pure (some SpecVal.other)

/-- `none` = contains a negative int (outside the model: widths are `Nat`) -/
def parseDict (j : Json) : Except String (Option SpecDict) := do
  let arr ← asList j
  let mut out : SpecDict := []
  for kv in arr do
    match (← asList kv) with
    | [k, v] =>
      match (← parseSpecVal v) with
      | some sv => out := out ++ [((← k.getStr?), sv)]
      | none => return none
    | _ => throw "dict entry"
  return some out

/-- an optional dict (`null` = key missing) -/
def parseOptDict (j : Json) : Except String (Option (Option SpecDict)) := do
  if j.isNull then return some none
  match (← parseDict j) with
  | some d => return some (some d)
  | none => return none

def optNat (j : Json) : Except String (Option Nat) :=
  if j.isNull then pure none else do pure (some (← j.getNat?))

def optNatJson : Option Nat → Json
  | none => Json.null
  | some n => jNat n

def parseEntry (j : Json) : Except String FpRankEntry := do
  match (← asList j) with
  | [p, o] =>
    let path ← if p.isNull then pure none else do pure (some (← asInts p))
    pure (path, (← o.getNat?))
  | _ => throw "rank entry"

def sameDict (keys : List String) (a b : SpecDict) : Bool :=
  keys.all (fun k => lookup a k == lookup b k) && a.length == b.length

/-- fiber footprint read off the statement: header + (c + p) bits × occupancy | shape -/
def fiberStmt (l : FpLevel) (occ : Nat) : Nat :=
  l.fhbits + (l.cbits + l.pbits) * (match l.format with | .C => occ | .U => l.shape)

def fmtStr (l : FpLevel) : String := match l.format with | .C => "C" | .U => "U"

/-- branch tags from a walk of the tree -/
def treeTags (dflt : Int) (lv : Nat → FpLevel) : (d : Nat) → T (d + 1) → List String
  | 0, f =>
    let l := lv 0
    let fl := (show List (Int × Int) from f)
    (if fl.isEmpty then ["empty-leaf-fiber"] else []) ++
    (if fl.any (fun e => e.2 == dflt) then ["explicit-default"] else []) ++
    (if l.format == .U && fl.any (fun e => e.1 < 0 || e.1 ≥ (l.shape : Int)) then ["oob"] else [])
  | d + 1, f =>
    let l := lv (d + 1)
    let fl := (show List (Int × T (d + 1)) from f)
    (if fl.any (fun e => isEmpty dflt (d + 1) e.2) then
        [if l.format == .C then "C-skips-empty-child" else "U-visits-empty-child"] else []) ++
    (if l.format == .U && (List.range l.shape).any (fun c => (lookup fl (c : Int)).isNone)
      then ["U-synth-child"] else []) ++
    (if l.format == .U && fl.any (fun e => e.1 < 0 || e.1 ≥ (l.shape : Int)) then ["oob"] else []) ++
    (fl.flatMap (fun e => treeTags dflt lv d e.2))

structure PhaseResult (D : Nat) where
  oom : Bool := false
  agree : Bool := true
  failed : List String := []
  tags : List String := []
  model : Json := Json.null
  state : Option (T (D + 1)) := none

/-- one round of queries against the tensor as it is at that moment -/
def evalPhase (nR D : Nat) (dflt : Int) (ranksF : List SpecDict) (rootBits : Nat)
    (points : List (List Int)) (fmtOmitted : List Bool) (prev : Option (T (D + 1))) (impl : Json) :
    Except String (PhaseResult D) := do
  let state ← fTree impl "state" (D + 1)
  -- fibers may be unordered (`ordered=False`): the model needs unique coordinates, not sortedness
  if !fpUniqB (D + 1) state then return { oom := true }
  let shape ← asInts (← field impl "shape")
  if shape.length != nR || shape.any (· < 0) then return { oom := true }
  -- levels by height: rank i ↦ height D - i
  let levelsTop : List FpLevel := (ranksF.zip shape).map (fun es => levelOf es.1 es.2.toNat)
  let byHeight := levelsTop.reverse
  let lv : Nat → FpLevel := fun h => byHeight.getD h {}
  -- rank lists
  let ranklists ← (← fArr impl "ranklists").mapM (fun r => do (← asList r).mapM parseEntry)
  let mirror := fpMirrorB D state ranklists && ranklists.length == nR
  -- numbers reported by the implementation
  let iRoot ← fNat impl "root"
  let iRanks ← (← fArr impl "ranks").mapM (·.getNat?)
  let iTensor ← fNat impl "tensor"
  let iTensor2 ← fNat impl "tensor2"
  let iFiber ← (← fArr impl "fiber").mapM optNat
  let iSub ← (← fArr impl "subtree").mapM optNat
  -- the model (the code's algorithms)
  let mRanks := (List.range nR).map (fun i => fpGetRank (lv (D - i)) (ranklists.getD i []))
  let mTensor := fpGetTensor rootBits lv D ranklists
  let mFiber := points.map (fpGetFiber lv D state)
  let mSub := points.map (fpGetSubTree dflt lv D state)
  let agree := iRoot == rootBits && iRanks == mRanks && iTensor == mTensor &&
    iTensor2 == mTensor && iFiber == mFiber && iSub == mSub
  -- the specification (sums recomputed from raw walks of the tree), on the impl's numbers
  let sRanks := (List.range nR).map (fpRankSpec lv D state)
  let sTensor := fpTensorSpec rootBits lv D state
  let sFiber := points.map (fun p => (fpDescend D state p).map (fun it => fiberStmt (lv it.h) (fpOcc it.h it.f)))
  let sSub := points.map (fpSubTreeAtSpec dflt lv D state)
  let checks : List (String × Bool) := [
    ("root", iRoot == rootBits), ("rank", iRanks == sRanks),
    ("tensor", iTensor == sTensor), ("tensor-after-queries", iTensor2 == sTensor),
    ("fiber", iFiber == sFiber), ("subtree", iSub == sSub)]
  let failed := (checks.filter (fun c => !c.2)).map (·.1)
  let fmts := String.join (levelsTop.map fmtStr)
  -- the tensor's own rank formats (Tensor.setFormat): state the footprint code does not read
  let tformat : List String := match field impl "tformat" with
    | .ok a => (a.getArr?.toOption.getD #[]).toList.map (fun x => x.getStr?.toOption.getD "C")
    | .error _ => []
  let ttags := (if tformat.any (· == "U") then ["tensor-rank-U"] else []) ++
    (if (tformat.zip fmtOmitted).any (fun p => p.1 == "U" && p.2) then ["tensor-rank-U+format-omitted"] else []) ++
    (if (tformat.zip levelsTop).any (fun p => p.1 != fmtStr p.2) then ["tensor-format≠spec-format"] else [])
  let stored := fun (st : T (D + 1)) (p : List Int) => (fpFibersAt D st p.length).any (fun e => e.1 == some p)
  let fiberPts := points.filter (fun p => p.length < nR && p.length > 0)
  -- branches that need state carried over from an earlier round of queries
  let ptags := match prev with
    | none => []
    | some ps =>
      (if treeToJson (D + 1) ps != treeToJson (D + 1) state then ["requery:tensor-changed"] else ["requery:same-tensor"]) ++
      (if fiberPts.any (fun p => !stored ps p && stored state p) then ["requery:absent-point-now-stored"] else []) ++
      (if fiberPts.any (fun p => stored ps p && !stored state p) then ["requery:stored-point-now-absent"] else []) ++
      (if fiberPts.any (fun p => stored ps p && stored state p &&
          fpGetSubTree dflt lv D ps p != fpGetSubTree dflt lv D state p) then ["requery:stored-point-changed"] else [])
  let tags := [s!"fmt:{fmts}", s!"depth:{nR}", if mirror then "mirror" else "MIRROR_BROKEN"] ++ ttags ++ ptags ++
    (if !wfB (D + 1) state then ["unordered-fiber"] else []) ++
    (treeTags dflt lv D state).eraseDups ++
    (if points.any (fun p => p.length == nR) then ["full-point"] else []) ++
    (if fiberPts.any (fun p => !stored state p) then ["absent-point"] else [])
  let model := Json.mkObj [("root", jNat rootBits), ("ranks", jList (mRanks.map jNat)),
    ("tensor", jNat mTensor), ("fiber", jList (mFiber.map optNatJson)),
    ("subtree", jList (mSub.map optNatJson)),
    ("spec_ranks", jList (sRanks.map jNat)), ("spec_tensor", jNat sTensor),
    ("spec_subtree", jList (sSub.map optNatJson))]
  pure { agree, failed, tags, model, state := some state }

def handleC18 (j : Json) : Except String Verdict := do
  let nR ← fNat j "D"
  if nR = 0 then return { agree := true, spec := true, tags := ["OUT_OF_MODEL"] }
  let D := nR - 1
  let dflt := fIntD j "dflt" 0
  let specJ ← field j "spec"
  let impl ← field j "impl"
  let outcome ← fStr impl "outcome"
  let some rootGiven ← parseOptDict (← field specJ "root")
    | return { agree := true, spec := true, tags := ["OUT_OF_MODEL"] }
  let ranksGivenO ← (← fArr specJ "ranks").mapM parseOptDict
  if ranksGivenO.any (·.isNone) || ranksGivenO.length != nR then
    return { agree := true, spec := true, tags := ["OUT_OF_MODEL"] }
  let ranksGiven : List (Option SpecDict) := ranksGivenO.map (fun o => (o.getD none))
  let mtags := (if rootGiven.isNone then ["root-key-missing"] else []) ++
    (if ranksGiven.any (·.isNone) then ["rank-key-missing"] else []) ++
    (if ranksGiven.any (fun e => (e.getD []).length < 6) then ["fields-defaulted"] else [])
  match checkFillSpec rootGiven ranksGiven with
  | none =>
    -- the model's `_checkFillSpec` asserts: the implementation must reject too
    let ok := outcome == "rejected"
    return { agree := ok, spec := true, model := Json.str "rejected", tags := ["spec-rejected"] ++ mtags,
             why := if ok then "" else "model rejects the spec, implementation accepted it" }
  | some (rootF, ranksF) =>
    if outcome != "ok" then
      return { agree := false, spec := false, model := Json.str "ok", tags := ["impl-raised"] ++ mtags,
               why := "implementation raised on a legal spec: " ++ outcome }
    -- value kinds other than int are abstracted by the harness to 0 (= default) / 1: it then says so
    let dflt := fIntD impl "dflt" dflt
    -- what the implementation filled in (observed once, after construction)
    let filledJ ← field impl "filled"
    -- anything the implementation produced that the model cannot read is a failure, never a skipped case
    let some rootImpl ← parseDict (← field filledJ "root")
      | return { agree := false, spec := false, tags := mtags, why := "spec fails on: filled-defaults" }
    let ranksImplO ← (← fArr filledJ "ranks").mapM parseDict
    if ranksImplO.any (·.isNone) then
      return { agree := false, spec := false, tags := mtags, why := "spec fails on: filled-defaults" }
    let ranksImpl : List SpecDict := ranksImplO.map (·.getD [])
    let filledAgree := sameDict specRootKeys rootF rootImpl && ranksImpl.length == ranksF.length &&
      (ranksF.zip ranksImpl).all (fun ab => sameDict specRankKeys ab.1 ab.2)
    let filledSpec := specFilledB specRootDefault specRootKeys (rootGiven.getD []) rootImpl &&
      ranksImpl.length == ranksGiven.length &&
      (ranksGiven.zip ranksImpl).all (fun ab => specFilledB specRankDefault specRankKeys (ab.1.getD []) ab.2)
    let points ← (← fArr j "points").mapM asInts
    let fmtOmitted := ranksGiven.map (fun e => (lookup (e.getD []) "format").isNone)
    -- one Format object, queried in one or more phases; between phases the harness mutates the
    -- tensor in place.  The model is a function of the *current* tensor only.
    let phases : List Json := match fArr impl "phases" with
      | .ok l => l
      | .error _ => [impl]
    let mut agree := filledAgree
    let mut failed : List String := if filledSpec then [] else ["filled-defaults"]
    let mut tags : List String := mtags
    let mut models : List Json := []
    let mut prev : Option (T (D + 1)) := none
    let mut k := 0
    for ph in phases do
      let r ← evalPhase nR D dflt ranksF (fpGetRoot rootF) points fmtOmitted prev ph
      if r.oom then
        return { agree := false, spec := false, tags := tags ++ ["state-unreadable"],
                 why := "spec fails on: pre:state" }
      agree := agree && r.agree
      failed := failed ++ r.failed.map (fun f => if k == 0 then f else s!"{f}@{k}")
      tags := tags ++ r.tags ++ (if k > 0 then [s!"phase:{k}"] else [])
      models := models ++ [r.model]
      prev := r.state
      k := k + 1
    let spec := failed.isEmpty
    -- the model's numbers are only shipped back when something is off (keeps big runs small)
    let model := if agree && spec then Json.null
      else Json.mkObj [("filled_agree", Json.bool filledAgree), ("phases", jList models)]
    pure { agree, spec, model, tags := tags.eraseDups,
           why := if spec then "" else "spec fails on: " ++ ", ".intercalate failed }

end FtDriver
