import FtDriver.Json
open Lean (Json)
namespace FtDriver
open Ft

def handleC18 (_j : Json) : Except String Verdict := throw "C18: not implemented"

end FtDriver
