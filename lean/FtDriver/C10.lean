import FtDriver.Json
import FtDriver.C01
open Lean (Json)
namespace FtDriver
open Ft Ft.C10

/-
  C10 handler.  The harness ships the object graph of the REAL Python objects (addresses = object
  identities renumbered, data = "Kind|scalar fields", ptrs = references to mutable objects):

  value family  impl = {outcome, canonA0, canonA1 (id-free structural snapshot of the operand(s) before /
                after the call), heap (graph reachable from operand roots `ra` and result roots `rb` after the
                call), steps (follow-up mutations: side, kind, writes = objects whose record changed or that
                were allocated, optional `mut` record for the C01 step model), final (graph after all steps)}
  read family   impl = {outcome, g0, g1 (graph reachable from the operand roots before / after), roots}

  Executable specification, evaluated here on the implementation's observation:
    value:  canonA0 = canonA1  ∧  sepB ⟨heap, reach ra, reach rb⟩  ∧  validB … steps
    read:   g0 = g1 (every object reachable from the operand, including the rank lists, has the same record)
  Agreement (model = independent states): for both sides, the final real heap equals, on that side's
  final set, the heap in which only that side's writes were replayed (`heap_frame_run`), and each modelled
  follow-up mutation changes its own side's tree as the C01 step model says.
-/
namespace C10D

def parseObjRow (j : Json) : Except String (Nat × Obj String) := do
  match (← asList j) with
  | [a, d, ps] => pure ((← a.getNat?), ⟨(← d.getStr?), (← (← asList ps).mapM (·.getNat?))⟩)
  | _ => throw "C10: heap row must be [addr, data, ptrs]"

def parseHeap (j : Json) : Except String (Heap String) := do (← asList j).mapM parseObjRow

def asNats (j : Json) : Except String (List Nat) := do (← asList j).mapM (·.getNat?)

def kindOf (d : String) : String := (d.splitOn "|").headD d

def dedup (l : List String) : List String := l.foldl (fun acc s => if acc.contains s then acc else acc ++ [s]) []

def insertSorted (s : String) : List String → List String
  | [] => [s]
  | x :: xs => if s < x then s :: x :: xs else x :: insertSorted s xs

def sortStrs (l : List String) : List String := l.foldl (fun acc s => insertSorted s acc) []

structure Follow where
  side : Bool
  k : String
  writes : List (Nat × Obj String)
  mutRec : Json

def parseFollow (j : Json) : Except String Follow := do
  let s ← fNat j "side"
  let k ← fStr j "k"
  let ws ← parseHeap (← field j "writes")
  let m := (j.getObjVal? "mut").toOption.getD Json.null
  pure { side := s == 1, k, writes := ws, mutRec := m }

def stepsOf (fs : List Follow) : List (Step String) :=
  fs.flatMap (fun f => f.writes.map (fun w => ({ side := f.side, addr := w.1, obj := w.2 } : Step String)))

/-- index and description of the first write that violates the discipline -/
def firstBad : St String → List (Follow) → Option String
  | _, [] => none
  | st, f :: fs =>
    let rec go (st : St String) : List (Nat × Obj String) → St String × Option String
      | [] => (st, none)
      | w :: ws =>
        let s : Step String := { side := f.side, addr := w.1, obj := w.2 }
        if stepOkB st s then go (applyStep st s) ws
        else
          let other := st.mine (!f.side)
          let what :=
            if other.contains w.1 then s!"wrote {kindOf w.2.data} object #{w.1} of the other side"
            else match w.2.ptrs.find? (fun p => other.contains p) with
              | some p => s!"stored a reference to object #{p} of the other side into {kindOf w.2.data} #{w.1}"
              | none => s!"wrote {kindOf w.2.data} #{w.1} outside its own side"
          (st, some s!"follow-up {f.k} on the {if f.side then "result" else "operand"} side {what}")
    match go st f.writes with
    | (_, some e) => some e
    | (st', none) => firstBad st' fs

/-- the C01 step model on the mutated side's own tree: some true = agrees, some false = differs, none = not modelled -/
def mstepCheck (m : Json) : Except String (Option Bool) := do
  if m.isNull then return none
  let D ← fNat m "d"
  let dflt := fIntD m "dflt" 0
  let opJ ← field m "op"
  let before ← field m "before"
  let after ← field m "after"
  let outcome ← fStr m "outcome"
  match D with
  | 0 => return none
  | d + 1 =>
    match parseTree (d + 1) before with
    | .error _ => return none
    | .ok tb =>
      if !(wfB (d + 1) tb) then return none
      match (← parseMutOp dflt opJ) with
      | none => return none
      | some op =>
        if !(outcome == "ok" || outcome == "rejected-order" || outcome == "rejected-index") then return none
        let (mt, mo) := mstep dflt d tb op
        if mo == .badPath then return none
        match parseTree (d + 1) after with
        | .error _ => return some false
        | .ok ta => return some (treeEq (d + 1) mt ta && mo.toString == outcome)

def strList (j : Json) : Except String (List String) := do (← asList j).mapM (·.getStr?)

end C10D
open C10D

def handleC10 (j : Json) : Except String Verdict := do
  let fam ← fStr j "fam"
  let op ← fStr j "op"
  let impl ← field j "impl"
  let outcome ← fStr impl "outcome"
  let baseTags := ["fam:" ++ fam, op]
  if outcome.startsWith "skip" then
    return { agree := true, spec := true, tags := ["OUT_OF_MODEL", outcome] }
  if fam == "read" then
    let g0 ← parseHeap (← field impl "g0")
    let g1 ← parseHeap (← field impl "g1")
    let same := decide (g0 = g1)
    let why :=
      if same then "" else
        match g0.find? (fun e => get g1 e.1 != some e.2) with
        | some e => s!"{op}: {kindOf e.2.data} object #{e.1} reachable from the operand changed: {e.2.data} -> " ++
            (match get g1 e.1 with | some o => o.data ++ s!" ptrs {o.ptrs}" | none => "unreachable")
        | none => s!"{op}: objects became reachable from the operand ({g1.length - g0.length} new)"
    let errTag := if outcome == "ok" then [] else [outcome]
    return { agree := true, spec := same, tags := baseTags ++ errTag ++ (if g0.length > 12 then ["big"] else []),
             why, model := Json.mkObj [("objects", jNat g0.length)] }
  -- value family
  if outcome != "ok" then
    -- an exception is an observation: the operand must still be untouched
    let c0 ← strList (← field impl "canonA0")
    let c1 ← strList (← field impl "canonA1")
    let unch := decide (c0 = c1)
    return { agree := true, spec := unch, tags := baseTags ++ [outcome],
             why := if unch then "" else s!"{op}: raised {outcome} and left the operand changed" }
  let c0 ← strList (← field impl "canonA0")
  let c1 ← strList (← field impl "canonA1")
  let unch := decide (c0 = c1)
  let h0 ← parseHeap (← field impl "heap")
  let ra ← asNats (← field impl "ra")
  let rb ← asNats (← field impl "rb")
  let fuel := h0.length + 2
  let sa := reachList h0 fuel ra
  let sb := reachList h0 fuel rb
  let st0 : St String := { heap := h0, sa, sb }
  -- the reach sets must be closed (fuel is not trusted) and contain their roots
  if !(closedB h0 sa && closedB h0 sb && ra.all (sa.contains ·) && rb.all (sb.contains ·)) then
    throw "C10: reach set not closed (driver fuel)"
  let shared := sa.filter (fun a => sb.contains a)
  let sep := sepB st0
  let sharedKinds := sortStrs (dedup (shared.map (fun a => match get h0 a with | some o => kindOf o.data | none => "?")))
  let follows ← (← fArr impl "steps").mapM parseFollow
  let steps := stepsOf follows
  let mut why := ""
  if !unch then why := s!"{op}: the operand's structural snapshot differs after the call"
  if !sep && why.isEmpty then
    let first := match shared.head? with
      | some a => (match get h0 a with | some o => s!"#{a} {o.data.take 60}" | none => s!"#{a}")
      | none => ""
    why := s!"{op}: alias: result shares {shared.length} object(s) with the operand, kinds={"+".intercalate sharedKinds} (first {first})"
  let mut okSpec := unch && sep
  let mut okAgree := true
  let mut tags := baseTags
  if !sep then tags := tags ++ ["shared:" ++ "+".intercalate sharedKinds]
  if sep then
    -- follow-up histories: discipline, then the frame theorem's conclusion on the real final heap
    let valid := validB st0 steps
    if !valid then
      okSpec := false
      if why.isEmpty then why := s!"{op}: " ++ ((firstBad st0 follows).getD "follow-up broke the discipline")
    else
      let fin := runAll st0 steps
      let hfin ← parseHeap (← field impl "final")
      -- objects that are still reachable at the end (dropped ones are garbage, nobody can observe them)
      let dom := hfin.map (·.1)
      if !(dom.all (fun x => fin.sa.contains x || fin.sb.contains x)) then
        okAgree := false
        if why.isEmpty then why := s!"{op}: an object reachable at the end belongs to neither side's set"
      for s in [false, true] do
        let mine := (fin.mine s).filter (fun x => dom.contains x)
        if !(agreeOnB mine hfin (runOnly s h0 steps)) then
          okAgree := false
          if why.isEmpty then
            why := s!"{op}: final heap differs from the independent state of the {if s then "result" else "operand"} side"
      if !(agreeOnB dom hfin fin.heap) then
        okAgree := false
        if why.isEmpty then why := s!"{op}: writes do not reproduce the final heap"
    if !follows.isEmpty then tags := tags ++ ["followups"]
    if follows.any (·.side) && follows.any (!·.side) then tags := tags ++ ["both-sides"]
  -- the mutated side itself behaves as the C01 step model says (independent model state per side)
  let strict := match j.getObjVal? "mstrict" with | .ok (.bool b) => b | _ => false
  for f in follows do
    match (← mstepCheck f.mutRec) with
    | none => pure ()
    | some true => if !tags.contains "mstep-ok" then tags := tags ++ ["mstep-ok"]
    | some false =>
      if !tags.contains "mstep-diff" then tags := tags ++ ["mstep-diff"]
      let stepStrict := match f.mutRec.getObjVal? "strict" with | .ok (.bool b) => b | _ => false
      if strict && stepStrict then
        okAgree := false
        if why.isEmpty then why := s!"{op}: follow-up {f.k}: mutated side differs from the step model"
  pure { agree := okAgree, spec := okSpec, tags, why,
         model := Json.mkObj [("sa", jNat sa.length), ("sb", jNat sb.length), ("shared", jNat shared.length),
                              ("writes", jNat steps.length)] }

end FtDriver
