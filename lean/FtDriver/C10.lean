import FtDriver.Json
open Lean (Json)
namespace FtDriver
open Ft

def handleC10 (_j : Json) : Except String Verdict := throw "C10: not implemented"

end FtDriver
