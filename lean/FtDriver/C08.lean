import FtDriver.Json
open Lean (Json)
namespace FtDriver
open Ft

/-! C08 — splits.  Case fields: op ("uniform" | "nonuniform" | "equal" | "unequal" | "truediv" |
    "floordiv"), d (payload depth below the split fiber), k (split depth 0..2), dflt, t (tree of
    depth d+1+k), step / splits / sizes / n, pre, post, rel, act ([as, ae] or null), shape
    (observed, for truediv), re (optional second split applied one level down, k = 0 only),
    impl ({"err": cls} or {"tree", "uact", "lact", "lact2"}). -/

structure C08Split where
  op : SplitOp
  pre : Int
  post : Int
  rel : Bool
  fmtU : Bool := false

def jPair (a b : Int) : Json := jInts [a, b]

def fBoolD (j : Json) (k : String) (d : Bool) : Bool :=
  match j.getObjVal? k with
  | .ok v => (v.getBool?).toOption.getD d
  | _ => d

def ascending : List Int → Bool
  | [] => true
  | [_] => true
  | a :: b :: r => decide (a < b) && ascending (b :: r)

def parseSplit (j : Json) (shape : Int) (occ : Nat) : Except String C08Split := do
  let op ← fStr j "op"
  let pre := fIntD j "pre" 0
  let post := fIntD j "post" 0
  let rel := fBoolD j "rel" false
  let o ← match op with
    | "uniform" => do pure (SplitOp.uniform (← fInt j "step"))
    | "nonuniform" => do
      -- boundaries either as a list or as a fiber ("sfib", depth "sfd"): all stored coordinates
      match (j.getObjVal? "sfib").toOption.filter (fun v => !v.isNull) with
      | none => pure (SplitOp.nonuniform (← asInts (← field j "splits")))
      | some fj =>
        match fIntD j "sfd" 1 with
        | 1 => do pure (SplitOp.nonuniform (fiberCoords (show List (Int × T 0) from (← parseTree 1 fj))))
        | 2 => do pure (SplitOp.nonuniform (fiberCoords (show List (Int × T 1) from (← parseTree 2 fj))))
        | _ => throw "C08: boundary fiber depth"
    | "equal" => do pure (SplitOp.equal (← fInt j "step"))
    | "unequal" => do pure (SplitOp.unequal (← asInts (← field j "sizes")))
    | "truediv" => do pure (SplitOp.uniform (truedivStep shape (← fInt j "n")))
    | "floordiv" => do pure (SplitOp.equal (floordivStep occ (← fInt j "n")))
    | s => throw s!"C08: unknown op {s}"
  pure { op := o, pre, post, rel, fmtU := fBoolD j "fmtU" false }

/-- the domain of the model / theorems: positive steps, ascending boundaries, positive sizes,
    non-negative halos -/
def C08Split.ok (s : C08Split) : Bool :=
  decide (0 ≤ s.pre) && decide (0 ≤ s.post) &&
  (match s.op with
   | .uniform st => decide (1 ≤ st)
   | .equal st => decide (1 ≤ st)
   | .nonuniform S => ascending S
   | .unequal sz => sz.all (fun x => decide (1 ≤ x)))

def opTag : SplitOp → String
  | .uniform _ => "uniform" | .nonuniform _ => "nonuniform" | .equal _ => "equal" | .unequal _ => "unequal"

/-- one split function on a fiber: `none` = the implementation raises -/
abbrev SplitF (d : Nat) := T (d + 1) → Option (List (Part (T d)))

def modelF (s : C08Split) (act : Option (Int × Int)) (dflt : Int) (d : Nat) : SplitF d :=
  splitFiberParts { op := s.op, pre := s.pre, post := s.post, rel := s.rel, act := act, fmtU := s.fmtU } dflt d

/-- the declarative result (never raises) -/
def specF (s : C08Split) (act : Option (Int × Int)) (dflt : Int) (d : Nat) : SplitF d := fun f =>
  let a := effActive act (show List (Int × T d) from f)
  some (specIterOn s.op s.pre s.post a.1 a.2 s.rel (present dflt d f) (presentFmt s.fmtU dflt d a.1 a.2 f))

/-- position-space reading of equal / unequal for halo 0 (`none`: not applicable) -/
def chunkF (s : C08Split) (act : Option (Int × Int)) (dflt : Int) (d : Nat) : SplitF d := fun f =>
  let a := effActive act (show List (Int × T d) from f)
  if s.pre = 0 ∧ s.post = 0 ∧ s.fmtU = false then chunkSpec s.op a.1 a.2 s.rel (present dflt d f) else none

structure Obs where
  tree : Json
  uact : List Json
  lact : List Json
  lact2 : List Json := []

def partsJson (d : Nat) (ps : List (Part (T d))) : Json :=
  jList (ps.map (fun p => jList [jInt p.start, treeToJson (d + 1) (show T (d + 1) from p.elems)]))

def actsJson {π : Type} (ps : List (Part π)) : Json := jList (ps.map (fun p => jPair p.lo p.hi))

/-- the observation of a single split applied at depth `k` -/
def obsAt (act : Option (Int × Int)) (d : Nat) (F : SplitF d) : (k : Nat) → T (d + 1 + k) → Option Obs
  | 0, f => do
    let ps ← F f
    let a := effActive act (show List (Int × T d) from f)
    pure { tree := partsJson d ps, uact := [jPair a.1 a.2], lact := [actsJson ps] }
  | k + 1, f => do
    let rs ← mapM? (fun e => (obsAt act d F k e.2).map (fun o => (e.1, o)))
                (show List (Int × T (d + 1 + k)) from f)
    pure { tree := jList (rs.map (fun r => jList [jInt r.1, r.2.tree])),
           uact := rs.flatMap (·.2.uact), lact := rs.flatMap (·.2.lact) }

/-- a split at depth 0 followed by a second split of every partition (its own active range) -/
def obsRe (act : Option (Int × Int)) (d : Nat) (F : SplitF d)
    (G : Part (T d) → Option (List (Part (T d)))) (f : T (d + 1)) : Option Obs := do
  let ps ← F f
  let qs ← mapM? (fun p => (G p).map (fun q => (p, q))) ps
  let a := effActive act (show List (Int × T d) from f)
  pure { tree := jList (qs.map (fun pq => jList [jInt pq.1.start, partsJson d pq.2])),
         uact := [jPair a.1 a.2], lact := [actsJson ps],
         lact2 := [jList (qs.map (fun pq => actsJson pq.2))] }

def Obs.toJson (o : Obs) (re : Bool) : Json :=
  Json.mkObj ([("tree", o.tree), ("uact", jList o.uact), ("lact", jList o.lact)] ++
    (if re then [("lact2", jList o.lact2)] else []))

def errJson : Json := Json.mkObj [("err", Json.str "ERR:ValueError")]

/-- number of stored elements of every fiber at depth `k` and whether some presented element exists /
    the active range is non-empty wherever something is presented -/
def domAt (fmtU : Bool) (act : Option (Int × Int)) (dflt : Int) (d : Nat) : (k : Nat) → T (d + 1 + k) → Bool
  | 0, f =>
    let a := effActive act (show List (Int × T d) from f)
    decide (a.1 < a.2) || (presentFmt fmtU dflt d a.1 a.2 f).isEmpty
  | k + 1, f => (show List (Int × T (d + 1 + k)) from f).all (fun e => domAt fmtU act dflt d k e.2)

def presentedAt (dflt : Int) (d : Nat) : (k : Nat) → T (d + 1 + k) → Nat
  | 0, f => (present dflt d f).length
  | k + 1, f => ((show List (Int × T (d + 1 + k)) from f).map (fun e => presentedAt dflt d k e.2)).sum

def getAct (j : Json) : Option (Int × Int) :=
  match j.getObjVal? "act" with
  | .ok v => match asInts v with
    | .ok [a, b] => some (a, b)
    | _ => none
  | _ => none

/-- tags naming the branches of the splitters that a (depth-0) case exercises -/
def branchTags (s : C08Split) (a : Int × Int) (elems : Fib Int (T d)) (res : Option (List (Part (T d)))) :
    List String :=
  let cs := elems.map (·.1)
  [opTag s.op] ++
  (if s.pre > 0 then ["pre"] else []) ++ (if s.post > 0 then ["post"] else []) ++
  (if s.rel then ["rel"] else []) ++
  (if cs.any (fun c => c < a.1 - s.pre) then ["skip-before"] else []) ++
  (if cs.any (fun c => c ≥ a.2 + s.post) then ["break-after"] else []) ++
  (if cs.any (fun c => (a.1 - s.pre ≤ c && c < a.1) || (a.2 ≤ c && c < a.2 + s.post)) then ["in-halo-of-active"] else []) ++
  (match res with
   | none => ["crash-op:" ++ opTag s.op]
   | some ps =>
     (if ps.length ≥ 2 then ["multi"] else []) ++
     (if ps.any (fun p => decide (p.lo ≠ p.start) || (match s.op with | .uniform st => decide (p.hi ≠ p.start + st) | _ => false)) then ["clipped"] else []) ++
     (if (ps.map (fun p => p.elems.length)).sum > (elems.filter (fun e => inWindow a.1 a.2 s.pre s.post e.1)).length then ["shared"] else []) ++
     (if (ps.map (fun p => p.elems.length)).sum < elems.length then ["dropped"] else []))

def handleC08 (j : Json) : Except String Verdict := do
  let d ← fNat j "d"
  let k ← fNat j "k"
  let dflt := fIntD j "dflt" 0
  let act := getAct j
  let impl ← field j "impl"
  let shape := fIntD j "shape" 0
  let reJ := (j.getObjVal? "re").toOption.filter (fun v => !v.isNull)
  -- the rest depends on the (literal) split depth because the tree type does
  let finish (pre : Bool) (model : Option Obs) (spec : Option Obs) (chunk : Bool)
      (tags : List String) : Except String Verdict := do
    if !pre then return { agree := true, spec := true, tags := ["OUT_OF_MODEL"] }
    let re := reJ.isSome
    -- tensor-level splits: the rank ids of the result (the split rank, then for a re-split rank 1)
    let idsJ : List (String × Json) := match (j.getObjVal? "ids0").toOption.bind (fun v => v.getArr?.toOption) with
      | some arr =>
        let ids0 := arr.toList.filterMap (fun x => x.getStr?.toOption)
        let ids1 := splitRankIds ids0 k
        [("ids", jList ((if re then splitRankIds ids1 1 else ids1).map Json.str))]
      | none => []
    let withIds (o : Json) : Json := match o with
      | Json.obj _ => idsJ.foldl (fun acc kv => acc.setObjVal! kv.1 kv.2) o
      | _ => o
    let mj := match model with | some o => withIds (o.toJson re) | none => errJson
    let sj := match spec with | some o => withIds (o.toJson re) | none => errJson
    let specOk := impl == sj && chunk
    let why := if impl == sj then (if chunk then "" else "chunks") else s!"expected {sj.compress}"
    let agree := impl == mj
    let crash := if model.isNone then ["crash:min-empty"] else []
    pure { agree, spec := specOk, model := mj, tags := tags ++ crash, why }
  match k with
  | 0 =>
    let t ← fTree j "t" (d + 1)
    let occ := (show List (Int × T d) from t).length
    let s ← parseSplit j shape occ
    let a := effActive act (show List (Int × T d) from t)
    -- (`/` and `//` of an empty fiber compute step 0; nothing is iterated then)
    let pre := wfB (d + 1) t && (s.ok || occ == 0) && domAt s.fmtU act dflt d 0 t
    match reJ with
    | none =>
      let m := modelF s act dflt d t
      let tags := branchTags s a (presentFmt s.fmtU dflt d a.1 a.2 t) m ++ (if s.fmtU then ["fmtU"] else [])
      let chunk := match obsAt act d (chunkF s act dflt d) 0 t with
        | some o => (impl.getObjVal? "tree").toOption == some o.tree &&
                    (impl.getObjVal? "uact").toOption == some (jList o.uact) &&
                    (impl.getObjVal? "lact").toOption == some (jList o.lact)
        | none => true
      finish pre (obsAt act d (modelF s act dflt d) 0 t) (obsAt act d (specF s act dflt d) 0 t) chunk tags
    | some rj =>
      let s2 ← parseSplit rj 0 0
      let G (F2 : C08Split → Bool) : Part (T d) → Option (List (Part (T d))) := fun p =>
        -- the lower fiber is iterated again: occupancy for the boundaries, its rank's format for the filling
        let occ2 := present dflt d (show T (d + 1) from p.elems)
        let el2 := presentFmt s2.fmtU dflt d p.lo p.hi (show T (d + 1) from p.elems)
        if F2 s2 then splitIterOn s2.op s2.pre s2.post p.lo p.hi s2.rel occ2 el2
        else some (specIterOn s2.op s2.pre s2.post p.lo p.hi s2.rel occ2 el2)
      let m := obsRe act d (modelF s act dflt d) (G (fun _ => true)) t
      let sp := obsRe act d (specF s act dflt d) (G (fun _ => false)) t
      let crashOp := match modelF s act dflt d t with
        | none => ["crash-op:" ++ opTag s.op]
        | some _ => if m.isNone then ["crash-op:" ++ opTag s2.op] else []
      finish (pre && s2.ok) m sp true (["resplit", opTag s.op ++ ">" ++ opTag s2.op] ++ (if s.fmtU then ["fmtU"] else []) ++
        (if s.rel then ["rel-then-resplit"] else []) ++ crashOp)
  | 1 =>
    let t ← fTree j "t" (d + 2)
    let s ← parseSplit j shape 0
    let pre := wfB (d + 2) t && s.ok && domAt s.fmtU act dflt d 1 t
    let cfg : SplitCfg := { op := s.op, pre := s.pre, post := s.post, rel := s.rel, act := act, fmtU := s.fmtU }
    -- the tree is the model's `splitAt`; the active ranges are read off the same per-fiber splits
    let model := match splitAt cfg dflt d 1 t, obsAt act d (modelF s act dflt d) 1 t with
      | some r, some o => some { o with tree := treeToJson (d + 2 + 1) r }
      | _, _ => none
    finish pre model (obsAt act d (specF s act dflt d) 1 t) true
      (["depth1", opTag s.op] ++ (if s.fmtU then ["fmtU"] else []) ++ (if presentedAt dflt d 1 t > 0 then ["some-presented"] else []) ++
        (if model.isNone then ["crash-op:" ++ opTag s.op] else []))
  | 2 =>
    let t ← fTree j "t" (d + 3)
    let s ← parseSplit j shape 0
    let pre := wfB (d + 3) t && s.ok && domAt s.fmtU act dflt d 2 t
    let cfg : SplitCfg := { op := s.op, pre := s.pre, post := s.post, rel := s.rel, act := act, fmtU := s.fmtU }
    -- the tree is the model's `splitAt`; the active ranges are read off the same per-fiber splits
    let model := match splitAt cfg dflt d 2 t, obsAt act d (modelF s act dflt d) 2 t with
      | some r, some o => some { o with tree := treeToJson (d + 2 + 2) r }
      | _, _ => none
    finish pre model (obsAt act d (specF s act dflt d) 2 t) true
      (["depth2", opTag s.op] ++ (if s.fmtU then ["fmtU"] else []) ++ (if presentedAt dflt d 2 t > 0 then ["some-presented"] else []) ++
        (if model.isNone then ["crash-op:" ++ opTag s.op] else []))
  | _ => throw "C08: split depth > 2 not supported by the driver"

end FtDriver
