import FtDriver.Json
open Lean (Json)
namespace FtDriver
open Ft

def handleC08 (_j : Json) : Except String Verdict := throw "C08: not implemented"

end FtDriver
