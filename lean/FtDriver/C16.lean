import FtDriver.Json
open Lean (Json)
namespace FtDriver
open Ft
namespace C16
open Ft.C16

def keyStr (k : Key) : String := k.1 ++ "|" ++ k.2

def lineJson : Line → Json
  | .hdr ns => jList (ns.map Json.str)
  | .dat vs => jInts vs

def parseLine (j : Json) : Except String Line := do
  let arr ← asList j
  match arr with
  | [] => throw "empty trace line"
  | x :: _ =>
    match x.getStr? with
    | .ok _ => pure (.hdr (← arr.mapM (·.getStr?)))
    | .error _ => pure (.dat (← arr.mapM (·.getInt?)))

def parseLines (j : Json) : Except String (List Line) := do (← asList j).mapM parseLine

def optField (j : Json) (k : String) : Option Json :=
  match j.getObjVal? k with
  | .ok Json.null => none
  | .ok v => some v
  | .error _ => none

def parseOptInt (j : Json) (k : String) : Except String (Option Int) :=
  match optField j k with
  | none => pure none
  | some v => do pure (some (← v.getInt?))

def parseAny (j : Json) : Except String AnyTree := do
  let d ← fNat j "d"
  let t ← fTree j "tree" d
  pure ⟨d, t⟩

def parseSrc (j : Json) : Except String SrcKind := do
  let kind ← fStr j "kind"
  match kind with
  | "fiber" => pure (.fiber (← fNat j "x"))
  | "and" => pure (.and (← fNat j "x") (← fNat j "y"))
  | "lf" => pure (.lf (← fNat j "x") (← fNat j "y"))
  | "proj" =>
    let own := match (j.getObjVal? "own") with | .ok (Json.bool b) => b | _ => false
    pure (.proj (← fNat j "x") (← fStr j "srcRank") (← fInt j "off") (← parseOptInt j "lo") (← parseOptInt j "hi") own)
  | "dense" => pure (.dense (← fNat j "x") (← fNat j "shape"))
  | "orand" => pure (.orAnd (← fNat j "x") (← fNat j "y"))
  | s => throw s!"C16: unknown source kind {s}"

def parseLevel (j : Json) : Except String Level := do
  let pop := match (j.getObjVal? "pop") with | .ok (Json.bool b) => b | _ => false
  let zU := match (j.getObjVal? "zU") with | .ok (Json.bool b) => b | _ => false
  let uOps ← (match optField j "uOps" with
    | none => pure []
    | some v => do (← asList v).mapM (fun e => do
        match (← asInts e) with
        | [x, n] => pure (x.toNat, n.toNat)
        | _ => throw "C16: uOps"))
  pure { rank := (← fStr j "rank"), src := (← parseSrc (← field j "src")), pop := pop,
         insertPos := fIntD j "insertPos" 0, zU := zU, uOps := uOps }

def parseKey (j : Json) : Except String Key := do
  match (← asList j) with
  | [r, t] => pure ((← r.getStr?), (← t.getStr?))
  | _ => throw "C16: key"

def parseEv (j : Json) : Except String Ev := do
  let arr ← asList j
  match arr with
  | [] => throw "C16: empty event"
  | tag :: args =>
    let tag ← tag.getStr?
    match tag, args with
    | "trace", [r, ty, c] => pure (.trace (← r.getStr?) (← ty.getStr?) (← c.getBool?))
    | "match", [a, b] => pure (.matchR (← a.getStr?) (← b.getStr?))
    | "reg", [r] => pure (.reg (← r.getStr?))
    | "use", [r, c, pos, ty, ovr] =>
      let o ← (match ovr with
        | Json.null => pure none
        | v => do pure (some ((← asInts v).map Int.toNat)))
      pure (.use (← r.getStr?) (← c.getInt?) (← pos.getInt?) (← ty.getStr?) o)
    | "inc", [r] => pure (.inc (← r.getStr?))
    | "end", [r] => pure (.endI (← r.getStr?))
    | "consume", [r, ty] => pure (.consume (← r.getStr?) (← ty.getStr?))
    | "endCollect", [] => pure .endCollect
    | t, _ => throw s!"C16: bad event {t}"

/-- an observed set of trace files: key string ↦ lines (`none` = no such file) -/
def parseFiles (j : Json) (keys : List Key) : Except String (List (Key × Option (List Line))) :=
  keys.mapM (fun k => do
    match optField j (keyStr k) with
    | none => pure (k, none)
    | some v => pure (k, some (← parseLines v)))

def filesJson (fs : List (Key × Option (List Line))) : Json :=
  Json.mkObj (fs.map (fun e => (keyStr e.1, match e.2 with
    | none => Json.null
    | some ls => jList (ls.map lineJson))))

def dedup (l : List String) : List String := l.eraseDups

/-! statistics of a nest, for the branch tags -/
structure Stats where
  uses : Nat := 0
  saved : Nat := 0
  incs : Nat := 0
  bumps : Nat := 0
  subs : Nat := 0

def Stats.add (a b : Stats) : Stats :=
  ⟨a.uses + b.uses, a.saved + b.saved, a.incs + b.incs, a.bumps + b.bumps, a.subs + b.subs⟩

def itemsStats {σ : Type} (f : σ → Stats) : List (Item σ) → Stats
  | [] => {}
  | .use .. :: r => ({ uses := 1 } : Stats).add (itemsStats f r)
  | .useSaved .. :: r => ({ saved := 1 } : Stats).add (itemsStats f r)
  | .inc :: r => ({ incs := 1 } : Stats).add (itemsStats f r)
  | .save _ :: r => itemsStats f r
  | .bump _ :: r => ({ bumps := 1 } : Stats).add (itemsStats f r)
  | .sub x :: r => (({ subs := 1 } : Stats).add (f x)).add (itemsStats f r)

def nestStats : (d : Nat) → Nest d → Stats
  | 0, _ => {}
  | d + 1, (_, items) => itemsStats (nestStats d) items

def hasEmptyElems (dflt : Int) : (d : Nat) → Tree Int Int d → Bool
  | 0, _ => false
  | d + 1, f => (show List (Int × Tree Int Int d) from f).any
      (fun e => isEmpty dflt d e.2 || hasEmptyElems dflt d e.2)

def srcTag : SrcKind → String
  | .fiber _ => "fiber" | .and .. => "and" | .lf .. => "lf" | .proj .. => "proj" | .dense .. => "dense" | .orAnd .. => "orand"

def tyFamily (ty : String) : String :=
  if ty.startsWith "intersect_" then "intersect"
  else if ty.startsWith "project_" then "project"
  else if ty = "populate_1" then "populate-src"
  else if ty.startsWith "populate_" then "populate-dst"
  else ty

def handleKernel (j : Json) : Except String Verdict := do
  let dflt := fIntD j "dflt" 0
  let levels ← (← fArr j "levels").mapM parseLevel
  let ops ← (← fArr j "ops").mapM parseAny
  let z ← (match optField j "z" with
    | none => pure (⟨0, (0 : Int)⟩ : AnyTree)
    | some v => parseAny v)
  let traced ← (← fArr j "traced").mapM parseKey
  let ms ← (← fArr j "matches").mapM parseKey
  let thresholds := (← asInts (← field j "thresholds")).map Int.toNat
  let impl ← field j "impl"
  let implErr := match optField impl "err" with | some (Json.str s) => some s | _ => none
  -- preconditions of the model: sorted operands, fibers where loops need them
  let wf := ops.all (fun t => wfB t.1 t.2) && wfB z.1 z.2
  if !wf then return { agree := true, spec := true, tags := ["OUT_OF_MODEL"] }
  let tr : Key → Bool := fun k => traced.contains k
  let D := levels.length
  let env : Env := { ops := ops, z := z }
  let res := interp tr dflt D levels env
  let nest := res.2
  let calls := flatten D nest []
  let st0 := fun (n : Nat) (cons : Bool) => run (init n) (configEvs traced cons ms)
  -- model files per threshold, consumable run
  let modelFiles := thresholds.map (fun n =>
    let st := run (st0 n false) (calls ++ [.endCollect])
    (n, st.fault, traced.map (fun k => (k, st.disk k))))
  let stM := run (st0 1000 true) (calls ++ traced.map (fun k => Ev.consume k.1 k.2) ++ [.endCollect])
  let modelMem := traced.map (fun k => (k, some (stM.consumed k)))
  let modelFault := modelFiles.any (fun e => e.2.1) || stM.fault
  -- implementation observations
  let implFilesJ ← field impl "files"
  let implFiles ← thresholds.mapM (fun n => do
    match optField implFilesJ (toString n) with
    | some v => pure (n, ← parseFiles v traced)
    | none => pure (n, traced.map (fun k => (k, none))))
  let implMem ← (match optField impl "mem" with
    | some v => parseFiles v traced
    | none => pure (traced.map (fun k => (k, none))))
  -- tags
  let stt := nestStats D nest
  let anyFlush := implFiles.any (fun e => e.2.any (fun f => match f.2 with
    | some ls => decide (ls.length ≥ e.1) | none => false))
  let stagingRows := fun (ty : String) => (modelFiles.head?.map (fun e => e.2.2.any (fun f =>
    f.1.2 == ty && (match keyLevel levels f.1.1, f.2 with
      | some i, some ls => (match levels[i]? with
        | some lv => lv.pop && ls.any (fun l => match l with
            | .dat v => decide (lv.insertPos ≤ v.getLast?.getD 0) | .hdr _ => false)
        | none => false)
      | _, _ => false)))).getD false
  let tags := dedup (
    (if stagingRows "populate_write_0" then ["inserting:staging-write"] else []) ++
    (if stagingRows "populate_read_0" then ["inserting:move-from-staging"] else []) ++
    levels.map (fun lv => (if lv.pop then (if lv.zU then "popU+" else "pop+") else "") ++ srcTag lv.src ++
      (if lv.uOps.isEmpty then "" else "/U")) ++
    [s!"depth{D}"] ++
    (if stt.saved > stt.bumps then ["project-use"] else []) ++
    (if stt.bumps > 0 then ["dest-write"] else []) ++
    (if stt.incs > stt.subs + stt.bumps then ["extra-inc"] else []) ++
    (if anyFlush then ["flushed"] else []) ++
    (if ops.any (fun t => hasEmptyElems dflt t.1 t.2) then ["explicit-empty"] else []) ++
    (if modelFault then ["model-fault"] else []))
  let modelOut := Json.mkObj [
    ("files", Json.mkObj (modelFiles.map (fun e => (toString e.1, filesJson e.2.2)))),
    ("mem", filesJson modelMem), ("fault", Json.bool modelFault)]
  -- crashes
  match implErr with
  | some e =>
    return { agree := modelFault, spec := false, model := modelOut, tags := tags ++ ["impl-error"],
             why := s!"crash:{e}" }
  | none =>
  if modelFault then
    return { agree := false, spec := true, model := modelOut, tags, why := "model faults, implementation does not" }
  -- agreement: every file at every threshold, and the consumable traces
  let fileDiffs := (implFiles.zip modelFiles).flatMap (fun e =>
    (e.1.2.zip e.2.2.2).filterMap (fun f =>
      if f.1.2 = f.2.2 then none else some s!"file@{e.1.1}:{keyStr f.1.1}"))
  let memDiffs := (implMem.zip modelMem).filterMap (fun f =>
    if f.1.2 = f.2.2 then none else some s!"mem:{keyStr f.1.1}")
  -- run-time cross-check of the two readings of the nest (machine vs explicit counters)
  let simDiffs := (modelFiles.head?.map (fun e => e.2.2.filterMap (fun f =>
    let rows := (rowsOf tr D nest f.1).map Row.line
    match f.2 with
    | some (_ :: ls) => if ls = rows then none else some s!"sim:{keyStr f.1}"
    | some [] => if rows = [] then none else some s!"sim:{keyStr f.1}"
    | none => some s!"sim-nofile:{keyStr f.1}"))).getD []
  -- run-time check of the hypothesis of `trace_stamps_sorted` on this nest, for every traced key
  let wnDiffs := traced.filterMap (fun k =>
    match keyLevel levels k.1 with
    | some i => if wn k (k.2 == "iter") i D nest then none else some s!"wn:{keyStr k}"
    | none => if noKey k D nest then none else some s!"wn-unknown-rank:{keyStr k}")
  let agreeWhy := fileDiffs ++ memDiffs ++ simDiffs ++ wnDiffs
  -- specification on the implementation's files
  let first := (implFiles.head?.map (·.2)).getD []
  let specFails := first.flatMap (fun f =>
    let k := f.1
    match f.2 with
    | none => [s!"missing-file:{tyFamily k.2}"]
    | some ls =>
      match keyLevel levels k.1 with
      | none => if ls = [] then [] else ["rows-for-unknown-rank"]
      | some i =>
        (if fileShapeOK levels i k.2 ls then [] else [s!"shape:{tyFamily k.2}"]) ++
        (if fileAddrOK dflt true levels ops i k.2 ls then [] else
          (if fileAddrOK dflt true levels ops i k.2 ls (fromStamp := true) then [s!"addr-ustale:{tyFamily k.2}"]
           else if fileAddrOK dflt false levels ops i k.2 ls then [s!"addr-storage:{tyFamily k.2}"]
           else [s!"addr:{tyFamily k.2}"]))) ++
    -- flush independence: all thresholds give the same files
    (implFiles.tail.flatMap (fun e => (e.2.zip first).filterMap (fun f =>
      if f.1.2 = f.2.2 then none else some s!"flush:{tyFamily f.1.1.2}"))) ++
    -- consumable traces deliver the same rows
    ((implMem.zip first).filterMap (fun f =>
      if f.1.2 = f.2.2 then none else some s!"mem-vs-file:{tyFamily f.1.1.2}"))
  let specFails := dedup specFails
  pure { agree := agreeWhy.isEmpty, spec := specFails.isEmpty, model := modelOut, tags,
         why := ";".intercalate (specFails ++ agreeWhy.take 4) }

/-- what the file of `k` holds plus what is still buffered for it (`none`: no file, no file trace) -/
def modelContent (st : MState) (k : Key) : Option (List Line) :=
  if (st.disk k).isSome || ((st.slots k).bind (·.file)).isSome then some (content st k) else none

def handleApi (j : Json) : Except String Verdict := do
  let evs ← (← fArr j "evs").mapM parseEv
  let thresholds := (← asInts (← field j "thresholds")).map Int.toNat
  let keysJ ← fArr j "keys"
  let keys ← keysJ.mapM parseKey
  let impl ← field j "impl"
  let runs ← field impl "runs"
  let results ← thresholds.mapM (fun n => do
    let r ← field runs (toString n)
    let files ← parseFiles (← field r "files") keys
    let cons ← parseFiles (← field r "consumed") keys
    let err := match optField r "err" with | some (Json.str s) => some s | _ => none
    let st := run (init n) evs
    pure (n, st, files, cons, err))
  let diffs := results.flatMap (fun (n, st, files, cons, err) =>
    if st.fault || err.isSome then
      (if st.fault = err.isSome then [] else [s!"fault@{n}:model={st.fault}"])
    else
      files.filterMap (fun f => if modelContent st f.1 = f.2 then none else some s!"file@{n}:{keyStr f.1}") ++
      cons.filterMap (fun f => if some (st.consumed f.1) = f.2 then none else some s!"consumed@{n}:{keyStr f.1}"))
  -- spec on the implementation: no restart ⇒ same files at every threshold; a trace kept both ways
  -- delivers the same lines in memory as in the file
  let anyFault := results.any (fun (_, st, _, _, err) => st.fault || err.isSome)
  let restarted := results.any (fun (_, st, _, _, _) => st.restarted)
  let firstFiles := (results.head?.map (fun (_, _, files, _, _) => files)).getD []
  let ended := decide (evs.getLast? = some Ev.endCollect)
  let flushFails := if anyFault || restarted || !ended then [] else
    results.tail.flatMap (fun (n, _, files, _, _) => (files.zip firstFiles).filterMap (fun f =>
      if f.1.2 = f.2.2 then none else some s!"flush@{n}:{keyStr f.1.1}"))
  let both := keys.filter (fun k => evs.contains (.trace k.1 k.2 true) && evs.contains (.trace k.1 k.2 false))
  let memFails := if anyFault || restarted then [] else
    results.flatMap (fun (n, _, files, cons, _) => both.filterMap (fun k =>
      let f := ((files.find? (·.1 = k)).bind (·.2)).getD []
      let m := ((cons.find? (·.1 = k)).bind (·.2)).getD []
      -- only when everything was consumed (endCollect would assert otherwise) and the file was written
      if evs.getLast? = some .endCollect then (if f = m then none else some s!"mem-vs-file@{n}:{keyStr k}") else none))
  let specFails := flushFails ++ memFails
  let tags := dedup (
    ["api"] ++ (if anyFault then ["fault"] else []) ++ (if restarted then ["restart"] else []) ++
    (if both.isEmpty then [] else ["file+mem"]) ++
    (if results.any (fun (n, _, files, _, _) => files.any (fun f => match f.2 with
        | some ls => decide (ls.length > n) | none => false)) then ["flushed"] else []))
  let modelOut := Json.mkObj (results.map (fun (n, st, _, _, _) =>
    (toString n, Json.mkObj [("files", filesJson (keys.map (fun k => (k, modelContent st k)))),
                             ("consumed", filesJson (keys.map (fun k => (k, some (st.consumed k))))),
                             ("fault", Json.bool st.fault)])))
  pure { agree := diffs.isEmpty, spec := specFails.isEmpty, model := modelOut, tags,
         why := ";".intercalate ((specFails ++ diffs).take 6) }

end C16

def handleC16 (j : Json) : Except String Verdict := do
  let op := fStrD j "op" "kernel"
  match op with
  | "kernel" => C16.handleKernel j
  | "api" => C16.handleApi j
  | _ => throw s!"C16: unknown op {op}"

end FtDriver
