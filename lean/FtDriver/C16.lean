import FtDriver.Json
open Lean (Json)
namespace FtDriver
open Ft

def handleC16 (_j : Json) : Except String Verdict := throw "C16: not implemented"

end FtDriver
