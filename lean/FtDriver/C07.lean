import FtDriver.Json
open Lean (Json)
namespace FtDriver
open Ft

def handleC07 (_j : Json) : Except String Verdict := throw "C07: not implemented"

end FtDriver
