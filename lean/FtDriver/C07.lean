import FtDriver.Json
open Lean (Json)
namespace FtDriver
open Ft Ft.C07

/-! C07 — traversal modes.  Every helper is prefixed `c07_`. -/

def c07_optInt (j : Json) (k : String) : Option Int :=
  match j.getObjVal? k with
  | .ok v => (match v.getInt? with | .ok i => some i | _ => none)
  | _ => none

def c07_optNat (j : Json) (k : String) : Option Nat :=
  (c07_optInt j k).bind (fun i => if i < 0 then none else some i.toNat)

def c07_optPair (j : Json) (k : String) : Option (Int × Int) :=
  match j.getObjVal? k with
  | .ok v => (match asInts v with | .ok [a, b] => some (a, b) | _ => none)
  | _ => none

def c07_cfg (j : Json) : Cfg :=
  let base : Cfg := { fmt := if fStrD j "fmt" "C" == "U" then .U else .C,
                      shape := c07_optInt j "shape", active := c07_optPair j "active" }
  -- an owned fiber whose rank extent was not declared: the rank's estimate over all its fibers
  match fArr j "sibs" with
  | .ok sibs =>
    let keys : List (Fib Int Unit) := sibs.map (fun sj =>
      match asList sj with
      | .ok es => es.filterMap (fun e => match asList e with
          | .ok (c :: _) => (c.getInt?.toOption).map (fun ci => (ci, ()))
          | _ => none)
      | _ => [])
    { base with shape := rankExtent keys }
  | _ => base

/-- a yield as JSON: `[coord, storage position or -1, payload]` -/
def c07_row (d : Nat) (r : Int × Option Nat × T d) : Json :=
  jList [jInt r.1, posJson r.2.1, treeToJson d r.2.2]

def c07_rows (d : Nat) (rs : Fib Int (Option Nat × T d)) : Json := jList (rs.map (c07_row d))

def c07_corow (d : Nat) (r : Int × List (Option Nat × T d)) : Json :=
  jList [jInt r.1, jList (r.2.map (fun x => jList [posJson x.1, treeToJson d x.2]))]

def c07_corows (d : Nat) (rs : List (Int × List (Option Nat × T d))) : Json := jList (rs.map (c07_corow d))

def c07_same (a b : Json) : Bool := a.compress == b.compress

def c07_implField (j : Json) (k : String) : Json :=
  match j.getObjVal? "impl" with
  | .ok i => (i.getObjVal? k).toOption.getD Json.null
  | _ => Json.null

def c07_implErr (j : Json) : Option String :=
  match (c07_implField j "err").getStr? with
  | .ok s => some s
  | _ => none

def c07_and (l : List (Bool × String)) : Bool × String :=
  match l.find? (fun x => !x.1) with
  | some x => (false, x.2)
  | none => (true, "")

/-- a yield list as a tree of depth d+1 (drops the positions) -/
def c07_asTree (d : Nat) (rs : Fib Int (Option Nat × T d)) : T (d + 1) :=
  show List (Int × T d) from rs.map (fun x => (x.1, x.2.2))

/-- position of coordinate `c` in `f` -/
def c07_posIn {d : Nat} (f : List (Int × T d)) (c : Int) : Option Nat := getPosition f c

/-- the prune predicate families of the harness -/
def c07_pred (d : Nat) (j : Json) : Except String (Nat → Int → T d → Bool) := do
  let kind ← fStr j "kind"
  match kind with
  | "imask" => do
    let bits ← asInts (← field j "bits")
    pure (fun i _ _ => (bits.getD i 0) == 1)
  | "cmod" => do
    let a ← fInt j "a"; let b ← fInt j "b"
    pure (fun _ c _ => c % a == b)
  | "cmodimask" => do
    let a ← fInt j "a"; let b ← fInt j "b"
    let bits ← asInts (← field j "bits")
    pure (fun i c _ => c % a == b || (bits.getD i 0) == 1)
  | "all" => pure (fun _ _ _ => true)
  | k => throw s!"C07: unknown predicate {k}"

def c07_rangeTags {d : Nat} (dflt : Int) (l : List (Int × T d)) (s e : Option Int) (sp : Option Nat) : List String :=
  (if l.isEmpty then ["empty-fiber"] else []) ++
  (if l.any (fun x => isEmpty dflt d x.2) then ["skip-empty"] else []) ++
  (if l.any (fun x => geEnd e x.1) then ["break"] else []) ++
  (if l.any (fun x => !geStart s x.1) then ["below-start"] else []) ++
  (if (rangeSpec (isEmpty dflt d) s e l).isEmpty then ["slice-empty"] else ["slice-nonempty"]) ++
  (match sp with | some i => [if i == 0 then "sp0" else "sp+"] | none => [])

/-- occupancy / range / active iteration and `__iter__` on a "C" rank -/
def c07_handleRange (j : Json) (op : String) (d : Nat) (dflt : Int) : Except String Verdict := do
  let t ← fTree j "t" (d + 1)
  let l := (show List (Int × T d) from t)
  let cfg := c07_cfg j
  let emp := isEmpty dflt d
  let sp := c07_optNat j "sp"
  let old := (c07_optNat j "old").getD 0
  let act := getActive cfg l
  let (s, e) : Option Int × Option Int := match op with
    | "range" => (c07_optInt j "s", c07_optInt j "e")
    | "active" => (some act.1, some act.2)
    | _ => (none, none)
  let tags := c07_rangeTags dflt l s e sp
  if !startLegal sp l then
    let ok := c07_implErr j == some "rejected"
    return { agree := ok, spec := true, tags := "illegal-start" :: tags, why := if ok then "" else "illegal start_pos not rejected" }
  let ys := iterRange emp s e sp l
  let mrows := c07_rows d (stored ys)
  let msaved := savedAfter old sp ys
  let y1 := c07_implField j "y1"
  let after := c07_implField j "after"
  let saved := c07_implField j "saved"
  let (agree, why1) := c07_and [
    (c07_same mrows y1, "yields differ from model"),
    (c07_same (treeToJson (d + 1) t) after, "fiber changed by a read-only traversal (model)"),
    (c07_same (jNat msaved) saved, "saved position differs from model")]
  -- spec: the slice as defined; claimed without a shortcut, or with a valid one
  let valid := match sp with | some i => validStart emp s e i l | none => true
  let srows := c07_rows d (stored (rangeSpec (fun ip => emp ip.2) s e (withPos l)))
  -- the saved position: that of the last element the implementation yielded, if a shortcut was given
  let lastPos : Option Int := match (asList y1).toOption.bind (·.getLast?) with
    | some r => (match asList r with | .ok (_ :: p :: _) => p.getInt?.toOption | _ => none)
    | none => none
  let ssaved : Int := match sp with | none => old | some _ => lastPos.getD old
  let (spec, why2) := if valid then c07_and [
      (c07_same srows y1, "yields are not the named slice"),
      (c07_same (jInt ssaved) saved, "saved position is not the position of the last yielded element"),
      (c07_same (treeToJson (d + 1) t) after, "fiber changed by a read-only traversal")]
    else (true, "")
  pure { agree, spec, model := mrows, why := if why1.isEmpty then why2 else why1,
         tags := tags ++ (match sp with | some _ => [if valid then "sp-valid" else "sp-invalid"] | none => []) }

def c07_coords (j : Json) (op : String) (cfg : Cfg) {π : Type} (l : Fib Int π) : List Int :=
  let step := (c07_optInt j "step").getD 1
  let w : Wrap := if op.startsWith "rshape" then .range (fIntD j "s" 0) (fIntD j "e" 0) step
    else if op.startsWith "shape" then .shape else .active
  wrapCoords w cfg l

/-- single-fiber shape iteration, with and without reference creation -/
def c07_handleShape (j : Json) (op : String) (d : Nat) (dflt : Int) : Except String Verdict := do
  let t ← fTree j "t" (d + 1)
  let l := (show List (Int × T d) from t)
  let cfg := c07_cfg j
  let mk : T d := defaultTree dflt d
  if op.startsWith "rshape" && (c07_optInt j "step").getD 1 == 0 then
    return { agree := true, spec := true, tags := ["OUT_OF_MODEL"] }
  let cs := c07_coords j op cfg l
  let y1 := c07_implField j "y1"
  let afterJ := c07_implField j "after"
  let tags := (if cs.isEmpty then ["range-empty"] else []) ++
    (if cs.any (fun c => (lookup l c).isNone) then ["absent-coord"] else []) ++
    (if cs.any (fun c => (lookup l c).isSome) then ["stored-coord"] else []) ++
    (if l.any (fun x => !cs.contains x.1) then ["outside-range"] else []) ++
    (if l.any (fun x => isEmpty dflt d x.2) then ["explicit-empty"] else [])
  if op.endsWith "ref" then
    let r := shapeRefLoop mk l cs
    let fin := r.1
    let mrows := c07_rows d (r.2.map (fun x => (x.1, (c07_posIn fin x.1, x.2))))
    let (agree, why1) := c07_and [
      (c07_same mrows y1, "yields differ from model"),
      (c07_same (treeToJson (d + 1) (show T (d + 1) from fin)) afterJ, "fiber after the traversal differs from model")]
    let after ← parseTree (d + 1) afterJ
    let al := (show List (Int × T d) from after)
    let srows := c07_rows d (cs.map (fun c => (c, (c07_posIn al c, (lookup l c).getD mk))))
    let okTree := sortedB al &&
      (al.map (·.1) ++ l.map (·.1) ++ cs).all (fun c =>
        match lookup al c, refExpect mk l cs c with
        | some x, some y => treeEq d x y
        | none, none => true
        | _, _ => false)
    let (spec, why2) := c07_and [
      (okTree, "after a reference traversal the fiber is not the original plus exactly the visited absent coordinates"),
      (c07_same srows y1, "yields are not (coordinate, stored-or-default payload) for every coordinate of the range")]
    pure { agree, spec, model := mrows, why := if why1.isEmpty then why2 else why1,
           tags := "ref" :: tags ++ (if fin.length > l.length then ["inserted"] else []) }
  else
    let mrows := c07_rows d (shapeIter mk l cs)
    let srows := c07_rows d (shapeSpec mk l cs)
    let same := c07_same (treeToJson (d + 1) t) afterJ
    let (agree, why1) := c07_and [(c07_same mrows y1, "yields differ from model"),
      (same, "fiber changed by a read-only traversal (model)")]
    let (spec, why2) := c07_and [(c07_same srows y1, "yields are not every coordinate of the range with stored-or-default payload"),
      (same, "fiber changed by a read-only traversal")]
    pure { agree, spec, model := mrows, why := if why1.isEmpty then why2 else why1, tags }

/-- dense co-iteration -/
def c07_handleCo (j : Json) (op : String) (d : Nat) (dflt : Int) : Except String Verdict := do
  let tsJ ← fArr j "ts"
  let ts ← tsJ.mapM (parseTree (d + 1))
  let fs : List (Fib Int (T d)) := ts.map (fun t => (show List (Int × T d) from t))
  let cfg := c07_cfg j
  let mk : T d := defaultTree dflt d
  match fs with
  | [] => return { agree := true, spec := true, tags := ["OUT_OF_MODEL"] }
  | f0 :: _ =>
  let base := (op.drop 2).toString    -- "rshape…" / "shape…" / "ashape…"
  if base.startsWith "rshape" && (c07_optInt j "step").getD 1 == 0 then
    return { agree := true, spec := true, tags := ["OUT_OF_MODEL"] }
  let cs := c07_coords j base cfg f0
  let y1 := c07_implField j "y1"
  let y2 := c07_implField j "y2"
  let afterJ := c07_implField j "after"
  let tags := [s!"k{fs.length}"] ++ (if cs.isEmpty then ["range-empty"] else []) ++
    (if cs.any (fun c => fs.any (fun f => (lookup f c).isNone)) then ["absent-coord"] else []) ++
    (if cs.any (fun c => fs.any (fun f => (lookup f c).isSome)) then ["stored-coord"] else [])
  let treesJson (l : List (Fib Int (T d))) : Json :=
    jList (l.map (fun f => treeToJson (d + 1) (show T (d + 1) from f)))
  if op.endsWith "ref" then
    let r := coShapeRefLoop mk fs cs
    let fin := r.1
    let rowsOf (fin : List (Fib Int (T d))) (ys : List (Int × List (T d))) :=
      c07_corows d (ys.map (fun x => (x.1, (fin.zip x.2).map (fun fp => (c07_posIn fp.1 x.1, fp.2)))))
    let mrows := rowsOf fin r.2
    let r2 := coShapeRefLoop mk fin cs
    let (agree, why1) := c07_and [
      (c07_same mrows y1, "yields differ from model"),
      (c07_same (rowsOf r2.1 r2.2) y2, "second traversal differs from model"),
      (c07_same (treesJson r2.1) afterJ, "fibers after the traversals differ from model")]
    let afters ← (← asList afterJ).mapM (parseTree (d + 1))
    let als : List (Fib Int (T d)) := afters.map (fun t => (show List (Int × T d) from t))
    let okTrees := als.length == fs.length && (fs.zip als).all (fun p =>
      sortedB p.2 && (p.2.map (·.1) ++ p.1.map (·.1) ++ cs).all (fun c =>
        match lookup p.2 c, refExpect mk p.1 cs c with
        | some x, some y => treeEq d x y
        | none, none => true
        | _, _ => false))
    let srows := c07_corows d (cs.map (fun c => (c, (fs.zip als).map (fun p => (c07_posIn p.2 c, (lookup p.1 c).getD mk)))))
    let (spec, why2) := c07_and [
      (okTrees, "after a reference co-iteration some fiber is not the original plus exactly the visited absent coordinates"),
      (c07_same srows y1, "yields are not the tuples of stored-or-default payloads for every coordinate of the range"),
      (c07_same y1 y2, "second traversal of the same lazy fiber differs")]
    pure { agree, spec, model := mrows, why := if why1.isEmpty then why2 else why1,
           tags := "ref" :: tags ++ (if (fin.zip fs).any (fun p => p.1.length > p.2.length) then ["inserted"] else []) }
  else
    let mrows := c07_corows d (coShape mk fs cs)
    let srows := c07_corows d (coShapeSpec mk fs cs)
    let same := c07_same (treesJson fs) afterJ
    let (agree, why1) := c07_and [(c07_same mrows y1, "yields differ from model"),
      (c07_same mrows y2, "second traversal differs from model"),
      (same, "fibers changed by a read-only traversal (model)")]
    let (spec, why2) := c07_and [(c07_same srows y1, "yields are not the tuples of stored-or-default payloads for every coordinate of the range"),
      (c07_same y1 y2, "second traversal of the same lazy fiber differs"),
      (same, "fibers changed by a read-only traversal")]
    pure { agree, spec, model := mrows, why := if why1.isEmpty then why2 else why1, tags }

/-- `project` / `prune`, the lazy result iterated twice and materialised -/
def c07_handleLazy (j : Json) (op : String) (d : Nat) (dflt : Int) : Except String Verdict := do
  let t ← fTree j "t" (d + 1)
  let l := (show List (Int × T d) from t)
  let cfg := c07_cfg j
  let emp := isEmpty dflt d
  let emp' : Option Nat × T d → Bool := fun x => emp x.2
  let mk : T d := defaultTree dflt d
  let sp := c07_optNat j "sp"
  let oact := (j.getObjVal? "oact").toOption.bind (·.getBool?.toOption) == some true
  let lowerU := (j.getObjVal? "lowerU").toOption.bind (·.getBool?.toOption) == some true
  let chain := (fArr j "chain").toOption.getD []
  if oact && !chain.isEmpty then throw "C07: oact with a chain is not generated"
  let plain := (c07_optInt j "os").isNone && (c07_optInt j "oe").isNone && !oact
  let y1 := c07_implField j "y1"
  let y2 := c07_implField j "y2"
  let matJ := c07_implField j "mat"
  let afterJ := c07_implField j "after"
  let actJ := c07_implField j "act"
  let within := cfg.fmt == .C || withinActive emp cfg l
  let baseTags := (if cfg.fmt == .U then ["U"] else []) ++ (if l.isEmpty then ["empty-fiber"] else []) ++
    (if l.any (fun x => emp x.2) then ["explicit-empty"] else []) ++
    (if !plain then [if oact then "outer-active" else "outer-range"] else []) ++
    (if !chain.isEmpty then ["lazy-operand"] else []) ++ (if lowerU then ["lower-rank-U"] else []) ++
    (match sp with | some i => [if i == 0 then "sp0" else "sp+"] | none => [])
  -- first stage on the eager fiber: raw yields of the iterator class, the result's active range,
  -- spec rows (if the case is in the property's domain), tags
  let (raw0, mact, spec0, tags) ← (match op with
    | "project" => do
      let k ← fInt j "k"; let mm ← fInt j "m"
      let iv := c07_optPair j "iv"
      let valid : Bool := match sp with
        | none => true
        | some i => decide (0 < k) && projValidStart emp k mm iv i l
      let inDomain := k != 0 && valid && within
      let srows := if inDomain then some (projectSpec emp k mm iv none none l) else none
      let tr := (l.map (fun x => k * x.1 + mm))
      let tg := (if k < 0 then ["rev"] else ["fwd"]) ++ (if iv.isSome then ["iv"] else []) ++
        (match iv with
         | some (lo, hi) => (if tr.any (fun c => c ≥ hi) then ["iv-break"] else []) ++ (if tr.any (fun c => c < lo) then ["iv-below"] else [])
         | none => []) ++
        (if sp.isSome then [if valid then "sp-valid" else "sp-invalid"] else []) ++
        (if !within then ["U-outside-active"] else [])
      pure (projectRaw emp mk cfg k mm iv sp l, projActive cfg k mm iv l, srows, tg)
    | "prune" => do
      let pred ← c07_pred d (← field j "pred")
      let valid : Bool := match sp with
        | none => true
        | some i => (cfg.fmt == .U && decide (i < l.length)) || validStart emp none none i l
      let srows := if valid then some (pruneSpec emp mk cfg pred none none l) else none
      pure (pruneRaw emp mk cfg pred sp l, getActive cfg l, srows,
            (if sp.isSome then [if valid then "sp-valid" else "sp-invalid"] else []))
    | o => throw s!"C07: unknown lazy op {o}")
  -- later stages take the lazy result as their operand
  let mut raw := raw0
  let mut specRows := spec0
  for st in chain do
    match (← fStr st "op") with
    | "project" =>
      let k ← fInt st "k"; let mm ← fInt st "m"
      let iv := c07_optPair st "iv"
      raw := raw.bind (projectOfLazy emp' k mm iv none)
      specRows := if k > 0 then specRows.map (fun r => (transF k mm r).filter (fun x => inIv iv x.1)) else none
    | "prune" =>
      let pred ← c07_pred d (← field st "pred")
      raw := raw.bind (pruneOfLazy emp' (fun i c x => pred i c x.2) none)
      specRows := specRows.map (fun r => ((r.zipIdx).filter (fun x => pred x.2 x.1.1 x.1.2.2)).map (·.1))
    | o => throw s!"C07: unknown chain stage {o}"
  -- the traversal of the final lazy fiber
  let iact : Option (Int × Int) := match asInts actJ with | .ok [a, b] => some (a, b) | _ => none
  let (mos, moe) : Option Int × Option Int := if oact then (some mact.1, some mact.2) else (c07_optInt j "os", c07_optInt j "oe")
  let (sos, soe) : Option Int × Option Int := if oact then (iact.map (·.1), iact.map (·.2)) else (c07_optInt j "os", c07_optInt j "oe")
  let m := raw.map (lazyIter emp' mos moe)
  specRows := specRows.map (fun r => r.filter (fun x => geStart sos x.1 && !geEnd soe x.1))
  let tags := op :: baseTags ++ tags
  let unchanged := c07_same (treeToJson (d + 1) t) afterJ
  match m with
  | .error e =>
    let ok := c07_implErr j == some e.toString
    -- the property claims a result for every case of its domain
    let spec := specRows.isNone
    pure { agree := ok, spec, tags := s!"model-{e.toString}" :: tags,
           why := if !ok then s!"model expects {e.toString}" else if !spec then s!"{e.toString} on an input of the property's domain" else "" }
  | .ok rows =>
    let mrows := c07_rows d rows
    let mmat := treeToJson (d + 1) (fromLazy dflt d (rows.map (fun x => (x.1, x.2.2))))
    let (agree, why1) := c07_and [
      ((c07_implErr j).isNone, "implementation raised, model yields"),
      (c07_same mrows y1, "yields differ from model"),
      (c07_same mrows y2, "second traversal differs from model"),
      (!oact || c07_same (jInts [mact.1, mact.2]) actJ, "active range of the lazy result differs from model"),
      (!plain || lowerU || c07_same mmat matJ, "fromLazy differs from model"),
      (unchanged, "source fiber changed (model)")]
    let (spec, why2) ← (match specRows with
      | none => pure (true, "")
      | some sr => do
        let matOk ← (if plain && (c07_implErr j).isNone then do
            let mat ← parseTree (d + 1) matJ
            pure (wfB (d + 1) mat && fiberEq dflt dflt (d + 1) mat (c07_asTree d sr))
          else pure true)
        pure (c07_and [
          ((c07_implErr j).isNone, "exception on an input of the property's domain"),
          (c07_same (c07_rows d sr) y1, "yields are not the fiber's payloads under the transformed / filtered coordinates"),
          (c07_same y1 y2, "second traversal of the same lazy fiber differs"),
          (matOk, "fromLazy of the lazy fiber is not equal to the eager fiber of its elements"),
          (unchanged, "source fiber changed")]))
    pure { agree, spec, model := mrows, why := if why1.isEmpty then why2 else why1,
           tags := tags ++ (if rows.isEmpty then ["result-empty"] else ["result-nonempty"]) }

/-- `reversed(fiber)` / `reversed(tensor)` -/
def c07_handleReversed (j : Json) (d : Nat) : Except String Verdict := do
  let t ← fTree j "t" (d + 1)
  let l := (show List (Int × T d) from t)
  let rows := c07_rows d (stored (reversedIter l))
  let srows := c07_rows d (stored ((withPos l).reverse))
  let y1 := c07_implField j "y1"
  let same := c07_same (treeToJson (d + 1) t) (c07_implField j "after")
  let (agree, why1) := c07_and [(c07_same rows y1, "yields differ from model"), (same, "fiber changed (model)")]
  let (spec, why2) := c07_and [(c07_same srows y1, "yields are not the stored elements in reversed order"), (same, "fiber changed")]
  pure { agree, spec, model := rows, why := if why1.isEmpty then why2 else why1,
         tags := (if l.length ≥ 2 then ["reversed-nontrivial"] else []) }

/-- one traversal op on the case `j` (which carries its own `impl` observation) -/
def c07_dispatch (j : Json) (op : String) (d : Nat) (dflt : Int) : Except String Verdict :=
  let cfg := c07_cfg j
  match op with
  | "range" | "occ" | "active" => c07_handleRange j op d dflt
  | "iter" => if cfg.fmt == .U then c07_handleShape j "ashape" d dflt else c07_handleRange j "occ" d dflt
  | "rshape" | "shape" | "ashape" | "rshaperef" | "shaperef" | "ashaperef" => c07_handleShape j op d dflt
  | "corshape" | "coshape" | "coashape" | "corshaperef" | "coshaperef" | "coashaperef" => c07_handleCo j op d dflt
  | "project" | "prune" => c07_handleLazy j op d dflt
  | "reversed" => c07_handleReversed j d
  | o => throw s!"C07: unknown op {o}"

/-- several steps on the same fiber objects: traversals, read-only calls ("touch") and growth
    (`append`, assignment through `getPayloadRef`).  The model has no hidden state: every
    traversal is the model's function of the *current* trees and the rank configuration, so an
    earlier call may influence a later traversal only through the trees. -/
def c07_handleSeq (j : Json) (d : Nat) (dflt : Int) : Except String Verdict := do
  let steps ← fArr j "steps"
  let obs ← asList (c07_implField j "steps")
  if steps.length != obs.length then throw "C07 seq: steps/impl length mismatch"
  let t0 ← field j "t"
  let others := (fArr j "others").toOption.getD []
  let mut state : List Json := t0 :: others
  let mut agree := true
  let mut spec := true
  let mut why := ""
  let mut tags : List String := ["seq"]
  let mut grown := false
  let mut touched := false
  for (st, ob) in steps.zip obs do
    let op ← fStr st "op"
    let before ← field ob "before_all"
    let afterAll ← asList (← field ob "after_all")
    if !(c07_same before (jList state)) then
      agree := false
      if why.isEmpty then why := s!"state before step {op} differs from the model's"
    match op with
    | "append" | "refassign" =>
      if d != 0 then throw "C07 seq: growth steps are modelled for leaf fibers only"
      let cur : T 1 ← parseTree 1 (state.headD Json.null)
      let l := (show List (Int × T 0) from cur)
      let c ← fInt st "c"
      let v ← fInt st "v"
      let nt : Option (T 1) :=
        if op == "append" then
          (match l.getLast? with
           | some e => if e.1 < c then some (show T 1 from l ++ [(c, (show T 0 from v))]) else none
           | none => some (show T 1 from [(c, (show T 0 from v))]))
        else some (updateAt (fun _ => v) 1 (refAt dflt 1 cur [c]) [c])
      match nt with
      | none =>
        let ok := (ob.getObjVal? "err").toOption.bind (·.getStr?.toOption) == some "rejected"
        if !ok then agree := false; if why.isEmpty then why := "append of a non-increasing coordinate not rejected"
      | some nt =>
        let exp := treeToJson 1 nt :: state.drop 1
        if !(c07_same (jList exp) (jList afterAll)) then
          agree := false
          if why.isEmpty then why := s!"fiber after {op} differs from model"
        grown := true
      state := afterAll
      tags := if tags.contains op then tags else tags ++ [op]
    | "touch" =>
      if (ob.getObjVal? "err").toOption.isSome then
        agree := false; spec := false
        if why.isEmpty then why := "a read-only call raised"
      if !(c07_same (jList state) (jList afterAll)) then
        agree := false; spec := false
        if why.isEmpty then why := "a read-only call changed the fiber"
      touched := true
      let w := "touch:" ++ fStrD st "what" "?"
      tags := if tags.contains w then tags else tags ++ [w]
    | _ =>
      -- the step as a stand-alone case on the current trees, with this step's observation
      let isCo := op.startsWith "co"
      let sub0 := (j.mergeObj st).setObjVal! "impl" ob
      let sub := if isCo then (sub0.setObjVal! "ts" (jList state)).setObjVal! "t" Json.null
        else sub0.setObjVal! "t" (state.headD Json.null)
      let v ← c07_dispatch sub op d dflt
      if !v.agree then
        agree := false
        if why.isEmpty then why := s!"step {op}: {v.why}"
      if !v.spec then
        spec := false
        if why.isEmpty then why := s!"step {op}: {v.why}"
      let extra := [s!"step:{op}"] ++ (if grown then ["traversal-after-growth"] else []) ++
        (if touched then ["traversal-after-touch"] else []) ++ v.tags.filter (fun t => t == "absent-coord" || t == "inserted" || t == "skip-empty")
      tags := tags ++ extra.filter (fun t => !tags.contains t)
      -- the handlers have compared the observation's `after` with the model's resulting trees
      state := if isCo then afterAll else (afterAll.headD Json.null) :: state.drop 1
      if !isCo && !(c07_same (jList (afterAll.drop 1)) (jList (state.drop 1))) then
        agree := false
        if why.isEmpty then why := s!"step {op} changed a fiber it does not involve"
  pure { agree, spec, why, tags }

def handleC07 (j : Json) : Except String Verdict := do
  let op ← fStr j "op"
  let d ← fNat j "d"
  let dflt := fIntD j "dflt" 0
  -- precondition: well-formed operands
  let okT := match j.getObjVal? "t" with
    | .ok tj => tj.isNull || (match parseTree (d + 1) tj with | .ok t => wfB (d + 1) t | _ => false)
    | _ => true
  let okTs := match fArr j "ts" with
    | .ok l => l.all (fun tj => match parseTree (d + 1) tj with | .ok t => wfB (d + 1) t | _ => false)
    | _ => true
  let okOthers := match fArr j "others" with
    | .ok l => l.all (fun tj => match parseTree (d + 1) tj with | .ok t => wfB (d + 1) t | _ => false)
    | _ => true
  if !(okT && okTs && okOthers) then return { agree := true, spec := true, tags := ["OUT_OF_MODEL"] }
  let cfg := c07_cfg j
  let v ← (if op == "seq" then c07_handleSeq j d dflt else c07_dispatch j op d dflt)
  let extra := [s!"op:{op}", if cfg.fmt == .U then "fmt:U" else "fmt:C", s!"depth:{d + 1}", s!"dflt:{dflt}",
    fStrD j "kind" "free"] ++ (if cfg.shape.isSome then ["shape-declared"] else []) ++
    (if cfg.active.isSome then ["active-set"] else []) ++
    (["sibs", "sub", "fdflt", "vk", "spbox", "fmtvia", "between", "chain", "oact", "lowerU", "via", "tshape"].filterMap (fun k =>
      match j.getObjVal? k with
      | .ok v => if v.isNull then (if k == "tshape" then some "extent-estimated" else none)
                 else some (if k == "vk" then s!"vk:{v.getStr?.toOption.getD ""}" else if k == "tshape" then "extent-declared" else s!"has:{k}")
      | _ => none)) ++
    (if (c07_optInt j "step").getD 1 < 0 then ["neg-step"] else [])
  pure { v with tags := (if v.tags.contains "OUT_OF_MODEL" then v.tags else extra ++ v.tags) }

end FtDriver
