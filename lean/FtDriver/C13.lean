import FtDriver.Json
open Lean (Json JsonNumber)
namespace FtDriver
open Ft

/-! C13 handler: `fromU`, `yaml`, `random` cases (see harness/props/c13.py).

Leaf values are ints or floats that are multiples of 1/8; the driver works with the
value scaled by 8 (an injective map that respects Python's numeric `==`, so `0.0` and
`0` are the same value, as they are for `p != default`). -/

namespace C13

def vScale : Nat := 8

/-- a JSON number times `scale`, which must be an integer -/
def parseScaled (scale : Nat) (j : Json) : Except String Int := do
  let n ← j.getNum?
  let num : Int := n.mantissa * (scale : Int)
  let den : Int := ((10 ^ n.exponent : Nat) : Int)
  if num % den == 0 then pure (num / den)
  else throw s!"number {j.compress} is not a multiple of 1/{scale}"

def pVal (j : Json) : Except String Int := parseScaled vScale j

/-- a DEFAULT: a number, or `{"nonnum": kind}` for `None` / `""` / `()` — values no int/float entry
    equals; they are represented by odd sentinels far outside the range of scaled entries -/
def pDflt (j : Json) : Except String Int :=
  match j.getObjVal? "nonnum" with
  | .ok k => match k with
    | Json.str "None" => pure (10 ^ 30 + 1)
    | Json.str "str" => pure (10 ^ 30 + 3)
    | Json.str "tuple" => pure (10 ^ 30 + 5)
    | _ => throw "unknown non-numeric default"
  | .error _ => pVal j
def jVal (v : Int) : Json := if v % 8 == 0 then jInt (v / 8) else Json.num ⟨v * 125, 3⟩

abbrev N := Nest Int
abbrev TN := Tree Nat Int
abbrev TY := Tree YCoord Int

def parseNest : (d : Nat) → Json → Except String (N d)
  | 0, j => pVal j
  | d + 1, j => do
    let arr ← asList j
    let r ← arr.mapM (parseNest d)
    pure (show List (N d) from r)

def nestToJson : (d : Nat) → N d → Json
  | 0, v => jVal (show Int from v)
  | d + 1, l => jList ((show List (N d) from l).map (nestToJson d))

def parseTN : (d : Nat) → Json → Except String (TN d)
  | 0, j => pVal j
  | d + 1, j => do
    let arr ← asList j
    let r ← arr.mapM (fun e => do
      match (← asList e) with
      | [c, t] => do pure ((← c.getNat?), (← parseTN d t))
      | _ => throw "tree: expected [coord, payload]")
    pure (show List (Nat × TN d) from r)

def tnToJson : (d : Nat) → TN d → Json
  | 0, v => jVal (show Int from v)
  | d + 1, f => jList ((show List (Nat × TN d) from f).map (fun e => jList [jNat e.1, tnToJson d e.2]))

def parseYCoord (j : Json) : Except String YCoord :=
  match j with
  | Json.arr a =>
    match a.toList.mapM (·.getInt?) with
    | .ok l => pure (YCoord.tup l)
    | .error _ => pure (YCoord.other j.compress)     -- e.g. the shape ((2, 2), 2) of a rank flattened twice
  | _ => do pure (YCoord.int (← j.getInt?))

def yCoordToJson : YCoord → Json
  | .int i => jInt i
  | .tup l => jInts l
  | .other s => Json.str s

def parseTY : (d : Nat) → Json → Except String (TY d)
  | 0, j => pVal j
  | d + 1, j => do
    let arr ← asList j
    let r ← arr.mapM (fun e => do
      match (← asList e) with
      | [c, t] => do pure ((← parseYCoord c), (← parseTY d t))
      | _ => throw "tree: expected [coord, payload]")
    pure (show List (YCoord × TY d) from r)

def tyToJson : (d : Nat) → TY d → Json
  | 0, v => jVal (show Int from v)
  | d + 1, f => jList ((show List (YCoord × TY d) from f).map (fun e => jList [yCoordToJson e.1, tyToJson d e.2]))

/-- `{"fiber": {"coords": [...], "payloads": [...]}}` or a scalar -/
def parseYDict : (d : Nat) → Json → Except String (YDict YCoord Int d)
  | 0, j => pVal j
  | d + 1, j => do
    let f ← field j "fiber"
    let cs ← (← fArr f "coords").mapM parseYCoord
    let ps ← (← fArr f "payloads").mapM (parseYDict d)
    pure (show List YCoord × List (YDict YCoord Int d) from (cs, ps))

def yDictToJson : (d : Nat) → YDict YCoord Int d → Json
  | 0, v => jVal (show Int from v)
  | d + 1, y =>
    let y' := (show List YCoord × List (YDict YCoord Int d) from y)
    Json.mkObj [("fiber", Json.mkObj [("coords", jList (y'.1.map yCoordToJson)),
                                      ("payloads", jList (y'.2.map (yDictToJson d)))])]

def listBeq {α : Type} (eq : α → α → Bool) : List α → List α → Bool
  | [], [] => true
  | x :: xs, y :: ys => eq x y && listBeq eq xs ys
  | _, _ => false

def nestBeq : (d : Nat) → N d → N d → Bool
  | 0, a, b => decide ((show Int from a) = (show Int from b))
  | d + 1, a, b => listBeq (nestBeq d) (show List (N d) from a) (show List (N d) from b)

def treeBeq {κ : Type} [DecidableEq κ] : (d : Nat) → Tree κ Int d → Tree κ Int d → Bool
  | 0, a, b => decide ((show Int from a) = (show Int from b))
  | d + 1, a, b => listBeq (fun x y => decide (x.1 = y.1) && treeBeq d x.2 y.2)
                     (show List (κ × Tree κ Int d) from a) (show List (κ × Tree κ Int d) from b)

def yDictBeq : (d : Nat) → YDict YCoord Int d → YDict YCoord Int d → Bool
  | 0, a, b => decide ((show Int from a) = (show Int from b))
  | d + 1, a, b =>
    let a' := (show List YCoord × List (YDict YCoord Int d) from a)
    let b' := (show List YCoord × List (YDict YCoord Int d) from b)
    decide (a'.1 = b'.1) && listBeq (yDictBeq d) a'.2 b'.2

def optBeq {α : Type} (eq : α → α → Bool) : Option α → Option α → Bool
  | none, none => true
  | some a, some b => eq a b
  | _, _ => false

/-- `null` → none -/
def optField {α : Type} (j : Json) (k : String) (p : Json → Except String α) : Except String (Option α) :=
  match j.getObjVal? k with
  | .ok Json.null => pure none
  | .ok v => do pure (some (← p v))
  | .error _ => pure none

def optJson {α : Type} (f : α → Json) : Option α → Json
  | none => Json.null
  | some a => f a

def clauses (l : List (String × Bool)) : String :=
  ",".intercalate ((l.filter (fun c => !c.2)).map (·.1))

def anyEntry (p : Int → Bool) : (d : Nat) → N d → Bool
  | 0, v => p (show Int from v)
  | d + 1, l => (show List (N d) from l).any (anyEntry p d)

/-- some proper sub-nest is entirely default -/
def hasDefaultSub (dflt : Int) : (d : Nat) → N d → Bool
  | 0, _ => false
  | d + 1, l => (show List (N d) from l).any (fun x => (decide (d ≥ 1) && allDefault dflt d x) || hasDefaultSub dflt d x)

/-! #### fromU -/

def handleFromU (j : Json) : Except String Verdict := do
  let dep ← fNat j "d"
  let dflt ← pDflt (← field j "dflt")
  let dims ← (← fArr j "dims").mapM (·.getNat?)
  let kind ← fStr j "kind"
  match dep with
  | 0 => return { agree := true, spec := true, tags := ["OUT_OF_MODEL"] }
  | d + 1 =>
    let nest ← parseNest (d + 1) (← field j "nest")
    -- precondition of the property: rectangular, every dimension at least 1
    if !(rectB (d + 1) dims nest) || dims.any (· == 0) then
      return { agree := true, spec := true, tags := ["OUT_OF_MODEL"] }
    let impl ← field j "impl"
    let iTree ← optField impl "tree" (parseTN (d + 1))
    let iShape ← optField impl "shape" (fun s => do (← asList s).mapM (·.getNat?))
    let iUnc ← optField impl "unc" (parseNest (d + 1))
    let iUnc0 ← optField impl "unc0" (parseNest (d + 1))
    -- the leaf default the built object reports; content / explicit defaults are relative to IT
    let iDflt ← optField impl "dflt" pDflt
    let oDflt := iDflt.getD dflt
    -- model
    let mTree := fromUncompressed dflt d nest
    let mShape := if kind == "tensor" then calcShape d nest else fiberShape dflt d nest
    let owned := kind == "tensor"
    let mUnc := uncompress owned dflt d dims mTree
    let mUnc0 := if mShape.length == d + 1 then uncompress owned dflt d mShape mTree else none
    let agree := optBeq (treeBeq (d + 1)) iTree (some mTree) && decide (iShape = some mShape) &&
                 optBeq (nestBeq (d + 1)) iUnc mUnc && optBeq (nestBeq (d + 1)) iUnc0 mUnc0 &&
                 (iTree.isNone || iDflt == some dflt)
    -- the property, evaluated on the implementation's observation
    let cl := match iTree with
      | none => [("built", false)]
      | some t =>
        [("sorted", wfB (d + 1) t),
         ("default", iDflt == some dflt),
         ("no-explicit-default", noEmptyB oDflt (d + 1) t),
         ("content", decide (content oDflt (d + 1) t = nestContent dflt (d + 1) nest)),
         ("shape", decide (iShape = some dims)),
         ("uncompress", optBeq (nestBeq (d + 1)) iUnc (some nest)),
         ("uncompress-noarg", optBeq (nestBeq (d + 1)) iUnc0 (some nest))]
    let isAll := allDefault dflt (d + 1) nest
    let tags :=
      (if isAll then ["allDefault"] else []) ++
      (if !isAll && anyEntry (· == dflt) (d + 1) nest then ["mixed"] else []) ++
      (if !isAll && !anyEntry (· == dflt) (d + 1) nest then ["dense"] else []) ++
      (if !isAll && hasDefaultSub dflt (d + 1) nest then ["allDefaultSub"] else []) ++
      (if mUnc.isNone then ["uncompressRaises"] else []) ++
      (match j.getObjVal? "fmt" with
       | .ok (Json.arr a) => if a.size > 0 then ["formatU"] else []
       | _ => []) ++
      [s!"depth{d + 1}", kind]
    pure { agree, spec := cl.all (·.2), why := clauses cl, tags,
           model := Json.mkObj [("tree", tnToJson (d + 1) mTree), ("shape", jList (mShape.map jNat)),
                                ("unc", optJson (nestToJson (d + 1)) mUnc),
                                ("unc0", optJson (nestToJson (d + 1)) mUnc0)] }

/-! #### yaml / dict -/

structure Loaded (d : Nat) where
  tree : TY d
  rankIds : List String
  shape : List YCoord
  name : String

def parseLoaded (d : Nat) (j : Json) : Except String (Loaded d) := do
  let tree ← parseTY d (← field j "tree")
  let rankIds ← (← fArr j "rank_ids").mapM (·.getStr?)
  let shape ← (← fArr j "shape").mapM parseYCoord
  let name ← fStr j "name"
  pure { tree, rankIds, shape, name }

def loadedToJson (d : Nat) (l : Loaded d) : Json :=
  Json.mkObj [("tree", tyToJson d l.tree), ("rank_ids", jList (l.rankIds.map Json.str)),
              ("shape", jList (l.shape.map yCoordToJson)), ("name", Json.str l.name)]

def loadedBeq (d : Nat) (a b : Loaded d) : Bool :=
  treeBeq d a.tree b.tree && decide (a.rankIds = b.rankIds) && decide (a.shape = b.shape) &&
  decide (a.name = b.name)

def hasExplicitEmpty (dflt : Int) : (d : Nat) → TY d → Bool
  | 0, _ => false
  | d + 1, f => (show List (YCoord × TY d) from f).any (fun e => isEmpty dflt d e.2 || hasExplicitEmpty dflt d e.2)

def handleYaml (j : Json) : Except String Verdict := do
  let kind ← fStr j "kind"
  let isTensor := kind == "tensor"
  let orig ← field j "orig"
  if orig == Json.null then
    -- the object could not even be constructed by the implementation
    return { agree := true, spec := false, why := "built", tags := ["buildFailed", kind] }
  let dflt ← pDflt (← field orig "dflt")
  let reqDflt ← optField orig "req_dflt" pDflt
  let d ← fNat orig "depth"
  let o ← parseLoaded d orig
  let impl ← field j "impl"
  let iDict ← optField impl "dict" (parseYDict d)
  let iRt ← optField impl "dict_rt" (parseTY d)
  let iDictEq ← (← field impl "dict_eq").getBool?
  let iLoaded ← optField impl "loaded" (parseLoaded d)
  let iEq ← (← field impl "eq").getBool?
  let iEqRev ← (← field impl "eq_rev").getBool?
  -- the deprecated loader Tensor(yamlfile=...) (tensors only)
  let iCtor ← optField impl "ctor" (fun c => do
    let l ← parseLoaded d c
    let e ← (← field c "eq").getBool?
    pure (l, e))
  let iLoadedDflt ← optField impl "loaded_dflt" pDflt
  let oFShape := (orig.getObjVal? "fshape").toOption
  let iFShape := (impl.getObjVal? "loaded_fshape").toOption
  -- model
  let mDict := fiber2dict d o.tree
  let mRt := dict2fiber d mDict
  let mDictEq := match mRt with
    -- the harness rebuilds with `Fiber.dict2fiber(dict, default=<the original's default>)`
    | some r => eqB dflt dflt d r o.tree && eqB dflt dflt d o.tree r
    | none => false
  let rep : TRep YCoord Int d :=
    { rankIds := o.rankIds, shape := o.shape, name := o.name, root := o.tree, dflt := dflt }
  let mLoadedD : Option (Loaded d × Int) :=
    if isTensor then
      (tensorYamlRoundtrip (0 : Int) rep).map
        (fun r => ({ tree := r.root, rankIds := r.rankIds, shape := r.shape, name := r.name }, r.dflt))
    else
      match d with
      | 0 => none
      | d' + 1 => (fiberYamlRoundtrip d' o.tree).map
                    (fun r => ({ tree := r, rankIds := [], shape := [], name := "" }, dflt))
  let mLoaded := mLoadedD.map (·.1)
  let (mEq, mEqRev) := match mLoadedD with
    | some (l, ldflt) => (decide (l.rankIds = o.rankIds) && eqB ldflt dflt d l.tree o.tree,
                          decide (o.rankIds = l.rankIds) && eqB dflt ldflt d o.tree l.tree)
    | none => (false, false)
  let mCtor : Option (Loaded d × Bool) :=
    if isTensor then
      (tensorCtorRoundtrip (0 : Int) rep).map (fun r =>
        ({ tree := r.root, rankIds := r.rankIds, shape := r.shape, name := r.name },
         decide (r.rankIds = o.rankIds) && eqB r.dflt dflt d r.root o.tree && eqB dflt r.dflt d o.tree r.root))
    else none
  let mLoadedDflt : Option Int := if isTensor && d ≥ 1 then mLoadedD.map (·.2) else none
  let agree := optBeq (yDictBeq d) iDict (some mDict) && optBeq (treeBeq d) iRt mRt &&
               (iDictEq == mDictEq) && optBeq (loadedBeq d) iLoaded mLoaded &&
               (iEq == mEq) && (iEqRev == mEqRev) &&
               optBeq (fun a b => loadedBeq d a.1 b.1 && a.2 == b.2) iCtor mCtor &&
               (iLoadedDflt == mLoadedDflt)
  -- the property on the implementation's observation
  let cl := [("dict-roundtrip-equal", iDictEq)] ++
    -- the object was built with the default that was asked for (no transform in between)
    (match reqDflt with
     | some r => if d ≥ 1 then [("constructed-default", r == dflt)] else []
     | none => []) ++
    (match iLoaded with
     | none => [("yaml-loads", false)]
     | some l => [("yaml-equal", iEq && iEqRev),
                  ("rank-ids", decide (l.rankIds = o.rankIds)),
                  ("shape", decide (l.shape = o.shape)),
                  ("name", decide (l.name = o.name))]) ++
    -- a fiber's shape (as getShape() reports it) survives the round trip
    (if !isTensor && iLoaded.isSome then [("fiber-shape", oFShape.isSome && oFShape == iFShape)] else []) ++
    -- the deprecated loader, rank 0 included
    (if isTensor then
      (match iCtor with
       | none => [("ctor-loads", false)]
       | some (l, e) => [("ctor-equal", e),
                         ("ctor-attrs", decide (l.rankIds = o.rankIds) && decide (l.shape = o.shape) &&
                                        decide (l.name = o.name))])
     else [])
  let tags :=
    (if d == 0 then ["rank0"] else []) ++
    (if d > 0 && !(content dflt d o.tree).isEmpty then ["stored"] else []) ++
    (if !(allCoords YCoord.plain d o.tree) then ["tupleCoords"] else []) ++
    (if hasExplicitEmpty dflt d o.tree then ["explicitEmpty"] else []) ++
    (if o.name != "" then ["named"] else []) ++
    (if dflt != 0 then ["default!=0"] else []) ++
    (if mLoaded.isNone then ["loadFails"] else []) ++ [kind, s!"depth{d}"]
  pure { agree, spec := cl.all (·.2), why := clauses cl, tags,
         model := Json.mkObj [("dict", yDictToJson d mDict), ("dict_rt", optJson (tyToJson d) mRt),
                              ("dict_eq", Json.bool mDictEq), ("loaded", optJson (loadedToJson d) mLoaded),
                              ("eq", Json.bool mEq), ("eq_rev", Json.bool mEqRev)] }

/-! #### random -/

def two53 : Nat := 2 ^ 53

def handleRandom (j : Json) : Except String Verdict := do
  let kind ← fStr j "kind"
  let shape ← (← fArr j "shape").mapM (·.getNat?)
  let dj0 ← field j "dflt"
  let nonnum := (dj0.getObjVal? "nonnum").toOption.isSome
  let dflt ← if nonnum then pDflt dj0 else fInt j "dflt"
  let interval ← fInt j "interval"
  let dj ← field j "density"
  let dens ← match dj with
    | Json.arr a => a.toList.mapM (fun x => do pure (← parseScaled two53 x).toNat)
    | _ => do
      let q ← parseScaled two53 dj
      pure (List.replicate (shape.length - 1) two53 ++ [q.toNat])
  let impl ← field j "impl"
  let us ← (← fArr impl "us").mapM (·.getNat?)
  let is ← (← fArr impl "is").mapM (·.getInt?)
  match shape.length with
  | 0 => return { agree := true, spec := true, tags := ["OUT_OF_MODEL"] }
  | d + 1 =>
    -- docstring precondition: with a non-zero default the upper ranks must have density 1
    let upper := dens.take d
    if dens.length != d + 1 || (dflt != 0 && upper.any (· < two53)) || interval < 1 then
      return { agree := true, spec := true, tags := ["OUT_OF_MODEL"] }
    let iTree ← optField impl "tree" (parseTN (d + 1))
    let iShape ← optField impl "shape" (fun s => do (← asList s).mapM (·.getNat?))
    -- tree leaves are parsed scaled by 8 (see `pVal`): scale the integer draws and the default alike
    let dfltS := if nonnum then dflt else dflt * 8
    let iDflt ← optField impl "dflt" pDflt
    let m := fromRandom dfltS d shape dens { us, is := is.map (· * 8) }
    let mTree := m.map (·.1)
    let leftover := match m with
      | some (_, s) => s.us.length + s.is.length
      | none => 0
    let agree := optBeq (treeBeq (d + 1)) iTree mTree && leftover == 0 &&
                 (kind != "tensor" || decide (iShape = some shape))
    let fullPre := dens.all (· ≥ two53) && !(1 ≤ dflt && dflt ≤ interval)
    let cl := match iTree with
      | none => [("built", false)]
      | some t =>
        [("sorted", wfB (d + 1) t), ("in-shape", inShapeB (d + 1) shape t),
         ("default", iDflt == some dfltS),
         ("full-at-density-1", !fullPre || decide (points (iDflt.getD dfltS) (d + 1) t = allPoints shape)),
         ("tensor-shape", kind != "tensor" || decide (iShape = some shape))]
    let nHit := is.length
    let tags :=
      (if nHit > 0 then ["hit"] else []) ++
      (if us.any (fun u => dens.any (fun q => u ≥ q)) then ["miss"] else []) ++
      (if is.any (· == dflt) then ["dropDefault"] else []) ++
      (if fullPre then ["full"] else []) ++
      (match mTree with
       | some t => if hasExplicitZero (d + 1) t then ["explicitZero"] else []
       | none => ["modelNone"]) ++ [kind, s!"depth{d + 1}"]
    pure { agree, spec := cl.all (·.2), why := clauses cl, tags,
           model := Json.mkObj [("tree", optJson (tnToJson (d + 1)) mTree), ("leftover_draws", jNat leftover)] }
where
  hasExplicitZero : (d : Nat) → TN d → Bool
    | 0, v => decide ((show Int from v) = 0)
    | d + 1, f => (show List (Nat × TN d) from f).any (fun e => hasExplicitZero d e.2)

end C13

def handleC13 (j : Json) : Except String Verdict := do
  let op ← fStr j "op"
  match op with
  | "fromU" => C13.handleFromU j
  | "yaml" => C13.handleYaml j
  | "random" => C13.handleRandom j
  | _ => throw s!"C13: unknown op {op}"

end FtDriver
