import FtDriver.Json
open Lean (Json)
namespace FtDriver
open Ft

def handleC13 (_j : Json) : Except String Verdict := throw "C13: not implemented"

end FtDriver
