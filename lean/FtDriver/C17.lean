import FtDriver.Json
open Lean (Json)
namespace FtDriver
open Ft

def handleC17 (_j : Json) : Except String Verdict := throw "C17: not implemented"

end FtDriver
