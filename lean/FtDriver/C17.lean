import FtDriver.Json
open Lean (Json)
namespace FtDriver
open Ft Ft.Traffic

namespace C17

def asNats (j : Json) : Except String (List Nat) := do (← asList j).mapM (·.getNat?)
def asStrs (j : Json) : Except String (List String) := do (← asList j).mapM (·.getStr?)
def fBool (j : Json) (k : String) : Except String Bool := do (← field j k).getBool?

/-- a raw row: `n` stamps, `n` coordinates, position -/
def parseRow (n : Nat) (j : Json) : Except String Row := do
  let l ← asNats j
  if l.length ≠ 2 * n + 1 then throw s!"row arity {l.length} for depth {n}"
  pure ⟨l.take n, (l.drop n).take n, l.getD (2 * n) 0⟩

/-- a combined row: `[ [ints], isWrite ]` -/
def parseCRow (n : Nat) (j : Json) : Except String CRow := do
  match (← asList j) with
  | [r, w] => pure ((← parseRow n r).tag (← w.getBool?))
  | _ => throw "crow"

def rowJson (r : Row) : Json := jList ((r.stamp ++ r.coords ++ [r.pos]).map jNat)
def crowJson (r : CRow) : Json := jList [rowJson r.untag, Json.bool r.isWrite]

def optNat (j : Json) : Except String (Option Nat) := if j.isNull then pure none else do pure (some (← j.getNat?))

structure Run where
  err     : Option String
  traffic : List (String × Bool × Nat)
  over    : Nat

def parseRun (j : Json) : Except String Run := do
  match j.getObjVal? "err" with
  | .ok e => pure { err := some (← e.getStr?), traffic := [], over := 0 }
  | .error _ =>
    let tr ← (← fArr j "traffic").mapM (fun e => do
      match (← asList e) with
      | [t, a, v] => pure ((← t.getStr?), (← a.getStr?) == "write", (← v.getNat?))
      | _ => throw "traffic entry")
    pure { err := none, traffic := tr, over := (← fNat j "over") }

def tableJson (t : List (String × Bool × Nat)) : Json :=
  jList (t.map (fun (n, w, v) => jList [Json.str n, Json.str (if w then "write" else "read"), jNat v]))

def sameTable (a b : List (String × Bool × Nat)) : Bool :=
  a.length == b.length && a.all (fun x => b.contains x)

def parseCase (j : Json) (cache : Bool) : Except String CaseIn := do
  let tensors ← (← fArr j "tensors").mapM (fun t => do
    pure ({ name := (← fStr t "name"), ranks := (← asStrs (← field t "ranks")),
            shape := (← (do let sj ← field t "shape"
                            if sj.isNull then pure none else do pure (some (← asNats sj)))) } : TensorIn))
  let fmts ← (← fArr j "fmts").mapM (fun f => do
    pure ({ tensor := (← fStr f "tensor"), rank := (← fStr f "rank"),
            cbits := (← fNat f "cbits"), pbits := (← fNat f "pbits") } : FmtIn))
  let loopRanks ← (← fArr j "loop_ranks").mapM (fun p => do
    match (← asStrs p) with
    | [a, b] => pure (a, b)
    | _ => throw "loop_ranks")
  let bindings ← (← fArr j "bindings").mapM (fun b => do
    pure ({ tensor := (← fStr b "tensor"), rank := (← fStr b "rank"), type := (← fStr b "type"),
            evictOn := fStrD b "evict_on" "" } : BindIn))
  let traces ← (← fArr j "traces").mapM (fun t => do
    let header ← asStrs (← field t "header")
    let rows ← (← fArr t "rows").mapM (parseRow header.length)
    pure ({ tensor := (← fStr t "tensor"), rank := (← fStr t "rank"), type := (← fStr t "type"),
            isWrite := (← fStr t "access") == "write", header, rows } : TraceIn))
  pure { cache, tensors, fmts, loopRanks, bindings, traces, ls := (← fNat j "ls") }

def runBuffet (c : CaseIn) (L : Nat) (cfgs : List BindCfg) (cap : Option Nat) :
    List (String × Bool × Nat) × Nat :=
  let traces := cfgs.map (·.accs)
  let g := buffetRun L (cfgs.map (·.evictEnd)) c.ls cap traces
  (trafficTable c cfgs (fun i => (g.bs.getD i {}).reads) (fun i => (g.bs.getD i {}).writes), g.over)

def specBuffet (c : CaseIn) (cfgs : List BindCfg) : List (String × Bool × Nat) :=
  let traces := cfgs.map (·.accs)
  trafficTable c cfgs
    (fun i => c.ls * fillsSpec ((cfgs.map (·.evictEnd)).getD i 0) (traces.getD i []))
    (fun i => c.ls * writebacksSpec ((cfgs.map (·.evictEnd)).getD i 0) (traces.getD i []))

def runCache (c : CaseIn) (L : Nat) (cfgs : List BindCfg) (cap : Option Nat) :
    Option String × List (String × Bool × Nat) × Nat × Bool :=
  let traces := cfgs.map (·.accs)
  let s := cacheRun L c.ls cap traces
  (s.failed, trafficTable c cfgs (getAt s.reads) (getAt s.writes), s.over, false)

def specCache (c : CaseIn) (L : Nat) (cfgs : List BindCfg) (cap : Option Nat) :
    List (String × Bool × Nat) :=
  let traces := cfgs.map (·.accs)
  let s := refCache c.ls cap {} (schedule L traces)
  trafficTable c cfgs (getAt s.reads) (getAt s.writes)

/-- "never below one fill per distinct line touched, never above one per access" on a table -/
def boundsOk (c : CaseIn) (cfgs : List BindCfg) (t : List (String × Bool × Nat)) : Bool :=
  let traces := cfgs.map (·.accs)
  let lo := trafficTable c cfgs (fun i => c.ls * distinctFirstReads [] (traces.getD i []))
              (fun _ => 0)
  let hi := trafficTable c cfgs (fun i => c.ls * ((traces.getD i []).filter (fun a => !a.isWrite)).length)
              (fun i => c.ls * ((traces.getD i []).filter (·.wb)).length)
  t.all (fun (n, w, v) =>
    (lo.any (fun (n', w', v') => n' == n && w' == w && v' ≤ v)) &&
    (hi.any (fun (n', w', v') => n' == n && w' == w && v ≤ v')))

def readsOf (t : List (String × Bool × Nat)) : Nat := ((t.filter (fun x => !x.2.1)).map (·.2.2)).sum

def handle (j : Json) (cache : Bool) : Except String Verdict := do
  let c ← parseCase j cache
  let caps ← (← fArr j "caps").mapM optNat
  let impl ← field j "impl"
  let runs ← (← fArr impl "runs").mapM parseRun
  let jit ← match impl.getObjVal? "jit" with
    | .ok x => if x.isNull then pure none else do pure (some (← parseRun x))
    | .error _ => pure none
  if runs.length ≠ caps.length then throw "runs/caps"
  match configure c with
  | .error e =>
    if e.startsWith "REJECT:" then
      -- a documented requirement is not met (pinned binding on a tensor without declared shape):
      -- the model predicts the rejection; rejecting is not a wrong charge
      let cls := "ERR:" ++ (e.drop 7).toString
      let ok := runs.all (fun r => r.err == some cls)
      return { agree := ok, spec := true, tags := [if cache then "cache" else "buffet", "rejected-no-declared-shape"],
               why := if ok then "" else s!"expected {cls} on every run" }
    return { agree := true, spec := true, tags := ["OUT_OF_MODEL"], why := e }
  | .ok (L, cfgs) =>
    let mut agree := true
    let mut spec := true
    let mut why := ""
    let mut models : List Json := []
    let mut tags : List String := [if cache then "cache" else "buffet", s!"bindings={cfgs.length}", s!"L={L}"]
    let accsT := cfgs.map (·.accs)
    let accsS := cfgs.map (·.accs)
    if cfgs.any (·.hasWrite) then tags := tags ++ ["writes"]
    if accsT.any (fun t => t.any (·.staging)) then tags := tags ++ ["staging"]
    if cfgs.any (fun b => b.epl > 1) then tags := tags ++ ["multi-elem-line"]
    if cfgs.any (fun b => b.evictEnd > 0) then tags := tags ++ ["evict-rank"]
    if !cache && cfgs.any (fun b => b.evictEnd = 0) then tags := tags ++ ["evict-root"]
    if c.loopRanks.length > 0 then tags := tags ++ ["loop-ranks"]
    if accsT.any (fun t => t.any (·.next.isSome)) then tags := tags ++ ["reuse"]
    let sched := schedule L accsT
    let tie := !tieFreeB sched
    if tie then tags := tags ++ ["stamp-tie"]
    -- hypotheses of `cache_eq_reference_partial`, evaluated on the code's view of the accesses
    let schedS := schedule L accsS
    let hypOk := schedNextOkB schedS && schedOrdB schedS
    if cache && hypOk then tags := tags ++ ["cache-thm-applies"]
    if !(cfgs.zip accsT).all (fun (b, t) => winContigB b.evictEnd t) then tags := tags ++ ["window-not-contiguous"]
    if !accsT.all (fun t => stampsSortedB (t.map (·.stamp))) then tags := tags ++ ["unsorted-stamps"]
    let mut prevReads : Option Nat := none
    let mut inWorld := true         -- model(code's shapes) = reference(code's shapes) for every capacity
    for (cap, run) in caps.zip runs do
      -- the model, run with the shapes the code computes
      let (merr, mtab, mover, _) : Option String × List (String × Bool × Nat) × Nat × Bool :=
        if cache then runCache c L cfgs cap
        else
          let (t, o) := runBuffet c L cfgs cap
          (none, t, o, false)
      -- the specification evaluated on the same (possibly wrong) shapes, and on the true ones
      let rS := if cache then specCache c L cfgs cap else specBuffet c cfgs
      let stab := if cache then specCache c L cfgs cap else specBuffet c cfgs
      if merr.isSome || !sameTable mtab rS then inWorld := false
      models := models ++ [Json.mkObj [("cap", match cap with | none => Json.null | some x => jNat x),
        ("err", match merr with | none => Json.null | some e => Json.str e),
        ("traffic", tableJson mtab), ("over", jNat mover), ("spec", tableJson stab)]]
      match run.err, merr with
      | some e, some m =>
        if e != "ERR:" ++ m then agree := false
        spec := false; why := why ++ s!" crash {e};"
        tags := tags ++ ["impl-crash", "fail:crash"]
      | some e, none =>
        agree := false; spec := false; why := why ++ s!" crash {e};"
        tags := tags ++ ["impl-crash", "fail:crash"]
      | none, some _ => agree := false
      | none, none =>
        if !sameTable run.traffic mtab then agree := false
        if run.over != mover then
          agree := false; tags := tags ++ ["overflow-count-differs"]
        if run.over > 0 then tags := tags ++ ["overflow"]
      if run.err.isNone then
        if !sameTable run.traffic stab then
          spec := false; why := why ++ " traffic≠spec;"; tags := tags ++ ["fail:traffic"]
        if !boundsOk c cfgs run.traffic then
          spec := false; why := why ++ " bounds;"; tags := tags ++ ["fail:bounds"]
        if cache then
          match prevReads with
          | some p => if readsOf run.traffic > p then
                        spec := false; why := why ++ " fills increased with capacity;"
                        tags := tags ++ ["fail:monotone"]
          | none => pure ()
          prevReads := some (readsOf run.traffic)
          if readsOf run.traffic > c.ls * (accsT.map (fun t => distinctFirstReads [] t)).sum then
            tags := tags ++ ["capacity-miss"]
      if cap == some 0 then tags := tags ++ ["cap0"]
      if cap.isNone then tags := tags ++ ["cap-inf"]
    -- attribution of a deviation to the defects the model mirrors
    if !inWorld && tie then tags := tags ++ ["explained:stamp-tie"]
    if !inWorld && !tie then tags := tags ++ ["MODEL-NOT-SPEC"]
    if cache && hypOk && !inWorld then tags := tags ++ ["THEOREM-CONTRADICTED"]
    -- line-granularity: the jittered rerun (first capacity) must charge the same
    match jit, runs.head? with
    | some jr, some fr =>
      tags := tags ++ ["jitter"]
      -- same capacity (the first of the list) on both runs; a crash on both sides is "the same"
      if jr.err != fr.err || (jr.err.isNone && !sameTable jr.traffic fr.traffic) then
        spec := false; why := why ++ " position jitter inside a line changed the traffic;"
        tags := tags ++ ["fail:jitter"]
    | _, _ => pure ()
    pure { agree, spec, model := jList models, tags := tags.eraseDups, why }

def handleFilter (j : Json) : Except String Verdict := do
  let n ← fNat j "n"
  let nf ← fNat j "nf"
  let inp ← (← fArr j "inp").mapM (parseRow n)
  let fil ← (← fArr j "fil").mapM (parseRow nf)
  let impl ← (← fArr j "impl").mapM (parseRow n)
  let sortedIn := (inp.zip inp.tail).all (fun (a, b) => lexLt a.coords b.coords)
  let sortedFil := (fil.zip fil.tail).all (fun (a, b) => lexLe (a.coords.take n) (b.coords.take n))
  if nf < n || !sortedIn || !sortedFil then
    return { agree := true, spec := true, tags := ["OUT_OF_MODEL"] }
  let m := filterTrace inp fil
  let tags := ["filter", s!"n={n}", s!"nf={nf}"] ++ (if m.isEmpty then ["empty-out"] else []) ++
    (if m.length < inp.length then ["dropped"] else []) ++ (if inp.isEmpty then ["empty-in"] else []) ++
    (if fil.isEmpty then ["empty-filter"] else [])
  pure { agree := decide (m = impl), spec := decide (impl = filterSpec inp fil),
         model := jList (m.map rowJson), tags }

def handleCombine (j : Json) : Except String Verdict := do
  let n ← fNat j "n"
  let rd ← field j "reads"
  let wr ← field j "writes"
  let reads ← if rd.isNull then pure [] else do (← asList rd).mapM (parseRow n)
  let writes ← if wr.isNull then pure [] else do (← asList wr).mapM (parseRow n)
  let impl ← (← fArr j "impl").mapM (parseCRow n)
  let m := combine reads writes
  let tags := ["combine"] ++ (if rd.isNull then ["no-read-file"] else []) ++ (if wr.isNull then ["no-write-file"] else [])
    ++ (if reads.any (fun r => writes.any (fun w => w.stamp = r.stamp)) then ["stamp-tie"] else [])
    ++ (if reads.isEmpty then ["empty-reads"] else []) ++ (if writes.isEmpty then ["empty-writes"] else [])
  pure { agree := decide (m = impl), spec := combineSpecB reads writes impl,
         model := jList (m.map crowJson), tags }

def handleNextUse (j : Json) : Except String Verdict := do
  let n ← fNat j "n"
  let rows ← (← fArr j "rows").mapM (parseCRow n)
  let mask ← (← fArr j "mask").mapM (·.getBool?)
  let epl ← fNat j "epl"
  let impl ← (← fArr j "impl").mapM (fun e => do
    match (← asList e) with
    | [r, nx] => do
      let r ← parseCRow n r
      let nx ← if nx.isNull then pure none else do pure (some (← parseCRow n nx))
      pure (r, nx)
    | _ => throw "nextuse row")
  if epl = 0 || !mask.contains true || mask.length ≠ n then
    return { agree := true, spec := true, tags := ["OUT_OF_MODEL"] }
  let m := nextUse mask epl rows
  let tags := ["nextuse", s!"epl={epl}"] ++ (if m.any (·.2.isSome) then ["reuse"] else []) ++
    (if m.any (·.2.isNone) then ["last-use"] else [])
  pure { agree := decide (m = impl), spec := decide (impl = nextUseSpec mask epl rows),
         model := jList (m.map (fun (r, nx) => jList [crowJson r, match nx with | none => Json.null | some x => crowJson x])),
         tags }

end C17

def handleC17 (j : Json) : Except String Verdict := do
  let op ← fStr j "op"
  match op with
  | "buffet" => C17.handle j false
  | "cache" => C17.handle j true
  | "filter" => C17.handleFilter j
  | "combine" => C17.handleCombine j
  | "nextuse" => C17.handleNextUse j
  | _ => throw s!"C17: unknown op {op}"

end FtDriver
