import FtDriver.Json
open Lean (Json)
namespace FtDriver
open Ft Ft.C14

/-! C14 — ids, shapes, defaults, formats, active ranges.  Case kinds (field `kind`):
    * `ctor`: how, ids, d, shape (declared or null), dims, dflt; impl.res = tensor observation + `tree`
    * `xf`:   op {name, …}; impl.src / impl.res = tensor observations (or res.err / impl.pre_err)
    * `lazy`: op {name, …}; impl.a / impl.b / impl.res = {id, a: [lo, hi], lazy, coords}
    * `join`: own (per level), ids, shape, dflt, via; impl.ranks / impl.fibers
    A tensor observation is {ids, auth, shape, dflt, fmts, mut, levels: [[{c, a}]]}. -/

namespace C14D

def jNull (j : Json) : Bool := match j with | .null => true | _ => false

def optField (j : Json) (k : String) : Option Json :=
  match j.getObjVal? k with
  | .ok v => if jNull v then none else some v
  | _ => none

def boolD (j : Json) (k : String) (d : Bool) : Bool :=
  match j.getObjVal? k with
  | .ok v => (v.getBool?).toOption.getD d
  | _ => d

partial def parseSx (j : Json) : Except String Sx :=
  match j with
  | .num _ => do pure (Sx.n (← j.getInt?))
  | .str "inf" => pure Sx.inf
  | .arr a => do
    let l ← a.toList.mapM parseSx
    pure (Sx.ofList l)
  | _ => throw s!"not a coordinate/shape value: {j.compress}"

def parseSxList (j : Json) : Except String (List Sx) := do (← asList j).mapM parseSx

def parseRId (j : Json) : Except String RId :=
  match j with
  | .str s => pure (.one s)
  | .arr a => do pure (.many (← a.toList.mapM (·.getStr?)))
  | _ => throw s!"not a rank id: {j.compress}"

def parseFmt (j : Json) : Except String Fmt := do
  match (← j.getStr?) with
  | "C" => pure .C
  | "U" => pure .U
  | s => throw s!"bad format {s}"

def parseStyle : String → Except String Style
  | "tuple" => pure .tuple | "pair" => pure .pair | "absolute" => pure .absolute
  | "relative" => pure .relative | "linear" => pure .linear | s => throw s!"bad style {s}"

def parseFObs (j : Json) : Except String FObs := do
  let cs ← parseSxList (← field j "c")
  match (← fArr j "a") with
  | [lo, hi] => do pure ⟨cs, ← parseSx lo, ← parseSx hi⟩
  | _ => throw "active range"

def parseLevels (j : Json) : Except String (List (List FObs)) := do
  (← asList j).mapM (fun l => do (← asList l).mapM parseFObs)

structure TObs where
  mt : Meta
  rep : List Sx                 -- getShape() (authoritative or estimated)
  levels : List (List FObs)
  allEmpty : List Bool := []    -- per rank: all(fiber.isEmpty() for fiber in rank.fibers)

def parseTObs (j : Json) : Except String TObs := do
  let ids ← (← fArr j "ids").mapM parseRId
  let auth ← match optField j "auth" with
    | none => pure none
    | some a => do pure (some (← parseSxList a))
  let rep ← parseSxList (← field j "shape")
  let dflt ← fInt j "dflt"
  let fmts ← (← fArr j "fmts").mapM parseFmt
  let mutb := boolD j "mut" false
  let levels ← parseLevels (← field j "levels")
  let allEmpty := match optField j "allempty" with
    | some a => ((a.getArr?).toOption.getD #[]).toList.map (fun b => (b.getBool?).toOption.getD false)
    | none => []
  pure { allEmpty, mt := { ids, shape := auth, dflt, fmts, mutable := mutb }, rep, levels }

def dropTrailingEmpty {α : Type} (l : List (List α)) : List (List α) :=
  (l.reverse.dropWhile (fun x => x.isEmpty)).reverse

/-- clauses of the Meta part on which `want` and `got` differ -/
def metaDiff (cmpShape : Bool) (want got : Meta) : List String :=
  (if want.ids = got.ids then [] else ["ids"]) ++
  (if !cmpShape || want.shape = got.shape then [] else ["shape"]) ++
  (if want.dflt = got.dflt then [] else ["dflt"]) ++
  (if want.fmts = got.fmts then [] else ["fmts"]) ++
  (if want.mutable = got.mutable then [] else ["mut"])

def sxJson : Sx → Json
  | .n v => jInt v
  | .inf => Json.str "inf"
  | .nil => jList []
  | .cons h t => jList [sxJson h, sxJson t]     -- debugging aid only (nested pairs)

def ridJson : RId → Json
  | .one s => Json.str s
  | .many l => jList (l.map Json.str)

def metaJson (m : Meta) : Json :=
  Json.mkObj [("ids", jList (m.ids.map ridJson)),
    ("auth", match m.shape with | none => Json.null | some s => jList (s.map sxJson)),
    ("dflt", jInt m.dflt),
    ("fmts", jList (m.fmts.map (fun f => Json.str (match f with | .C => "C" | .U => "U")))),
    ("mut", Json.bool m.mutable)]

def optMetaJson : Option Meta → Json
  | none => Json.null
  | some m => metaJson m

/-! ### transforms -/

structure XfOp where
  name : String
  k : Nat := 0
  levels : Nat := 1
  style : Style := .tuple
  order : List RId := []

def parseXfOp (j : Json) : Except String XfOp := do
  let name ← fStr j "name"
  let k := (fNat j "k").toOption.getD 0
  let levels := (fNat j "levels").toOption.getD 1
  let style ← match fStr j "style" with
    | .ok s => parseStyle s
    | _ => pure Style.tuple
  let order ← match optField j "order" with
    | some o => do (← asList o).mapM parseRId
    | none => pure []
  pure { name, k, levels, style, order }

def xfModel (op : XfOp) (src : TObs) : Except String (Option Meta × Option Meta) :=
  let m := src.mt
  match op.name with
  | "split" => pure (mSplit op.k m, sSplit op.k m)
  | "swizzle" => pure (some (mSwizzle op.order m), some (sSwizzle op.order m))
  | "swap" => pure (mSwap op.k m, sSwap op.k m)
  | "flatten" | "merge" => pure (mFlatten op.style op.k op.levels m, sFlatten op.style op.k op.levels m)
  | "unflatten" => pure (mUnflatten op.k op.levels m, sUnflatten op.k op.levels m)
  | "updc" | "updp" => pure (some (mUpdate m), some m)
  | s => throw s!"C14: unknown transform {s}"

/-- preconditions of the Meta model: consistent lengths, distinct ids, a permutation for swizzle,
    fresh ids for split / flatten (the code looks formats up by id) -/
def xfPre (op : XfOp) (m : Meta) : Bool :=
  m.wfB &&
  (match op.name with
   | "swizzle" => decide (op.order.Nodup) && decide (op.order.length = m.ids.length) &&
                  op.order.all (fun r => decide (r ∈ m.ids))
   | "split" =>
     (match m.ids[op.k]? with
      | some (.one s) => decide (RId.one (s ++ ".1") ∉ m.ids) && decide (RId.one (s ++ ".0") ∉ m.ids)
      | _ => false)
   | "flatten" | "merge" =>
     decide (1 ≤ op.levels) && decide (op.k + op.levels < m.ids.length) &&
     decide (RId.many (((m.ids.drop op.k).take (op.levels + 1)).flatMap RId.toList) ∉ m.ids)
   | _ => true)

def explicitRange (rep : List Sx) (lv : List (List FObs)) : Bool :=
  (lv.zip rep).any (fun p => p.1.any (fun f => !(f.lo == Sx.n 0 && f.hi == p.2) &&
    !(f.coords.isEmpty && p.2 == Sx.n 0)))

def sxInt? : Sx → Option Int
  | .n v => some v
  | _ => none

/-- the final loop of `swizzleRanks`: every rebuilt fiber of the `swiz_len` re-arranged levels must
    carry the range `swizReset` computes from the operand's ranges of that rank — or, for a fiber the
    loop skips (`fiber.isEmpty()`, or below a skipped one), no explicit range: `(0, shape)`.
    Returns the levels at which an observed range is neither. -/
def swizzleRangeMismatch (order : List RId) (src res : TObs) : List String :=
  if src.mt.ids = order then [] else
  let n := swizLen src.mt.ids order
  ((res.levels.take n).zipIdx).flatMap (fun q =>
    let j := q.2
    let g := src.mt.ids.idxOf (order.getD j default)
    let ranges := ((src.levels.getD g []).filter (fun f => !f.coords.isEmpty)).filterMap (fun f =>
      match sxInt? f.lo, sxInt? f.hi with | some a, some b => some (a, b) | _, _ => none)
    let bad := q.1.any (fun f =>
      match f.coords.mapM sxInt?, sxInt? f.lo, sxInt? f.hi with
      | some cs, some lo, some hi =>
        if cs.isEmpty then false else
        let plain := decide (lo = 0) && (some hi == (res.rep.getD j default |> sxInt?))
        !(swizReset ranges cs == some (lo, hi)) && !plain
      | _, _, _ => false)
    if bad then [s!"reset@{j}"] else [])

def handleXf (j : Json) : Except String Verdict := do
  let impl ← field j "impl"
  if (optField impl "pre_err").isSome then
    return { agree := true, spec := true, tags := ["OUT_OF_MODEL", "pre-error"] }
  let op ← parseXfOp (← field j "op")
  let src ← parseTObs (← field impl "src")
  let resJ ← field impl "res"
  if !xfPre op src.mt then
    return { agree := true, spec := true, tags := ["OUT_OF_MODEL", "meta-precondition"] }
  let (model, spec) ← xfModel op src
  let srcAuth := src.mt.shape.isSome
  let srcEmpty := match src.levels with | (f :: _) :: _ => f.coords.isEmpty | _ => true
  let tags0 := [op.name, if srcAuth then "src-auth" else "src-est"] ++
    (if srcEmpty then ["src-empty"] else []) ++
    (if explicitRange src.rep src.levels then ["src-explicit-range"] else []) ++
    (if op.name == "swap" && src.allEmpty.getD op.k false then ["swap-empty-branch"] else []) ++
    (if op.name == "unflatten" && (match src.rep[op.k]? with | some (.n _) => true | _ => false)
     then ["unflatten-entry-not-tuple"] else []) ++
    (if src.mt.fmts.any (· == Fmt.U) then ["fmtU"] else []) ++
    (if src.mt.mutable then ["mutable"] else []) ++
    (if src.mt.dflt != 0 then ["dflt-nonzero"] else []) ++
    (if !srcEmpty && (srcAuth || src.mt.fmts.any (· == Fmt.U) || src.mt.mutable || src.mt.dflt != 0)
     then ["nontrivial"] else [])
  match optField resJ "err" with
  | some e =>
    let cls := (e.getStr?).toOption.getD "?"
    match model with
    | some _ =>
      -- the Meta code would have produced a result: the exception comes from the tree algorithm
      pure { agree := true, spec := true, tags := ["OUT_OF_MODEL", "tree-error", s!"tree-error:{op.name}:{cls}"] }
    | none =>
      match spec with
      | some _ => pure { agree := true, spec := false, model := Json.null, tags := tags0 ++ ["meta-error"],
                         why := s!"error:{cls}" }
      | none => pure { agree := true, spec := true, tags := ["OUT_OF_MODEL", "op-precondition"] }
  | none =>
    let res ← parseTObs resJ
    let cmpShapeAgree := srcAuth || op.name == "swap" || op.name == "unflatten"
    let resetBad := if op.name == "swizzle" then swizzleRangeMismatch op.order src res else []
    let agree := (match model with
      | some m' => (metaDiff cmpShapeAgree m' res.mt).isEmpty
      | none => false) && resetBad.isEmpty
    let metaFails := match spec with
      | some s' => metaDiff srcAuth s' res.mt
      | none => ["spec-undefined"]
    let srcOk := boundsB src.rep src.levels
    let bfails := if srcOk then boundsFailures res.rep res.levels else []
    let fails := metaFails ++ bfails
    pure { agree, spec := fails.isEmpty, model := optMetaJson model,
           tags := tags0 ++ (if srcOk then [] else ["src-out-of-bounds"]) ++ fails.map (fun f => "fail:" ++ f) ++
                   resetBad.map (fun f => "disagree:" ++ f),
           why := ",".intercalate fails }

/-! ### growth in place -/

/-- a constructed tensor after `getPayloadRef(point) <<= v` / `append`: nothing a tensor reports about
    itself is touched by the mutators (model: Meta and reported shape stay what they were); the
    specification still wants every stored coordinate inside the reported shape and range -/
def handleMut (j : Json) : Except String Verdict := do
  let impl ← field j "impl"
  let src ← parseTObs (← field impl "src")
  let resJ ← field impl "res"
  let srcAuth := src.mt.shape.isSome
  let tags0 := ["grow", if srcAuth then "src-auth" else "src-est", "nontrivial"] ++
    (if srcAuth then [] else
      (src.rep.zipIdx).filterMap (fun q => if q.1 == Sx.n 0 then none else some s!"recorded-estimate@{q.2}"))
  if (optField resJ "err").isSome then
    return { agree := false, spec := false, tags := tags0 ++ ["mut-error"], why := "error" }
  let res ← parseTObs resJ
  let metaFails := metaDiff true (mUpdate src.mt) res.mt
  -- a rank that has recorded no estimate yet (all its fibers were empty: it reports 0) keeps
  -- estimating from its fibers (`Rank.getShape`), every other entry stays what it was
  let expectRep : List Sx := if srcAuth then src.rep else
    (src.rep.zipIdx).map (fun q =>
      if q.1 == Sx.n 0 then
        let cs := (res.levels.getD q.2 []).map (fun f => estFiber (f.coords.filterMap sxInt?))
        Sx.n (cs.foldl max 0)
      else q.1)
  let agree := metaFails.isEmpty && decide (res.rep = expectRep)
  let bfails := if boundsB src.rep src.levels then boundsFailures res.rep res.levels else []
  let fails := metaFails ++ bfails
  pure { agree, spec := fails.isEmpty, model := metaJson (mUpdate src.mt),
         tags := tags0 ++ fails.map (fun f => "fail:" ++ f), why := ",".intercalate fails }

/-! ### constructors -/

def intsToSx (l : List Int) : List Sx := l.map Sx.n

def handleCtor (j : Json) : Except String Verdict := do
  let how ← fStr j "how"
  let d ← fNat j "d"
  let ids ← match optField j "ids" with
    | some v => do (← asList v).mapM parseRId
    | none => pure ((List.range d).map (fun i => RId.one s!"R{d - 1 - i}"))   -- `f"R{maxrank-i}"`
  let dflt := match fInt j "dflt_code" with | .ok v => v | _ => fIntD j "dflt" 0
  let declIn ← match optField j "shape" with
    | some s => do pure (some (← asInts s))
    | none => pure none
  let dims ← match optField j "dims" with
    | some s => do pure (some (← asInts s))
    | none => pure none
  let impl ← field j "impl"
  let resJ ← field impl "res"
  if (optField resJ "err").isSome then
    return { agree := false, spec := false, tags := [how, "ctor-error"], why := "error" }
  let res ← parseTObs resJ
  let tree ← fTree resJ "tree" d
  -- the shape the constructor declares: explicit, or the dimensions of the nest / request
  let decl : Option (List Int) := match how with
    | "fromFiber" | "empty" => declIn
    | _ => match declIn with | some s => some s | none => dims
  let model := if how == "empty" || how == "makePopulated" || how == "makePopulated-nodefault" then mEmpty ids (decl.map intsToSx) dflt
               else mFromFiber ids (decl.map intsToSx) dflt
  let rep : List Int := match decl with | some s => s | none => estShape d tree
  let lv := dropTrailingEmpty (ctorLevels d tree rep)
  let metaFails := metaDiff true model res.mt
  let agree := metaFails.isEmpty && decide (res.rep = intsToSx rep) && decide (dropTrailingEmpty res.levels = lv)
  let pre := nonnegB d tree && wfB d tree
  if !pre then return { agree := true, spec := true, tags := ["OUT_OF_MODEL"] }
  let bfails := boundsFailures res.rep res.levels
  let fails := metaFails ++ bfails
  let nonEmpty := !((fibersAt d tree 0).all (fun cs => cs.isEmpty))
  pure { agree, spec := fails.isEmpty,
         model := Json.mkObj [("meta", metaJson model), ("shape", jInts rep)],
         tags := [how, if decl.isSome then "declared" else "estimated"] ++ (if nonEmpty then ["nontrivial"] else []) ++
                 fails.map (fun f => "fail:" ++ f),
         why := ",".intercalate fails }

/-! ### lazy results -/

def parseFAttr (j : Json) : Except String FAttr := do
  let id ← fStr j "id"
  match (← fArr j "a") with
  | [lo, hi] => do pure ⟨id, ← lo.getInt?, ← hi.getInt?⟩
  | _ => throw "range"

def parseLazyOp (j impl : Json) : Except String LazyOp := do
  match (← fStr j "name") with
  | "and" => pure .and | "or" => pure .or | "xor" => pure .xor | "sub" => pure .sub
  | "prune" => pure .prune | "intersection" | "intersection-lf" => pure .intersection | "union" => pure .union
  | "populate" => pure .populate
  | "coiterActiveShape" | "coiterActiveShapeRef" => pure .coiterActiveShape
  | "coiterRangeShape" | "coiterRangeShapeRef" => do pure (.coiterRangeShape (← fInt j "lo") (← fInt j "hi"))
  | "coiterShape" | "coiterShapeRef" => do pure (.coiterRangeShape 0 (← fInt impl "a_shape"))
  | "project" => do
    let iv ← match optField j "interval" with
      | some v => do
        match (← asInts v) with
        | [a, b] => pure (some (a, b))
        | _ => throw "interval"
      | none => pure none
    let rid := (optField j "rank_id").bind (fun v => (v.getStr?).toOption)
    pure (.project (← fInt j "k") (← fInt j "m") iv rid)
  | s => throw s!"C14: unknown lazy op {s}"

/-- operations whose yielded coordinates must lie inside the reported range whenever the first
    operand's do (intersections, difference, pruning, projection, dense co-iteration) -/
def insideClaimed : LazyOp → Bool
  | .and | .sub | .prune | .intersection | .coiterActiveShape | .coiterRangeShape _ _ | .project .. => true
  | _ => false

def handleLazy (j : Json) : Except String Verdict := do
  let impl ← field j "impl"
  let opJ ← field j "op"
  let name ← fStr opJ "name"
  let resJ ← field impl "res"
  if (optField resJ "err").isSome then
    return { agree := false, spec := false, tags := [name, "lazy-error"], why := "error" }
  let op ← parseLazyOp opJ impl
  let a ← parseFAttr (← field impl "a")
  let b ← parseFAttr (← field impl "b")
  let r ← parseFAttr resJ
  let isLazy := boolD resJ "lazy" false
  let model := lazyAttrs op a b
  let spec := lazySpec op a b
  let agree := decide (r = model) && isLazy
  -- the coordinates the first operand presents (it may itself be a lazy fiber)
  let aCoords ← match optField impl "a_coords" with
    | some v => asInts v
    | none => asInts (← field (← field j "a") "c")
  let aInside := aCoords.all (fun c => decide (a.lo ≤ c) && decide (c < a.hi))
  let coordsOk ← match optField resJ "coords" with
    | some cs => do
      let l ← asInts cs
      pure (l.all (fun c => decide (r.lo ≤ c) && decide (c < r.hi)))
    | none => pure false
  -- the default of the result (model of today's code; the statement does not speak about it)
  let dfltOk ← match optField resJ "dflt", optField impl "a_dflt", optField impl "b_dflt" with
    | some dj, some daJ, some dbJ => do
      let da ← daJ.getInt?
      let db ← dbJ.getInt?
      let got : Option LDflt := match dj with
        | .num _ => (dj.getInt?).toOption.map LDflt.scalar
        | .obj _ => match optField dj "t" with
          | some (.arr a) => ((a.toList.drop 1).mapM (fun (x : Json) => (x.getInt?).toOption)).map LDflt.mask
          | _ => none
        | _ => none
      pure (got == some (lazyDefault op da db 2))
    | _, _, _ => pure true
  -- iterating the lazy result must work, and a second iteration must deliver the same coordinates
  let iterOk := (optField resJ "iter_err").isNone
  let twiceOk := boolD resJ "twice_same" true
  let agree := agree && dfltOk
  let fails :=
    (if iterOk then [] else ["iter-error"]) ++ (if twiceOk then [] else ["second-iteration-differs"]) ++
    (if r.id = spec.id then [] else ["id"]) ++
    (if r.lo = spec.lo ∧ r.hi = spec.hi then [] else ["active"]) ++
    (if isLazy then [] else ["not-lazy"]) ++
    (if insideClaimed op && aInside && !coordsOk then ["inside"] else [])
  let nontriv := decide (a.lo ≠ 0 ∨ a.id ≠ "Unknown") || decide (model.lo ≠ a.lo ∨ model.hi ≠ a.hi)
  pure { agree, spec := fails.isEmpty,
         model := Json.mkObj [("id", Json.str model.id), ("a", jInts [model.lo, model.hi])],
         tags := [name] ++ (if nontriv then ["nontrivial"] else []) ++ fails.map (fun f => "fail:" ++ f),
         why := ",".intercalate fails }

/-! ### joins -/

structure JFib where
  id : RId
  shape : Int
  dflt : Option Int          -- none = the Fiber class (non-leaf ranks)
  fmt : Fmt
  coords : List Int
  owned : Bool

def parseDflt (j : Json) : Except String (Option Int) :=
  match j with
  | .str "Fiber" => pure none
  | _ => do pure (some (← j.getInt?))

def handleJoin (j : Json) : Except String Verdict := do
  let impl ← field j "impl"
  if (optField impl "err").isSome then
    return { agree := false, spec := false, tags := ["join-error"], why := "error" }
  let d ← fNat j "d"
  let ids ← (← fArr j "ids").mapM (·.getStr?)
  let dflt := fIntD j "dflt" 0
  let via ← fStr j "via"
  let decl ← match optField j "shape" with
    | some s => do pure (some (← asInts s))
    | none => pure none
  let own ← fArr j "own"
  let ranksJ ← fArr impl "ranks"
  let fibersJ ← fArr impl "fibers"
  let mut fails : List String := []
  let mut agree := true
  let mut ownAttrs := false
  for i in [0:d] do
    let o := own.getD i Json.null
    let ownShape : Option Int := (optField o "shape").bind (fun v => (v.getInt?).toOption)
    if ownShape.isSome || (optField o "id").isSome || (optField o "fmt").isSome || (optField o "dflt").isSome then
      ownAttrs := true
    let rJ := ranksJ.getD i Json.null
    let rId ← parseRId (← field rJ "id")
    let rShape : Option Int := (optField rJ "shape").bind (fun v => (v.getInt?).toOption)
    let rEst := boolD rJ "est" true
    let rDflt ← parseDflt (← field rJ "dflt")
    let rFmt ← parseFmt (← field rJ "fmt")
    let fl ← asList (fibersJ.getD i (jList []))
    -- model of the rank's shape after all fibers of the level joined
    let start : RankAttrs := ⟨ids.getD i "", decl.map (fun s => s.getD i 0), decl.isNone, 0, Fmt.C⟩
    let ownShapes : List Int := match optField o "shapes" with
      | some v => ((v.getArr?).toOption.getD #[]).toList.filterMap (fun x => (x.getInt?).toOption)
      | none => []
    let ownOf : Nat → Option Int := fun jx =>
      if ownShapes.isEmpty then ownShape else ownShapes[jx % ownShapes.length]?
    if !ownShapes.isEmpty then ownAttrs := true
    let mut r := start
    let mut jx := 0
    let mut covered := true     -- every fiber's coordinates lie inside the shape it declares itself / the tensor declares
    for fJ in fl do
      let cs ← asInts (← field fJ "c")
      r := joinShape r (ownOf jx) (estFiber cs)
      let bound : Option Int := match decl with
        | some s => if via == "fromFiber" then some (s.getD i 0) else (ownOf jx)
        | none => ownOf jx
      match bound with
      | some b => if !cs.all (fun c => decide (0 ≤ c) && decide (c < b)) then covered := false
      | none => if !cs.all (fun c => decide (0 ≤ c)) then covered := false
      jx := jx + 1
    if via == "fromFiber" then
      match decl with
      | some s => r := { r with shape := some (s.getD i 0) }
      | none => pure ()
    let wantDflt : Option Int := if i + 1 = d then some dflt else none
    if !(rId = .one r.id ∧ rShape = r.shape ∧ rEst = r.estimated ∧ rDflt = wantDflt ∧ rFmt = Fmt.C) then
      agree := false
    -- spec: every fiber of the level reports the rank's attributes
    for fJ in fl do
      let fId ← parseRId (← field fJ "id")
      let fShape ← fInt fJ "shape"
      let fD ← parseDflt (← field fJ "dflt")
      let fF ← parseFmt (← field fJ "fmt")
      let eff := joined ⟨match rId with | .one s => s | _ => "", rShape, rEst, (rDflt.getD 0), rFmt⟩
                        ⟨"", ownShape, 0, Fmt.C⟩
      if fId ≠ rId then fails := fails ++ [s!"id@{i}"]
      if fShape ≠ eff.shape.getD 0 then fails := fails ++ [s!"shape@{i}"]
      if fD ≠ rDflt then fails := fails ++ [s!"dflt@{i}"]
      if fF ≠ eff.fmt then fails := fails ++ [s!"fmt@{i}"]
      if !boolD fJ "owned" false then fails := fails ++ [s!"owner@{i}"]
      -- … and the rank's shape / the fiber's range still cover what the fiber stores
      if covered then
        let cs ← asInts (← field fJ "c")
        let inShape := cs.all (fun c => decide (0 ≤ c) && decide (c < fShape))
        let inAct ← match (← fArr fJ "a") with
          | [lo, hi] => do
            let lo ← lo.getInt?
            let hi ← hi.getInt?
            pure (cs.all (fun c => decide (lo ≤ c) && decide (c < hi)))
          | _ => pure false
        if !inShape then fails := fails ++ [s!"bounds:shape@{i}"]
        if !inAct then fails := fails ++ [s!"bounds:active@{i}"]
  let failsU := fails.eraseDups
  pure { agree, spec := failsU.isEmpty, tags := [via] ++ (if ownAttrs then ["nontrivial", "own-attrs"] else []) ++
           failsU.map (fun f => "fail:" ++ f), why := ",".intercalate failsU }

end C14D

def handleC14 (j : Json) : Except String Verdict := do
  match (← fStr j "kind") with
  | "xf" => C14D.handleXf j
  | "mut" => C14D.handleMut j
  | "ctor" => C14D.handleCtor j
  | "lazy" => C14D.handleLazy j
  | "join" => C14D.handleJoin j
  | s => throw s!"C14: unknown kind {s}"

end FtDriver
