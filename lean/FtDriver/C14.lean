import FtDriver.Json
open Lean (Json)
namespace FtDriver
open Ft

def handleC14 (_j : Json) : Except String Verdict := throw "C14: not implemented"

end FtDriver
