/-
  Driver for C11 — arithmetic on boxes, elements and fibers.

  Families of cases (field "fam"):
    bin    one binary operator expression      (model `pyBin`,  spec `binSpec`)
    cmp    one comparison                      (model `pyCmp`,  spec = the comparison of the values)
    iop    one in-place statement `a op= b`    (model `pyIop`,  spec `iopSpec`)
    fiber  one fiber operator (fiber or scalar right operand), Int leaves

  Values of boxes are tokens: a JSON integer, or a string ("f:<hex>" = a double's bit pattern,
  "ERR:<class>", "obj:<type>" …).  The value algebra handed to the model computes `+ - * // <<`
  and the comparisons on integers in Lean and takes everything else (true division, bit
  operators, floats) from the oracle the harness computed with the same operator on the raw
  Python values; where Lean computes, the oracle must agree (else the spec verdict is false).
-/
import FtDriver.Json
open Lean (Json)
namespace FtDriver
open Ft Ft.Arith

inductive Tok | int (i : Int) | str (s : String)
  deriving DecidableEq, Repr

def Tok.ofJson (j : Json) : Except String Tok :=
  match j.getInt? with
  | .ok i => pure (.int i)
  | .error _ =>
    match j.getStr? with
    | .ok s => pure (.str s)
    | .error _ => throw "token: expected integer or string"

def Tok.toJson : Tok → Json
  | .int i => jInt i
  | .str s => Json.str s

def kindOfStr : String → Except String Kind
  | "S" => pure .S | "P" => pure .P | "E" => pure .E | s => throw s!"bad kind {s}"

def binOfStr : String → Except String BinOp
  | "add" => pure .add | "sub" => pure .sub | "mul" => pure .mul | "div" => pure .div
  | "fdiv" => pure .fdiv | "shl" => pure .shl | "band" => pure .band | "bor" => pure .bor
  | s => throw s!"bad binop {s}"

def binName : BinOp → String
  | .add => "add" | .sub => "sub" | .mul => "mul" | .div => "div"
  | .fdiv => "fdiv" | .shl => "shl" | .band => "band" | .bor => "bor"

def cmpOfStr : String → Except String CmpOp
  | "eq" => pure .eq | "ne" => pure .ne | "lt" => pure .lt | "le" => pure .le
  | "gt" => pure .gt | "ge" => pure .ge | s => throw s!"bad cmp {s}"

def iopOfStr : String → Except String IOp
  | "iadd" => pure .iadd | "isub" => pure .isub | "imul" => pure .imul
  | "ishl" => pure .ishl | "idiv" => pure .idiv | s => throw s!"bad iop {s}"

/-- what Lean computes itself on integers -/
def leanBin (op : BinOp) : Tok → Tok → Option (Except String Tok)
  | .int x, .int y =>
    match op with
    | .add => some (.ok (.int (x + y)))
    | .sub => some (.ok (.int (x - y)))
    | .mul => some (.ok (.int (x * y)))
    | .fdiv => some (if y = 0 then .error "ZeroDivisionError" else .ok (.int (Int.fdiv x y)))
    | .shl => some (if y < 0 then .error "ValueError" else
                    if y ≤ 4096 then .ok (.int (x <<< y.toNat)) else .error "too-large")
    | _ => none
  | _, _ => none

def leanCmp (c : CmpOp) (x y : Int) : Bool :=
  match c with
  | .eq => x == y | .ne => x != y | .lt => decide (x < y) | .le => decide (x ≤ y)
  | .gt => decide (x > y) | .ge => decide (x ≥ y)

def exceptEq : Except String Tok → Except String Tok → Bool
  | .ok a, .ok b => a == b
  | .error a, .error b => a == b
  | _, _ => false

/-- oracle entry: a token, or "ERR:<class>" meaning the value operator raised -/
def oracleOf (t : Tok) : Except String Tok :=
  match t with
  | .str s => if s.startsWith "ERR:" then .error (s.drop 4).toString else .ok t
  | _ => .ok t

/-- the value algebra: Lean on integers where it can, the oracle table otherwise -/
def algOf (raws : List (String × Tok)) (cmpRaw cmpRawSw : Bool) (c0 : Option CmpOp) : Alg Tok String where
  bin := fun op x y =>
    match leanBin op x y with
    | some r => r
    | none =>
      match raws.lookup (binName op) with
      | some t => oracleOf t
      | none => .error "no-oracle"
  cmp := fun c x y =>
    match x, y with
    | .int a, .int b => leanCmp c a b
    | _, _ => if some c = c0 then cmpRaw else cmpRawSw

/-- every oracle entry Lean can recompute must agree with Lean -/
def oracleConsistent (raws : List (String × Tok)) (x y : Tok) : Bool :=
  raws.all (fun (n, t) =>
    match binOfStr n with
    | .ok op => match leanBin op x y with
      | some r => exceptEq r (oracleOf t)
      | none => true
    | .error _ => false)

def parseRaws (j : Json) : Except String (List (String × Tok)) := do
  match j.getObjVal? "raws" with
  | .error _ => pure []
  | .ok o =>
    let kvs ← o.getObj?
    kvs.toList.mapM (fun (k, v) => do pure (k, ← Tok.ofJson v))

def resOfImpl (j : Json) : Except String (Res Tok String) := do
  let k ← fStr j "k"
  match k with
  | "boxed" => pure (.boxed (← Tok.ofJson (← field j "v")))
  | "plain" => pure (.plain (← Tok.ofJson (← field j "v")))
  | "err" =>
    let e ← fStr j "e"
    pure (if e == "TypeError" then .typeError else .raised e)
  | _ => pure (.raised ("other:" ++ fStrD j "v" "?"))

/-- the value operator raising TypeError is not distinguishable from a dispatch failure -/
def normRes : Res Tok String → Res Tok String
  | .raised "TypeError" => .typeError
  | r => r

def resToJson : Res Tok String → Json
  | .plain v => Json.mkObj [("k", "plain"), ("v", v.toJson)]
  | .boxed v => Json.mkObj [("k", "boxed"), ("v", v.toJson)]
  | .typeError => Json.mkObj [("k", "err"), ("e", "TypeError")]
  | .raised e => Json.mkObj [("k", "err"), ("e", Json.str e)]

def kindStr : Kind → String | .S => "S" | .P => "P" | .E => "E"

def isFloatTok : Tok → Bool
  | .str s => s.startsWith "f:"
  | _ => false

/-- decorations of a case the model does not depend on (format, own shapes, repetition, Metrics
    bracket, laziness, boxed scalars, tuple coordinates …): reported so that starvation is visible -/
def decoTags (j : Json) : List String :=
  ["fmt", "fmtb", "fmts", "fmtsb", "shapeb", "bdflt", "dfltb", "reps", "metrics", "grow", "skind", "lazyb", "flat", "dbl"].filterMap
    (fun k => match j.getObjVal? k with
      | .ok Json.null => none
      | .ok _ => some ("deco:" ++ k)
      | .error _ => none)

def handleBin (j : Json) : Except String Verdict := do
  let op ← binOfStr (← fStr j "op")
  let ka ← kindOfStr (← fStr j "ka")
  let kb ← kindOfStr (← fStr j "kb")
  let x ← Tok.ofJson (← field j "x")
  let y ← Tok.ofJson (← field j "y")
  let raws ← parseRaws j
  if ka == .S && kb == .S then return { agree := true, spec := true, tags := ["OUT_OF_MODEL"] }
  let A := algOf raws false false none
  let impl ← resOfImpl (← field j "impl")
  let m := normRes (pyBin A op ka kb x y)
  let s := normRes (binSpec A op x y)
  let cons := oracleConsistent raws x y
  let tags := [s!"bin:{(binName op)}:{kindStr ka}{kindStr kb}",
               if isFloatTok x || isFloatTok y then "float" else "int"] ++
              (match s with | .raised _ => ["value-op-raises"] | .typeError => ["value-op-raises"] | _ => []) ++
              (if (leanBin op x y).isSome then ["lean-arith"] else ["oracle-arith"]) ++ decoTags j
  pure { agree := decide (m = impl), spec := cons && decide (impl = s), model := resToJson m, tags,
         why := if cons then "" else "oracle disagrees with Lean integer arithmetic" }

def handleCmp (j : Json) : Except String Verdict := do
  let c ← cmpOfStr (← fStr j "op")
  let ka ← kindOfStr (← fStr j "ka")
  let kb ← kindOfStr (← fStr j "kb")
  let x ← Tok.ofJson (← field j "x")
  let y ← Tok.ofJson (← field j "y")
  if ka == .S && kb == .S then return { agree := true, spec := true, tags := ["OUT_OF_MODEL"] }
  let raw ← (← field j "raw").getBool?
  let rawSw ← (← field j "raw_sw").getBool?
  let A := algOf [] raw rawSw (some c)
  let implJ ← field j "impl"
  let k ← fStr implJ "k"
  let expected := A.cmp c x y
  let m := pyCmp A c ka kb x y
  let cons := match x, y with
    | .int a, .int b => leanCmp c a b == raw && leanCmp c.swap b a == rawSw
    | _, _ => true
  let tags := [s!"cmp:{fStrD j "op" "?"}:{kindStr ka}{kindStr kb}",
               if isFloatTok x || isFloatTok y then "float" else "int",
               if expected then "true" else "false"]
  if k == "bool" then
    let v ← (← field implJ "v").getBool?
    pure { agree := m == v, spec := cons && v == expected && raw == rawSw, model := Json.bool m, tags }
  else
    pure { agree := false, spec := false, model := Json.bool m, tags, why := "comparison did not return a bool" }

def heldToJson : Held Tok → Json
  | .val v => v.toJson
  | .elemObj => Json.str "obj:CoordPayload"

def iresToJson : IRes Tok String → Json
  | .done r a => Json.mkObj [("ret", Json.str (match r with | .same => "same" | .none => "none" | .fresh => "fresh")),
                             ("a", heldToJson a)]
  | .typeError => Json.mkObj [("err", "TypeError")]
  | .raised e => Json.mkObj [("err", Json.str e)]

def normIRes : IRes Tok String → IRes Tok String
  | .raised "TypeError" => .typeError
  | r => r

def iresOfImpl (j : Json) : Except String (IRes Tok String) := do
  match j.getObjVal? "err" with
  | .ok e =>
    let e ← e.getStr?
    pure (if e == "TypeError" then .typeError else .raised e)
  | .error _ =>
    let r ← fStr j "ret"
    let a ← Tok.ofJson (← field j "a")
    let held : Held Tok := if a = .str "obj:CoordPayload" then .elemObj else .val a
    match r with
    | "same" => pure (.done .same held)
    | "none" => pure (.done .none held)
    | "fresh" => pure (.done .fresh held)
    | s => pure (.raised ("ret:" ++ s))

def handleIop (j : Json) : Except String Verdict := do
  let i ← iopOfStr (← fStr j "op")
  let ka ← kindOfStr (← fStr j "ka")
  let kb ← kindOfStr (← fStr j "kb")
  let x ← Tok.ofJson (← field j "x")
  let y ← Tok.ofJson (← field j "y")
  let raws ← parseRaws j
  if ka == .S then return { agree := true, spec := true, tags := ["OUT_OF_MODEL"] }
  let A := algOf raws false false none
  let impl ← iresOfImpl (← field j "impl")
  let m := normIRes (pyIop A i ka kb x y)
  let s := normIRes (iopSpec A i x y)
  let cons := oracleConsistent raws x y
  let alias := match j.getObjVal? "alias" with | .ok (Json.bool true) => true | _ => false
  let tags := [s!"iop:{fStrD j "op" "?"}:{kindStr ka}{kindStr kb}",
               if isFloatTok x || isFloatTok y then "float" else "int"] ++
              (if alias then ["alias"] else []) ++ decoTags j
  pure { agree := decide (m = impl), spec := cons && decide (impl = s), model := iresToJson m, tags,
         why := if cons then "" else "oracle disagrees with Lean integer arithmetic" }

/-! ### fibers -/

def c11OptNat (j : Json) (k : String) : Option Nat :=
  match j.getObjVal? k with
  | .ok v => match v.getNat? with | .ok n => some n | .error _ => none
  | .error _ => none

/-- all points of an `n0 × n1` shape -/
def gridPoints (ns : List Nat) : List (List Int) :=
  ns.foldr (fun n acc => (List.range n).flatMap (fun (i : Nat) => acc.map (fun p => (i : Int) :: p))) [[]]

def fiberTags (dflt : Int) (d : Nat) (a b : T (d + 1)) : List String :=
  let pa := present dflt d a; let pb := present dflt d b
  (if pa.isEmpty then ["emptyA"] else []) ++ (if pb.isEmpty then ["emptyB"] else []) ++
  (if pa.length < (show List (Int × T d) from a).length then ["skipA"] else []) ++
  (if pb.length < (show List (Int × T d) from b).length then ["skipB"] else []) ++
  (if pa.any (fun e => hasCoord pb e.1) then ["overlap"] else ["disjoint"]) ++
  (if pa.any (fun e => !hasCoord pb e.1) then ["aonly"] else []) ++
  (if pb.any (fun e => !hasCoord pa e.1) then ["bonly"] else [])


/-- how an operand got an active range different from (0, shape); the model does not depend on it -/
def actTags (j : Json) : List String :=
  let one (k : String) : List String := match j.getObjVal? k with
    | .ok a => ["active:" ++ fStrD a "how" "?"]
    | .error _ => []
  one "act" ++ one "actb"

def handleScalarLeaf (j : Json) (op : String) (dflt : Int) : Except String Verdict := do
  let s ← fInt j "s"
  let isAdd := op == "sadd" || op == "radd" || op == "isadd"
  let a ← fTree j "a" 1
  let implJ ← field j "impl"
  let implErr := match implJ.getObjVal? "err" with | .ok (Json.str e) => some e | _ => none
  let implOut : Option (T 1) := match implJ.getObjVal? "out" with
    | .ok o => (parseTree 1 o).toOption
    | .error _ => none
  let a0 : Fib Int Int := show List (Int × T 0) from a
  let n := shapeOf (c11OptNat j "shape") a0
  if isAdd && !inShapeB n a0 then return { agree := true, spec := true, tags := ["OUT_OF_MODEL"] }
  -- an in-place form applied twice: the second application starts from the model's first result
  let a0 : Fib Int Int := if (c11OptNat j "reps").getD 1 ≥ 2 then
      (match op with
       | "isadd" => isaddF dflt s n a0
       | "ismul" => ismulF dflt s a0
       | _ => a0)
    else a0
  let a : T 1 := show List (Int × T 0) from a0
  let m : Fib Int Int := match op with
    | "sadd" | "radd" => saddF dflt s n a0
    | "isadd" => isaddF dflt s n a0
    | "smul" | "rmul" => smulF dflt s a0
    | _ => ismulF dflt s a0
  let mT : T 1 := show List (Int × T 0) from m
  let tags := [s!"fiber:{op}", "leaf", s!"dflt{dflt}", if (c11OptNat j "shape").isSome then "shape-declared" else "shape-estimated"] ++
    (if a0.isEmpty then ["emptyA"] else []) ++ (if a0.any (fun e => e.2 == dflt) then ["explicit-default"] else []) ++
    (if isAdd && a0.length < n then ["fills"] else []) ++ (if s == 0 then ["s=0"] else []) ++ actTags j ++ decoTags j
  match implOut with
  | some out =>
    let out0 : Fib Int Int := show List (Int × T 0) from out
    let spec :=
      if isAdd then
        (List.range n).all (fun (i : Nat) => denseAt dflt 1 out [(i : Int)] == s + denseAt dflt 1 a [(i : Int)]) &&
        out0.all (fun e => (decide (0 ≤ e.1) && decide (e.1 < (n : Int))) || e.2 == dflt)
      else
        pointwiseB dflt 1 (fun x _ => if x ≠ dflt then s * x else dflt) a a out
    pure { agree := sameDenseB dflt 1 mT out, spec, model := treeToJson 1 mT, tags }
  | none =>
    pure { agree := false, spec := false, model := treeToJson 1 mT, tags,
           why := s!"implementation gave no tree: {implErr.getD "unparsable output"}" }

/-- value-returning scalar forms on a fiber of fibers (only sadd/radd/smul/rmul are generated) -/
def handleScalarDeep (j : Json) (op : String) (dflt : Int) (d' : Nat) : Except String Verdict := do
  let s ← fInt j "s"
  let isAdd := op == "sadd" || op == "radd"
  let a ← fTree j "a" (d' + 2)
  if !wfB (d' + 2) a then return { agree := true, spec := true, tags := ["OUT_OF_MODEL"] }
  let implJ ← field j "impl"
  let implErr := match implJ.getObjVal? "err" with | .ok (Json.str e) => some e | _ => none
  let implOut : Option (T (d' + 2)) := match implJ.getObjVal? "out" with
    | .ok o => (parseTree (d' + 2) o).toOption
    | .error _ => none
  let shape2 ← asInts (← field j "shape2")
  let ns := shape2.map Int.toNat
  let m : T (d' + 2) := if isAdd then saddT dflt s (d' + 2) ns a else smulT dflt s (d' + 2) a
  let tags := [s!"fiber:{op}", "depth2", s!"dflt{dflt}", "deep-scalar"] ++
    (if (content dflt (d' + 2) a).isEmpty then ["emptyA"] else []) ++ decoTags j
  let modelJ := treeToJson (d' + 2) m
  match implOut, implErr with
  | some out, _ =>
    let spec :=
      if isAdd then (gridPoints ns).all (fun p => denseAt dflt (d' + 2) out p == s + denseAt dflt (d' + 2) a p)
      else pointwiseB dflt (d' + 2) (fun x _ => if x ≠ dflt then s * x else dflt) a a out
    pure { agree := sameDenseB dflt (d' + 2) m out, spec, model := modelJ, tags }
  | none, some e =>
    pure { agree := false, spec := false, model := modelJ, tags, why := s!"value-returning scalar form raised {e}" }
  | none, none => pure { agree := false, spec := false, model := modelJ, tags, why := "unparsable output" }

def handleFiber (j : Json) : Except String Verdict := do
  let op ← fStr j "op"
  let d ← fNat j "d"
  let dflt := fIntD j "dflt" 0
  let a ← fTree j "a" (d + 1)
  let implJ ← field j "impl"
  let implErr := match implJ.getObjVal? "err" with | .ok (Json.str e) => some e | _ => none
  let implOut : Option (T (d + 1)) := match implJ.getObjVal? "out" with
    | .ok o => (parseTree (d + 1) o).toOption
    | .error _ => none
  let dtag := if d == 0 then "leaf" else "depth2"
  if !wfB (d + 1) a then return { agree := true, spec := true, tags := ["OUT_OF_MODEL"] }
  match op with
  | "add" | "mul" | "iadd" | "imul" =>
    let b ← fTree j "b" (d + 1)
    if !wfB (d + 1) b then return { agree := true, spec := true, tags := ["OUT_OF_MODEL"] }
    -- the right operand may carry a default of its own (modelled for `+` only)
    let dfltb := fIntD j "dfltb" dflt
    if dfltb != dflt && op != "add" then return { agree := true, spec := true, tags := ["OUT_OF_MODEL"] }
    -- an in-place form applied twice: the second application starts from the model's first result
    let a : T (d + 1) := if (c11OptNat j "reps").getD 1 ≥ 2 then
        (match op with
         | "iadd" => iaddT dflt (d + 1) a b
         | "imul" => imulT dflt d a b
         | _ => a)
      else a
    let m : T (d + 1) := match op with
      | "add" => addT dflt dfltb (d + 1) a b
      | "mul" => mulT dflt (d + 1) a b
      | "iadd" => iaddT dflt (d + 1) a b
      | _ => imulT dflt d a b
    let exp : Int → Int → Int := if op == "add" || op == "iadd" then addExpect dflt dflt else mulExpect dflt
    let tags := [s!"fiber:{op}", dtag, s!"dflt{dflt}"] ++ fiberTags dflt d a b ++ actTags j ++ decoTags j
    match implOut with
    | some out =>
      let structEq := (treeToJson (d + 1) out).compress == (treeToJson (d + 1) m).compress
      let spec := if dfltb != dflt then
          -- two defaults: each operand's dense view is taken with its own default
          ((content dflt (d + 1) a ++ content dfltb (d + 1) b ++ content dflt (d + 1) out).map (·.1)).all
            (fun p => denseAt dflt (d + 1) out p ==
              addExpect dflt dfltb (denseAt dflt (d + 1) a p) (denseAt dfltb (d + 1) b p))
        else pointwiseB dflt (d + 1) exp a b out
      pure { agree := sameDenseB dflt (d + 1) m out, spec,
             model := treeToJson (d + 1) m, tags := tags ++ [if structEq then "struct-eq" else "struct-diff"] }
    | none =>
      pure { agree := false, spec := false, model := treeToJson (d + 1) m, tags,
             why := s!"implementation gave no tree: {implErr.getD "unparsable output"}" }
  | "sadd" | "radd" | "smul" | "rmul" | "isadd" | "ismul" =>
    match d with
    | 0 => handleScalarLeaf j op dflt
    | d' + 1 => handleScalarDeep j op dflt d'
  | _ => throw s!"C11: unknown fiber op {op}"

def handleC11 (j : Json) : Except String Verdict := do
  let fam ← fStr j "fam"
  match fam with
  | "bin" => handleBin j
  | "cmp" => handleCmp j
  | "iop" => handleIop j
  | "fiber" => handleFiber j
  | _ => throw s!"C11: unknown family {fam}"

end FtDriver
