import FtDriver.Json
open Lean (Json)
namespace FtDriver
open Ft

def handleC11 (_j : Json) : Except String Verdict := throw "C11: not implemented"

end FtDriver
