import FtDriver.Json
open Lean (Json)
namespace FtDriver
open Ft

def handleC03 (_j : Json) : Except String Verdict := throw "C03: not implemented"

end FtDriver
