import FtDriver.Json
open Lean (Json)
namespace FtDriver
open Ft

/-- finite map point ↦ value (default elsewhere): the abstract spec state -/
abbrev PMap := List (List Int × Int)

def PMap.get (m : PMap) (dflt : Int) (p : List Int) : Int := (clookup m p).getD dflt
def PMap.set (m : PMap) (p : List Int) (v : Int) : PMap := (p, v) :: m.filter (fun e => e.1 != p)
/-- canonical form: non-default entries, sorted lexicographically -/
def PMap.canon (m : PMap) (dflt : Int) : PMap :=
  let l := m.filter (fun e => e.2 != dflt)
  (l.toArray.qsort (fun a b => a.1 < b.1)).toList

def stripPrefix : List Int → List Int → Option (List Int)
  | [], p => some p
  | _ :: _, [] => none
  | a :: q, b :: p => if a = b then stripPrefix q p else none

/-- is the full path stored? (for getPayload with caller default / allocate=False) -/
def pathStored : (d : Nat) → T d → List Int → Bool
  | 0, _, _ => true
  | _ + 1, _, [] => false
  | d + 1, f, c :: cs =>
    match posLookup (show List (Int × T d) from f) c with
    | some s => pathStored d s cs
    | none => false

structure PState (d : Nat) where
  tree : T d
  spec : PMap
  okAgree : Bool := true
  okSpec : Bool := true
  why : String := ""
  tags : List String := []

def jsonEqInt (j : Json) (v : Int) : Bool := match j.getInt? with | .ok x => x == v | _ => false

def optTreeJson (d : Nat) (q : List Int) (t : T d) (dflt : Int) : Json :=
  -- sub-tree reached by prefix q as JSON (depth d - |q|); computed by repeated lookup
  let rec go : (d : Nat) → T d → List Int → Json
    | 0, v, _ => jInt (show Int from v)
    | d + 1, f, [] => treeToJson (d + 1) f
    | d + 1, f, c :: cs =>
      match posLookup (show List (Int × T d) from f) c with
      | some s => go d s cs
      | none => go d (defaultTree dflt d) cs
  go d t q

def contentOfJson (dflt : Int) : (d : Nat) → Json → Except String PMap
  | d, j => do let t ← parseTree d j; pure (content dflt d t)

def stepC03 (dflt : Int) (d : Nat) (st : PState d) (op : Json) (obs : Json) : Except String (PState d) := do
  let k ← fStr op "k"
  let p ← asInts (← field op "p")
  let out ← field obs "out"
  let snapJ ← field obs "snap"
  let snap ← parseTree d snapJ
  let fail (st : PState d) (agree : Bool) (msg : String) : PState d :=
    if agree then { st with okSpec := false, why := if st.why.isEmpty then msg else st.why }
    else { st with okAgree := false, why := if st.why.isEmpty then msg else st.why }
  -- model step
  let (mtree, mout, sspec, sout) ← (match k with
    | "get" => pure (st.tree, jInt (getLeaf dflt d st.tree p), st.spec, jInt (st.spec.get dflt p))
    | "getd" => do
      let v ← fInt op "v"
      let stored := pathStored d st.tree p
      -- spec: the value written there if the path was ever created, else the caller's default
      pure (st.tree, jInt (if stored then getLeaf dflt d st.tree p else v), st.spec,
            jInt (if stored then st.spec.get dflt p else v))
    | "getprefix" => pure (st.tree, optTreeJson d p st.tree dflt, st.spec, Json.null)
    | "ref" =>
      let t' := refAt dflt d st.tree p
      pure (t', jInt (getLeaf dflt d t' p), st.spec, jInt (st.spec.get dflt p))
    | "assign" => do
      let v ← fInt op "v"
      -- `ref.v = <payload of another point>` first obtains that point's reference (which creates it)
      let t0 := match op.getObjVal? "from" with
        | .ok q => (match asInts q with | .ok qs => refAt dflt d st.tree qs | _ => st.tree)
        | _ => st.tree
      let t' := updateAt (fun _ => v) d (refAt dflt d t0 p) p
      pure (t', jInt (getLeaf dflt d t' p), st.spec.set p v, jInt v)
    | "iadd" => do
      let v ← fInt op "v"
      let t' := updateAt (fun x => x + v) d (refAt dflt d st.tree p) p
      let nv := st.spec.get dflt p + v
      pure (t', jInt (getLeaf dflt d t' p), st.spec.set p nv, jInt nv)
    | "assignp" =>
      -- fiber assignment through the reference at a partial point: the prefix path is created, then the
      -- sub-fiber there becomes a copy of the source's non-empty part (Mutate.assignF)
      match d, st.tree with
      | d' + 1, tr =>
        match field op "src" with
        | .error e => throw e
        | .ok srcJ =>
          let t1 := refAt dflt (d' + 1) tr p
          let g : TreeArg Int := { get := fun k => (parseTree k srcJ).toOption }
          let t' := (mstep dflt d' t1 (.assignF p g)).1
          match contentOfJson dflt (d' + 1 - p.length) srcJ with
          | .error e => throw e
          | .ok srcC =>
            let spec' : PMap := st.spec.filter (fun e => (stripPrefix p e.1).isNone) ++ srcC.map (fun e => (p ++ e.1, e.2))
            pure (t', optTreeJson (d' + 1) p t' dflt, spec', Json.null)
      | 0, _ => throw "assignp at depth 0"
    | "iaddsp" => do
      -- `h = getPayloadRef(*p)` (a leaf fiber); `h += v`: `iterShapeRef` over the rank's extent (recorded by the
      -- harness before the call), every coordinate referenced (created if absent) and incremented
      let v ← fInt op "v"
      let n ← fNat op "shape"
      let cs : List Int := (List.range n).map Int.ofNat
      -- the history `iadd (p ++ [c]) v`, c over the extent, after the reference (theorem iadd_scalar_leaf_fiber)
      let t' := (pointRun dflt d (refAt dflt d st.tree p) (cs.map (fun c => PointOp.iadd (p ++ [c]) v))).1
      let spec' : PMap := cs.foldl (fun m c => m.set (p ++ [c]) (m.get dflt (p ++ [c]) + v)) st.spec
      pure (t', optTreeJson d p t' dflt, spec', Json.null)
    | "iaddfp" =>
      -- `h += g` for a leaf fiber `g`: the populate loop `h << g` with `ref += val` as its body (Mutate.populate)
      match d, st.tree with
      | d' + 1, tr =>
        match field op "f" with
        | .error e => throw e
        | .ok gJ =>
          let t1 := refAt dflt (d' + 1) tr p
          let g : TreeArg Int := { get := fun k => (parseTree k gJ).toOption }
          let t' := (mstep dflt d' t1 (.populate p g (fun _ cur av => cur + av) (fun _ => Inner.recurse))).1
          match contentOfJson dflt 1 gJ with
          | .error e => throw e
          | .ok gC =>
            let spec' : PMap := gC.foldl (fun m e => m.set (p ++ e.1) (m.get dflt (p ++ e.1) + e.2)) st.spec
            pure (t', optTreeJson (d' + 1) p t' dflt, spec', Json.null)
      | 0, _ => throw "iaddfp at depth 0"
    | "imulp" => do
      -- `h = getPayloadRef(*p); h *= v` at a partial point (the root for []): Point.updateUnder after refAt;
      -- the walk skips empty elements, i.e. leaves holding the default stay as they are
      let v ← fInt op "v"
      let g : Int → Int := fun x => if x = dflt then x else x * v
      let t' := updateUnder g d (refAt dflt d st.tree p) p
      let spec' : PMap := st.spec.map (fun e => if (stripPrefix p e.1).isSome then (e.1, g e.2) else e)
      pure (t', optTreeJson d p t' dflt, spec', Json.null)
    | "posref" =>
      match d, st.tree, snap with
      | d' + 1, tr, sn =>
        let c := p.headD 0
        let t' := refAt dflt (d' + 1) tr [c]
        let idx := lowerBound (show List (Int × T d') from tr) c
        let sidx := ((show List (Int × T d') from sn).zipIdx.find? (fun e => e.1.1 = c)).map (·.2)
        pure (t', jNat idx, st.spec, match sidx with | some i => jNat i | none => Json.null)
      | 0, _, _ => throw "posref at depth 0"
    | _ => throw s!"C03: unknown op kind {k}")
  let mut st' := { st with tree := mtree, spec := sspec, tags := if st.tags.contains k then st.tags else k :: st.tags }
  -- agreement: output and tree after the step
  if !(treeEq d mtree snap) then st' := fail st' false s!"tree after {k} {p} differs from model"
  if k == "assignp" || k == "imulp" || k == "iaddsp" || k == "iaddfp" then
    if mout.compress != out.compress then st' := fail st' false s!"assignp {p}: model {mout.compress} impl {out.compress}"
  else if k == "getprefix" then
    if mout.compress != out.compress then st' := fail st' false s!"getprefix {p}: model {mout.compress} impl {out.compress}"
    -- spec: content of the returned sub-tree = the contents under the prefix
    let sub ← contentOfJson dflt (d - p.length) out
    let expect := (content dflt d snap).filterMap (fun e => (stripPrefix p e.1).map (fun r => (r, e.2)))
    if !(decide (sub = expect)) then st' := fail st' true s!"getprefix {p}: sub-fiber content is not the content under the prefix"
  else
    if mout.compress != out.compress then st' := fail st' false s!"{k} {p}: model {mout.compress} impl {out.compress}"
    if sout.compress != out.compress then st' := fail st' true s!"{k} {p}: abstract map says {sout.compress}, impl {out.compress}"
  -- spec: the implementation's tree is well-formed and represents the abstract map
  if !(wfB d snap) then st' := fail st' true s!"tree after {k} {p} is not well-formed"
  if !(decide ((content dflt d snap : PMap) = sspec.canon dflt)) then
    st' := fail st' true s!"content after {k} {p} is not the abstract map"
  pure st'

def handlePoints (j : Json) : Except String Verdict := do
  let d ← fNat j "d"
  let dflt := fIntD j "dflt" 0
  let t ← fTree j "t" d
  if d == 0 || !wfB d t then return { agree := true, spec := true, tags := ["OUT_OF_MODEL"] }
  let ops ← fArr j "ops"
  let impl ← fArr j "impl"
  if ops.length != impl.length then throw "C03: ops/impl length mismatch"
  let mut st : PState d := { tree := t, spec := content dflt d t }
  for (op, obs) in ops.zip impl do
    st ← stepC03 dflt d st op obs
  let tags := st.tags ++ (if !canonicalB dflt d t then ["residue"] else [])
  pure { agree := st.okAgree, spec := st.okSpec, model := treeToJson d st.tree, tags, why := st.why }

/-- positions in a single fiber, with optional start_pos; `ref` = getPositionRef (creates the element) -/
def handlePos (j : Json) : Except String Verdict := do
  let f ← fTree j "t" 1
  let l := (show List (Int × T 0) from f)
  if !sortedB l then return { agree := true, spec := true, tags := ["OUT_OF_MODEL"] }
  let c ← fInt j "c"
  let sp := (fInt j "sp").toOption
  let isRef := match j.getObjVal? "ref" with | .ok (Json.bool true) => true | _ => false
  let impl ← field j "impl"          -- position or null
  let legal := match sp with | some s => legalStart l s.toNat c | none => true
  if !legal then return { agree := true, spec := true, tags := ["illegal-start"] }
  -- model: the code's search (linear from sp, else lower bound), then the existence test
  let idx := match sp with | some s => coord2posFrom l s.toNat c | none => lowerBound l c
  let found : Bool := match l[idx]? with | some e => e.1 = c | none => false
  let io : Option Nat := match impl.getNat? with | .ok n => some n | _ => none
  let okShape := impl.isNull || io.isSome
  let tags := (if sp.isSome then ["start_pos"] else []) ++ (if found then ["found"] else ["absent"]) ++
    (if isRef then ["posref"] else [])
  if fStrD j "via" "" == "get" then
    -- getPayload(c, start_pos=sp): the value stored at c, else the default, for every legal shortcut
    let v : Int := match lookup l c with | some x => (show Int from x) | none => 0
    let mv : Int := match l[idx]? with | some e => if e.1 = c then (show Int from e.2) else 0 | none => 0
    let ok (x : Int) : Bool := match impl.getInt? with | .ok y => y == x | _ => false
    return { agree := ok mv, spec := ok v, model := jInt mv, tags := tags ++ ["read-with-start_pos"] }
  if isRef then
    -- getPositionRef returns the search position and leaves the element stored there
    let after ← fTree j "after" 1
    let la := (show List (Int × T 0) from after)
    let mAfter := insertIfMissing (0 : Int) l c
    let dfl := fIntD j "dflt" 0
    let mAfter' : List (Int × T 0) := if found then l else insertAt l c (dfl : Int)
    let _ := mAfter
    let sIdx : Option Nat := (la.zipIdx.find? (fun e => e.1.1 = c)).map (·.2)
    pure { agree := okShape && (some idx == io) && treeEq 1 (show T 1 from mAfter') after,
           spec := okShape && io.isSome && (sIdx == io) && sortedB la &&
             decide ((content dfl 1 after : PMap) = content dfl 1 f),
           model := jNat idx, tags }
  else
    let m : Option Nat := if found then some idx else none
    -- spec: the index of the element with coordinate c, if any (independent of sp)
    let s : Option Nat := (l.zipIdx.find? (fun e => e.1.1 = c)).map (·.2)
    pure { agree := okShape && (m == io), spec := okShape && (s == io), model := posJson m, tags }

def handleC03 (j : Json) : Except String Verdict := do
  match (← fStr j "op") with
  | "points" => handlePoints j
  | "pos" => handlePos j
  | o => throw s!"C03: unknown op {o}"

end FtDriver
