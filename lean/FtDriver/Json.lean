/-
  JSON helpers for the line protocol (one JSON object per line in, one per line out).
-/
import Lean.Data.Json
import FtModel
open Lean (Json)
namespace FtDriver
open Ft

abbrev T := Tree Int Int

def field (j : Json) (k : String) : Except String Json := j.getObjVal? k
def fInt (j : Json) (k : String) : Except String Int := do (← field j k).getInt?
def fNat (j : Json) (k : String) : Except String Nat := do (← field j k).getNat?
def fStr (j : Json) (k : String) : Except String String := do (← field j k).getStr?
def fArr (j : Json) (k : String) : Except String (List Json) := do pure (← (← field j k).getArr?).toList
def fIntD (j : Json) (k : String) (d : Int) : Int := match fInt j k with | .ok v => v | _ => d
def fStrD (j : Json) (k : String) (d : String) : String := match fStr j k with | .ok v => v | _ => d

def jList (l : List Json) : Json := Json.arr l.toArray
def jInt (i : Int) : Json := Json.num (Lean.JsonNumber.fromInt i)
def jNat (i : Nat) : Json := Json.num (Lean.JsonNumber.fromNat i)
def jInts (l : List Int) : Json := jList (l.map jInt)

def asList (j : Json) : Except String (List Json) := do pure (← j.getArr?).toList
def asInts (j : Json) : Except String (List Int) := do (← asList j).mapM (·.getInt?)

def parseTree : (d : Nat) → Json → Except String (T d)
  | 0, j => j.getInt?
  | d + 1, j => do
    let arr ← asList j
    let r ← arr.mapM (fun e => do
      match (← asList e) with
      | [c, t] => do
        let c ← c.getInt?
        let t ← parseTree d t
        pure (c, t)
      | _ => throw "tree: expected [coord, payload]")
    pure (show List (Int × T d) from r)

def treeToJson : (d : Nat) → T d → Json
  | 0, v => jInt (show Int from v)
  | d + 1, f => jList ((show List (Int × T d) from f).map (fun e => jList [jInt e.1, treeToJson d e.2]))

def treeEq : (d : Nat) → T d → T d → Bool
  | 0, x, y => decide ((show Int from x) = (show Int from y))
  | d + 1, a, b =>
    let la := (show List (Int × T d) from a); let lb := (show List (Int × T d) from b)
    la.length == lb.length && (la.zip lb).all (fun p => p.1.1 == p.2.1 && treeEq d p.1.2 p.2.2)

def fTree (j : Json) (k : String) (d : Nat) : Except String (T d) := do parseTree d (← field j k)

/-- Python's `range(s, e, step)` (empty for step 0) -/
def pyRange (s e step : Int) : List Int :=
  if step > 0 then
    let n := ((e - s).toNat + step.toNat - 1) / step.toNat
    (List.range n).map (fun (i : Nat) => s + Int.ofNat i * step)
  else if step < 0 then
    let st := (-step).toNat
    let n := ((s - e).toNat + st - 1) / st
    (List.range n).map (fun (i : Nat) => s + Int.ofNat i * step)
  else []

/-- optional position: -1 encodes "fresh default / none" -/
def optPos (i : Int) : Option Nat := if i < 0 then none else some i.toNat
def posJson : Option Nat → Json
  | none => jInt (-1)
  | some p => jNat p

structure Verdict where
  agree : Bool
  spec  : Bool
  model : Json := Json.null
  tags  : List String := []
  why   : String := ""

def Verdict.toJson (v : Verdict) (id : Json) : Json :=
  Json.mkObj [("id", id), ("agree", Json.bool v.agree), ("spec", Json.bool v.spec),
    ("model", v.model), ("tags", jList (v.tags.map Json.str)), ("why", Json.str v.why)]

end FtDriver
