import FtDriver.Json
import FtDriver.C03
open Lean (Json)
namespace FtDriver
open Ft

/-- body actions, keyed by point (full point: leaf action; partial point: "skip" the nested loop) -/
inductive Act | leave | assign (v : Int) | add (v : Int) | reset | skip | touch (v : Int)
  deriving Repr

abbrev Acts := List (List Int × Act)

def Acts.get (a : Acts) (p : List Int) : Option Act := (a.find? (fun e => e.1 == p)).map (·.2)

def parseActs (j : Json) : Except String Acts := do
  (← asList j).mapM (fun e => do
    match (← asList e) with
    | [p, code, v] => do
      let p ← asInts p
      let v ← v.getInt?
      match (← code.getStr?) with
      | "leave" => pure (p, Act.leave)
      | "assign" => pure (p, Act.assign v)
      | "add" => pure (p, Act.add v)
      | "reset" => pure (p, Act.reset)
      | "skip" => pure (p, Act.skip)
      | "touch" => pure (p, Act.touch v)
      | s => throw s!"bad action {s}"
    | _ => throw "bad action row")

def leafAct (dflt : Int) (acts : Acts) (p : List Int) (cur aval : Int) : Int :=
  match acts.get p with
  | some .leave => cur
  | some (.assign v) => v
  | some (.add v) => cur + v
  | some .reset => dflt
  | some .skip => cur
  | some (.touch _) => cur
  | none => cur + aval          -- default body: z_ref += a_val

/-- source elements presented by a compressed rank, with their storage position -/
def presentPosT (dflt : Int) (d : Nat) (f : T (d + 1)) : Fib Int (Nat × T d) :=
  (((show List (Int × T d) from f).zipIdx).filter (fun e => !isEmpty dflt d e.1.2)).map
    (fun e => (e.1.1, (e.2, e.1.2)))

structure LogRow where
  point : List Int
  cur : Json
  apos : Int

/-- what the source presents at its top rank: format "C" → non-empty stored elements with their
    storage position; format "U" with shape `n` → every coordinate `0..n-1` with the stored payload
    (position) or a fresh default (position -1) -/
def presentSrc (fmt : String) (shape : Nat) (dflt : Int) (d : Nat) (f : T (d + 1)) : Fib Int (Int × T d) :=
  -- "U": C07's dense iteration `shapeIter` over [0, shape) (what `presentDense` keeps the references of)
  if fmt == "U" then
    (Ft.C07.shapeIter (defaultTree dflt d) (show Fib Int (T d) from f) (Ft.C07.pyRange 0 (Int.ofNat shape) 1)).map
      (fun e => (e.1, ((match e.2.1 with | some i => Int.ofNat i | none => -1), e.2.2)))
  else (presentPosT dflt d f).map (fun e => (e.1, (Int.ofNat e.2.1, e.2.2)))

/-- nested populate with the action table as loop body — an instance of `Ft.populate` at every level -/
def popTree (dflt : Int) (acts : Acts) (fmts : List String := []) (shapes : List Nat := []) : (d : Nat) → List Int → T (d + 1) → T (d + 1) → T (d + 1) × List LogRow
  | 0, pre, z, a =>
    let r := populate dflt 0 (fun c cur (ap : Int × T 0) => (leafAct dflt acts (pre ++ [c]) (show Int from cur) (show Int from ap.2) : Int))
      z (presentSrc (fmts.getD pre.length "C") (shapes.getD pre.length 0) dflt 0 a)
    (r.1, r.2.map (fun y => { point := pre ++ [y.1], cur := jInt (show Int from y.2.1), apos := y.2.2.1 }))
  | d + 1, pre, z, a =>
    let recurse (c : Int) : Bool := match acts.get (pre ++ [c]) with | some .skip => false | some (.touch _) => false | _ => true
    let r := populate dflt (d + 1) (fun c cur (ap : Int × T (d + 1)) =>
        match acts.get (pre ++ [c]) with
        | some .skip => cur
        | some (.touch c') => insertIfMissing (defaultTree dflt d) (show List (Int × T d) from cur) c'
        | _ => (popTree dflt acts fmts shapes d (pre ++ [c]) cur ap.2).1) z
        (presentSrc (fmts.getD pre.length "C") (shapes.getD pre.length 0) dflt (d + 1) a)
    (r.1, r.2.flatMap (fun y =>
      { point := pre ++ [y.1], cur := treeToJson (d + 1) y.2.1, apos := y.2.2.1 } ::
      (if recurse y.1 then (popTree dflt acts fmts shapes d (pre ++ [y.1]) y.2.1 y.2.2.2).2 else [])))

/-- independent spec: the leaf points the nested loops offer (in order), from the source alone -/
def presentTop (fmts : List String) (shapes : List Nat) (dflt : Int) (d : Nat) (pre : List Int) (a : T (d + 1)) : Fib Int (T d) :=
  (presentSrc (fmts.getD pre.length "C") (shapes.getD pre.length 0) dflt d a).map (fun e => (e.1, e.2.2))

def offered (dflt : Int) (acts : Acts) (fmt : List String := []) (shape : List Nat := []) : (d : Nat) → List Int → T (d + 1) → List (List Int × Int)
  | 0, pre, a => (presentTop fmt shape dflt 0 pre a).map (fun e => (pre ++ [e.1], (show Int from e.2)))
  | d + 1, pre, a => (presentTop fmt shape dflt (d + 1) pre a).flatMap (fun e =>
      match acts.get (pre ++ [e.1]) with
      | some .skip => []
      | some (.touch _) => []
      | _ => offered dflt acts fmt shape d (pre ++ [e.1]) e.2)

/-- paths (of every length ≥ 1) stored in a tree -/
def paths : (d : Nat) → T d → List (List Int)
  | 0, _ => []
  | d + 1, f => (show List (Int × T d) from f).flatMap (fun e => [e.1] :: (paths d e.2).map (e.1 :: ·))

/-- every point the nested loops offer (interior and leaf), from the source and the action table alone -/
def offeredAll (dflt : Int) (acts : Acts) (fmt : List String := []) (shape : List Nat := []) : (d : Nat) → List Int → T (d + 1) → List (List Int)
  | 0, pre, a => (presentTop fmt shape dflt 0 pre a).map (fun e => pre ++ [e.1])
  | d + 1, pre, a => (presentTop fmt shape dflt (d + 1) pre a).flatMap (fun e =>
      (pre ++ [e.1]) ::
      (match acts.get (pre ++ [e.1]) with
       | some .skip => []
       | some (.touch _) => []
       | _ => offeredAll dflt acts fmt shape d (pre ++ [e.1]) e.2))

/-- is the payload stored at `p` a residue (a default leaf / a fiber without elements)?  `none` if
    nothing is stored at `p` -/
def residueAt (dflt : Int) : (d : Nat) → T d → List Int → Option Bool
  | 0, _, _ => none
  | _ + 1, _, [] => none
  | d + 1, f, [c] =>
    (lookup (show List (Int × T d) from f) c).map (fun s =>
      match d, s with
      | 0, v => decide ((show Int from v) = dflt)
      | d' + 1, g => (show List (Int × T d') from g).isEmpty)
  | d + 1, f, c :: c2 :: cs =>
    match lookup (show List (Int × T d) from f) c with
    | some s => residueAt dflt d s (c2 :: cs)
    | none => none

/-- residue test: no offered point that was not stored before the loop is left holding a default
    leaf / an element-less sub-fiber (elements the *body* inserts below an offered sub-fiber are the
    body's business) -/
def residueFree (dflt : Int) (acts : Acts) (fmt : List String) (shape : List Nat) (d : Nat) (z a out : T (d + 1)) : Bool :=
  let before := paths (d + 1) z
  (offeredAll dflt acts fmt shape d [] a).all (fun p =>
    -- an offered *leaf* coordinate left at the default leaves no element, whether or not it existed;
    -- an offered sub-fiber is only required to vanish if the loop itself created it
    (p.length != d + 1 && before.contains p) || (residueAt dflt (d + 1) out p != some true))

def handleC05Core (j : Json) : Except String Verdict := do
  let d ← fNat j "d"
  let dflt := fIntD j "dflt" 0
  let z ← fTree j "z" (d + 1)
  let a ← fTree j "a" (d + 1)
  let acts ← parseActs (← field j "acts")
  if !wfB (d + 1) z || !wfB (d + 1) a then return { agree := true, spec := true, tags := ["OUT_OF_MODEL"] }
  let impl ← field j "impl"
  let zi ← fTree impl "z" (d + 1)
  let yi ← fArr impl "yields"
  -- per-rank formats / extents of the source (top rank first); a single string / number means the top rank only
  let fmt : List String := match j.getObjVal? "fmtA" with
    | .ok (Json.str s) => [s]
    | .ok (Json.arr a) => a.toList.map (fun x => x.getStr?.toOption.getD "C")
    | _ => []
  let shape : List Nat := match j.getObjVal? "shapeA" with
    | .ok (Json.arr a) => a.toList.map (fun x => x.getNat?.toOption.getD 0)
    | .ok x => [x.getNat?.toOption.getD 0]
    | _ => []
  let (mz, mlog) := popTree dflt acts fmt shape d [] z a
  -- agreement: final destination and the yielded sequence
  let mlogJ := mlog.map (fun r => jList [jInts r.point, r.cur, jInt r.apos])
  let agreeZ := treeEq (d + 1) mz zi
  let agreeY := (jList mlogJ).compress == (jList yi).compress
  -- independent spec on the implementation's observation
  let off := offered dflt acts fmt shape d [] a
  let m0 : PMap := content dflt (d + 1) z
  let mEnd : PMap := off.foldl (fun m pa => m.set pa.1 (leafAct dflt acts pa.1 (m.get dflt pa.1) pa.2)) m0
  let specContent := decide ((content dflt (d + 1) zi : PMap) = mEnd.canon dflt)
  let specWf := wfB (d + 1) zi
  let specRes := residueFree dflt acts fmt shape d z a zi
  -- yields: the leaf rows of the implementation's log are exactly the offered points, in order,
  -- each showing the destination's current value
  let leafRows ← yi.filterMapM (fun r => do
    match (← asList r) with
    | [p, cur, _] => do
      let p ← asInts p
      if p.length == d + 1 then pure (some (p, (← cur.getInt?))) else pure none
    | _ => throw "yield row")
  -- current value seen at each offered point = value in the map before this point's own action
  -- (points are distinct, so this is the initial map's value)
  let expectRows := off.map (fun pa => (pa.1, m0.get dflt pa.1))
  let specY := decide (leafRows = expectRows)
  let why := (if !agreeZ then "destination differs from model; " else "") ++
    (if !agreeY then "yield log differs from model; " else "") ++
    (if !specContent then "content is not the previous content overridden by the writes; " else "") ++
    (if !specWf then "destination not well-formed; " else "") ++
    (if !specRes then "a created element was left behind at the default / without elements; " else "") ++
    (if !specY then "offered coordinates/values are not the source's presented coordinates with the destination's current values; " else "")
  let nz := (show List (Int × T d) from z).length
  let tags := (if nz == 0 then ["z-empty"] else []) ++
    (if off.any (fun pa => (clookup m0 pa.1).isSome) then ["overlap"] else []) ++
    (if off.any (fun pa => (clookup m0 pa.1).isNone) then ["create"] else []) ++
    (if !canonicalB dflt (d + 1) z then ["z-residue"] else []) ++
    (if !canonicalB dflt (d + 1) a then ["a-residue"] else []) ++
    (if (paths (d + 1) z).length + off.length > (paths (d + 1) zi).length + 0 && off.length > 0 then ["removed-some"] else []) ++
    (if acts.any (fun e => match e.2 with | .reset => true | _ => false) then ["reset"] else []) ++
    (if acts.any (fun e => match e.2 with | .skip => true | _ => false) then ["skip"] else []) ++
    (if acts.any (fun e => match e.2 with | .touch _ => true | _ => false) then ["touch"] else []) ++
    (if fmt.head? == some "U" then ["srcU"] else []) ++
    (if (fmt.drop 1).contains "U" then ["srcU-below-top"] else [])
  pure { agree := agreeZ && agreeY, spec := specContent && specWf && specRes && specY,
         model := treeToJson (d + 1) mz, tags, why }

/-- a case may carry a second phase: the same fiber objects populated once more after both tensors were given another
    leaf default; it is judged like a fresh case (destination as it was before the second pass, the new default, a
    body that writes nothing) -/
def handleC05 (j : Json) : Except String Verdict := do
  let v1 ← handleC05Core j
  match j.getObjVal? "phase2" with
  | .ok p2 =>
    let j2 := (((j.setObjVal! "dflt" (← field p2 "dflt")).setObjVal! "z" (← field p2 "z")).setObjVal! "acts" (← field p2 "acts")).setObjVal!
      "impl" (← field p2 "impl")
    let v2 ← handleC05Core j2
    pure { v1 with agree := v1.agree && v2.agree, spec := v1.spec && v2.spec, tags := v1.tags ++ ["redefault"],
                   why := if v1.agree && v1.spec && !(v2.agree && v2.spec) then "second pass after setDefault: " ++ v2.why else v1.why }
  | _ => pure v1

end FtDriver
