import FtDriver.Json
open Lean (Json)
namespace FtDriver
open Ft

def handleC05 (_j : Json) : Except String Verdict := throw "C05: not implemented"

end FtDriver
