import FtDriver.Json
open Lean (Json)
namespace FtDriver
open Ft Ft.Codec

/-- an encoded fiber as observed on the implementation -/
structure IFib where
  fmt    : String
  next   : Option String
  shape  : Option Nat
  coords : List Int
  occs   : List Int
  vals   : List Int
  npay   : Nat
  kids   : List Int
  nnz    : Option Int
  idx    : Option Int
  osf    : Option Int
  size   : Option Int
  scan   : Option (List (Option Int × Option Int × Option Int))
  scan2  : Option (List (Option Int × Option Int × Option Int))
  scanb  : List (Nat × List (Option Int × Option Int × Option Int))
  lookup : Option (List (Int × Option Int))

def optInt (j : Json) : Except String (Option Int) :=
  if j.isNull then pure none else do pure (some (← j.getInt?))

def fOpt (j : Json) (k : String) : Option Json :=
  match j.getObjVal? k with
  | .ok v => if v.isNull then none else some v
  | .error _ => none

def fOptInt (j : Json) (k : String) : Except String (Option Int) :=
  match fOpt j k with
  | none => pure none
  | some v => do pure (some (← v.getInt?))

def parseIFib (j : Json) : Except String IFib := do
  let parseScan (key : String) : Except String (Option (List (Option Int × Option Int × Option Int))) :=
    match fOpt j key with
    | none => pure none
    | some s => do
      let rows ← (← asList s).mapM (fun r => do
        match (← asList r) with
        | [c, ph, res] =>
          -- a non-integer coordinate marks a scan that raised / did not terminate
          let c' ← match c.getInt? with
            | .ok v => pure (some v)
            | .error _ => if c.isNull then pure none else pure (some (-999))
          pure (c', (← optInt ph), (← optInt res))
        | _ => throw "scan row")
      pure (some rows)
  let scan ← parseScan "scan"
  let scan2 ← parseScan "scan2"
  let parseRows (s : Json) : Except String (List (Option Int × Option Int × Option Int)) := do
    (← asList s).mapM (fun r => do
      match (← asList r) with
      | [c, ph, res] =>
        let c' ← match c.getInt? with
          | .ok v => pure (some v)
          | .error _ => if c.isNull then pure none else pure (some (-999))
        pure (c', (← optInt ph), (← optInt res))
      | _ => throw "scan row")
  let scanb ← match fOpt j "scanb" with
    | none => pure []
    | some s => do
      (← asList s).mapM (fun e => do
        match (← asList e) with
        | [b, rows] => pure ((← b.getNat?), (← parseRows rows))
        | _ => throw "scanb entry")
  let lookup ← match fOpt j "lookup" with
    | none => pure none
    | some s => do
      let rows ← (← asList s).mapM (fun r => do
        match (← asList r) with
        | [q, h] => pure ((← q.getInt?), (← optInt h))
        | _ => throw "lookup row")
      pure (some rows)
  pure {
    fmt := ← fStr j "fmt"
    next := match fOpt j "next" with | some v => v.getStr?.toOption | none => none
    shape := (← fOptInt j "shape").map Int.toNat
    coords := ← asInts (← field j "coords")
    occs := ← asInts (← field j "occs")
    vals := ← asInts (← field j "vals")
    npay := ← fNat j "npay"
    kids := ← asInts (← field j "kids")
    nnz := ← fOptInt j "nnz"
    idx := ← fOptInt j "idx"
    osf := ← fOptInt j "osf"
    size := ← fOptInt j "size"
    scan, scan2, scanb, lookup }

def parseFmts (s : String) : Except String (List Fmt) :=
  s.toList.mapM (fun c => match c with
    | 'U' => pure Fmt.U | 'C' => pure Fmt.C | 'B' => pure Fmt.B
    | _ => throw s!"bad format {c}")

def asNats (j : Json) : Except String (List Nat) := do pure ((← asInts j).map Int.toNat)
def asIntss (j : Json) : Except String (List (List Int)) := do (← asList j).mapM asInts

def optNatToInt (o : Option Nat) : Option Int := o.map (fun n => (n : Int))

/-- static attributes of an encoded fiber: implementation vs model -/
def attrsAgree (leaf : Bool) (F : EFib) (I : IFib) : Bool :=
  I.fmt == F.fmt.toString && I.next == F.next.map Fmt.toString &&
  (match F.fmt with
   | .C => true
   | _ => I.shape == some F.shape) &&
  I.coords == F.coords && I.occs == F.occs && I.vals == F.vals && I.npay == F.npay &&
  I.nnz == some (F.nnz : Int) && I.idx == some (F.idx : Int) && I.osf == some (F.osf : Int) &&
  I.kids == (if leaf then [] else (List.range F.npay).map (fun k => ((F.kid0 + k : Nat) : Int)))

def modelScan (F : EFib) : List (Option Int × Option Int × Option Int) :=
  F.scan.map (fun e => (e.1, optNatToInt e.2, F.resolve e.2))

def sizeCode (o : Option Nat) : Int := match o with | some n => n | none => -1

def zipAll {α β : Type} (p : α → β → Bool) : List α → List β → Bool
  | [], [] => true
  | a :: r, b :: s => p a b && zipAll p r s
  | _, _ => false

def hasPair (fs : List Fmt) (a b : Fmt) : Bool :=
  (fs.zip fs.tail).any (fun e => e.1 == a && e.2 == b)

def hasEmptySub : (d : Nat) → T d → Bool
  | 0, _ => false
  | 1, _ => false
  | d + 2, f => (show List (Int × T (d + 1)) from f).any
      (fun e => (show List (Int × T d) from e.2).isEmpty || hasEmptySub (d + 1) e.2)

def hasExplicitDflt (dflt : Int) : (d : Nat) → T d → Bool
  | 0, v => decide ((show Int from v) = dflt)
  | d + 1, f => (show List (Int × T d) from f).any (fun e => hasExplicitDflt dflt d e.2)

def handleC20 (j : Json) : Except String Verdict := do
  let d1 ← fNat j "d"
  if d1 = 0 then throw "C20: depth 0"
  let d := d1 - 1
  let fs ← parseFmts (← fStr j "fmts")
  let tsh ← asNats (← field j "tshape")
  let ish ← match fOpt j "ish" with
    | none => pure none
    | some v => do pure (some (← asNats v))
  let aspect ← fStr j "aspect"
  let t ← fTree j "t" (d + 1)
  let dflt := fIntD j "dflt" 0
  let hfmt := (fStrD j "hfmt" "").toList
  -- `hu k`: the tensor's rank with `k` ranks below it has format "U"
  let hu : Nat → Bool := fun k => hfmt.getD (d - k) 'C' == 'U'
  let pre := wfB (d + 1) t && inShape (d + 1) tsh t && decide (fs.length = d + 1) &&
             decide (tsh.length = d + 1) &&
             (match ish with | none => true | some s => shapeGe s tsh)
  if !pre then return { agree := true, spec := true, tags := ["OUT_OF_MODEL"] }
  let impl ← field j "impl"
  if (impl.getObjVal? "error").toOption.isSome then
    return { agree := false, spec := false, why := "encode raised", tags := ["encodeError"] }
  let root ← asInts (← field impl "root")
  let cs ← asIntss (← field impl "cs")
  let ps ← asIntss (← field impl "ps")
  let ifibs ← (← fArr impl "fibs").mapM (fun r => do (← asList r).mapM parseIFib)
  let E := encode hu dflt d fs tsh ish t
  let cont := content (κ := Int) dflt (d + 1) t
  let baseAgree := decide (root = E.root) && decide (cs = E.cs) && decide (ps = E.ps) &&
    zipAll (fun (k : List EFib × Nat) (is : List IFib) => zipAll (attrsAgree (k.2 == d)) k.1 is)
      E.fibs.zipIdx ifibs
  let allM : List EFib := E.fibs.flatten
  let allI : List IFib := ifibs.flatten
  let sameCount := decide (allM.length = allI.length)
  let pairs := allM.zip allI
  let shapeTags :=
    (match ish with
     | none => []
     | some s => ["imposed"] ++ (if s != tsh then ["imposedLarger"] else [])) ++
    (if cont.isEmpty then ["allZero"] else []) ++
    (if hasEmptySub (d + 1) t then ["emptySub"] else []) ++
    (if hasExplicitDflt dflt (d + 1) t then ["explicitDefault"] else []) ++
    (if dflt != 0 then ["nonzeroDefault"] else []) ++
    (if hfmt.contains 'U' then ["tensorRankU"] else []) ++
    (if allM.any (fun F => F.n == 0) then ["emptyFiber"] else []) ++
    [s!"depth{d + 1}"] ++
    ((fs.zip fs.tail).map (fun e => s!"pair{e.1.toString}{e.2.toString}")).eraseDups
  match aspect with
  | "decode" =>
    let spec := decodesTo dflt d fs (declShape tsh ish) root cs ps cont
    let modelJ := Json.mkObj [("root", jInts E.root), ("cs", jList (E.cs.map jInts)), ("ps", jList (E.ps.map jInts))]
    pure { agree := baseAgree, spec, model := modelJ, tags := shapeTags,
           why := if spec then "" else "decode: arrays do not decode to the content" }
  | "scan" =>
    let agree := baseAgree && sameCount &&
      pairs.all (fun e => e.2.scan == some (modelScan e.1) && e.2.scan2 == some (modelScan e.1) &&
        e.2.scanb.all (fun (b, rows) =>
          rows == (e.1.scanBase b).map (fun r => (r.1, optNatToInt r.2, e.1.resolve r.2))))
    let okRows (F : EFib) (o : Option (List (Option Int × Option Int × Option Int))) : Bool :=
      match o with
      | some rows => decide (rows.map (fun r => (r.1, r.2.2)) = F.elemsSpec)
      | none => false
    -- isolated scan and the scan interleaved with the other fibers of the rank
    -- … and slices that start at a coordinate b > 0: the elements at coordinates >= b
    let okOf (e : EFib × IFib) : Bool := okRows e.1 e.2.scan && okRows e.1 e.2.scan2 &&
      e.2.scanb.all (fun (b, rows) => decide (rows.map (fun r => (r.1, r.2.2)) = e.1.elemsSpecFrom b))
    let bad := pairs.filter (fun e => !okOf e)
    let spec := sameCount && bad.isEmpty
    let isCU (F : EFib) : Bool := F.fmt == .C && F.next == some .U
    let tags := shapeTags ++ (if allM.any (fun F => isCU F && F.n ≥ 2) then ["CoverU2"] else [])
    let why := if spec then "" else "scan: elements differ"
    pure { agree, spec, tags, why,
           model := jList (allM.map (fun F => jList ((modelScan F).map (fun r =>
             jList [r.1.elim Json.null jInt, r.2.1.elim Json.null jInt, r.2.2.elim Json.null jInt])))) }
  | "size" =>
    let agree := baseAgree && sameCount &&
      pairs.all (fun e => e.2.size == some (sizeCode e.1.getSize))
    let bad := pairs.filter (fun e => e.2.size != some (e.1.words : Int))
    let spec := sameCount && bad.isEmpty
    let tags := shapeTags
    let why := if spec then "" else "size: differs from the words of the layout"
    pure { agree, spec, tags, why,
           model := jList (allM.map (fun F => jList [jInt (sizeCode F.getSize), jNat F.words])) }
  | "walk" =>
    let rows ← (← fArr impl "walk").mapM (fun r => do
      match (← asList r) with
      | [pt, v] =>
        match (asInts pt), v.getInt? with
        | .ok p, .ok x => pure (some (p, x))
        | _, _ => pure none   -- a marker row: dangling child / error / non-termination
      | _ => throw "walk row")
    let got : Option Content := rows.mapM id
    let m := walkM dflt E.fibs 0
    let spec := got == some cont
    let agree := baseAgree && got == some m
    let nB := (fs.filter (· == .B)).length
    let tags := shapeTags ++ (if nB ≥ 2 then ["twoBranks"] else [])
    pure { agree, spec, tags, why := if spec then "" else "walk: depth-first walk through the handle interface does not yield the content",
           model := jList (m.map (fun e => jList [jInts e.1, jInt e.2])) }
  | "lookup" =>
    let cpairs := pairs.filter (fun e => e.1.fmt == .C)
    let agree := baseAgree && sameCount &&
      cpairs.all (fun e => match e.2.lookup with
        | some rows => rows.all (fun r => r.2 == optNatToInt (e.1.coordToHandle r.1))
        | none => false)
    let spec := sameCount &&
      cpairs.all (fun e => match e.2.lookup with
        | some rows => !rows.isEmpty && rows.all (fun r => r.2 == optNatToInt (lowerHandle e.1.ecoords r.1))
        | none => false)
    let tags := shapeTags ++
      (if cpairs.any (fun e => e.1.n ≥ 3) then ["bsearch"] else []) ++
      (if cpairs.isEmpty then ["noCfiber"] else [])
    pure { agree, spec, tags, why := if spec then "" else "lookup: coordToHandle is not the lower bound" }
  | _ => throw s!"C20: unknown aspect {aspect}"

end FtDriver
