import FtDriver.Json
open Lean (Json)
namespace FtDriver
open Ft

def handleC20 (_j : Json) : Except String Verdict := throw "C20: not implemented"

end FtDriver
