import FtDriver.Json
open Lean (Json)
namespace FtDriver
open Ft Ft.C09

namespace C09D

abbrev TC := Tree Coord Int

/-- a coordinate: an integer (one component) or a flat / nested tuple (its components in order) -/
partial def parseCoord (j : Json) : Except String Coord :=
  match j.getInt? with
  | .ok i => pure [i]
  | .error _ => do
    let arr ← asList j
    let parts ← arr.mapM parseCoord
    pure parts.flatten

def parseTreeC : (d : Nat) → Json → Except String (TC d)
  | 0, j => j.getInt?
  | d + 1, j => do
    let arr ← asList j
    let r ← arr.mapM (fun e => do
      match (← asList e) with
      | [c, t] => do
        let c ← parseCoord c
        let t ← parseTreeC d t
        pure (c, t)
      | _ => throw "tree: expected [coord, payload]")
    pure (show List (Coord × TC d) from r)

def coordJson (c : Coord) : Json :=
  match c with
  | [i] => jInt i
  | _ => jInts c

def treeJsonC : (d : Nat) → TC d → Json
  | 0, v => jInt (show Int from v)
  | d + 1, f => jList ((show List (Coord × TC d) from f).map (fun e => jList [coordJson e.1, treeJsonC d e.2]))

def contentJson (c : Content Coord Int) : Json :=
  jList (c.map (fun pv => jList [jList (pv.1.map coordJson), jInt pv.2]))

/-- the component counts seen at every rank -/
def arities : (d : Nat) → TC d → List (List Nat)
  | 0, _ => []
  | d + 1, f =>
    let l := (show List (Coord × TC d) from f)
    let below := l.foldl (fun acc e =>
      let a := arities d e.2
      if acc.isEmpty then a else (acc.zip a).map (fun p => (p.1 ++ p.2).eraseDups)) ([] : List (List Nat))
    let below := if below.isEmpty then List.replicate d [] else below
    (l.map (fun e => e.1.length)).eraseDups :: below

def aritiesOk (ar : List (List Nat)) : Bool := ar.all (fun s => s.length ≤ 1 && s.all (· ≥ 1))
def arityAt (ar : List (List Nat)) (i : Nat) : Option Nat := (ar.getD i []).head?
/-- rank `i` holds integer coordinates (or nothing) -/
def intAt (ar : List (List Nat)) (i : Nat) : Bool := (arityAt ar i).getD 1 == 1

def hdC (c : Coord) : Coord := c.take 1
def tlC (c : Coord) : Coord := c.drop 1

def styleOf : String → Except String Style
  | "tuple" => pure .tuple | "pair" => pure .pair | "absolute" => pure .absolute
  | "relative" => pure .relative | "linear" => pure .linear | s => throw s!"bad style {s}"

def mfOf : String → Except String (List Int → Option Int)
  | "sum" => pure mfSum | "max" => pure mfMax | "raise" => pure mfRaise
  | "count" => pure mfCount | "mix" => pure mfMix | s => throw s!"bad merge_fn {s}"

/-- `comb j`: the top coordinate combined with `j+1` already merged ranks below it, for the
    merged ranks `k … k+L` with shapes `S` -/
def combOf (s : Style) (shapes : List Int) (k L : Nat) : Nat → Coord → Coord → Coord :=
  fun j => flattenCoords s (((shapes.drop (k + L - j)).take (j + 1)).foldl (· * ·) 1)

/-- `swiz_len` of `swizzleRanks`: the ranks above the common tail -/
def swizLen (guide : List Nat) : Nat :=
  let n := guide.length
  let tail := ((List.range n).reverse.zip guide.reverse).takeWhile (fun p => p.1 == p.2)
  n - tail.length

structure StageOut where
  agree : Bool
  spec : Bool
  tags : List String
  model : Json
  why : String := ""
  oom : Bool := false

def oomOut (why : String) : StageOut := { agree := true, spec := true, tags := ["OUT_OF_MODEL"], model := Json.null, why, oom := true }

/-- observation of the implementation after a stage -/
structure Obs where
  err : Option String
  tree : Json
  dflt : Int
  depth : Nat

def parseObs (j : Json) : Except String Obs := do
  let err := match fStr j "err" with | .ok s => some s | _ => none
  let tree := (field j "tree").toOption.getD Json.null
  pure { err, tree, dflt := fIntD j "dflt" 0, depth := (fNat j "depth").toOption.getD 0 }

/-- compare a model result with the observation; evaluate the expected content on the observation -/
def judge (dOut : Nat) (model : Option (TC dOut)) (mDflt : Int) (expect : Option (Content Coord Int))
    (obs : Obs) (tags : List String) : StageOut :=
  let mj := match model with | some t => treeJsonC dOut t | none => Json.str "ERR"
  match obs.err with
  | some e =>
    { agree := model.isNone, spec := expect.isNone, tags := tags ++ ["err"], model := mj,
      why := s!"implementation raised {e}" }
  | none =>
    if obs.depth != dOut then
      { agree := false, spec := false, tags, model := mj, why := s!"result has {obs.depth} ranks, expected {dOut}" }
    else
    match parseTreeC dOut obs.tree with
    | .error e => { agree := false, spec := false, tags, model := mj, why := s!"result is not a tree of depth {dOut}: {e}" }
    | .ok out =>
      let agree := match model with
        | some t => decide (t = out) && mDflt == obs.dflt
        | none => false
      let wf := wfB dOut out
      let c := content obs.dflt dOut out
      let spec := match expect with
        | some ec => wf && decide (c = ec)
        | none => false
      let why := if spec then "" else
        (if wf then "" else "result not ordered; ") ++
        (match expect with
         | some ec => s!"content {(contentJson c).compress} expected {(contentJson ec).compress}"
         | none => "an exception was expected")
      { agree, spec, tags := tags ++ (if c.isEmpty then ["emptyResult"] else []), model := mj, why }

def treeTags (dflt : Int) (d : Nat) (t : TC d) : List String :=
  (if decide (nonEmpty dflt d t = t) then ["canonical"] else ["hasEmptyOrDefault"]) ++
  (if isEmpty dflt d t then ["emptyTensor"] else [])

def runStage (st : Json) : Except String StageOut := do
  let op ← fStr st "op"
  let D ← fNat st "depth"
  let dflt := fIntD st "dflt" 0
  let tin ← field st "in"
  let obs ← parseObs (← field st "out")
  let shapes := match fArr st "shape" with
    | .ok l => l.filterMap (fun j => j.getInt?.toOption)
    | _ => []
  match op with
  | "split" =>
    -- not modelled here (C08); the stage only feeds the next one
    pure { agree := true, spec := obs.err.isNone, tags := ["split"], model := Json.null,
           why := if obs.err.isNone then "" else "split raised" }
  | "swizzle" =>
    let guide := (← asInts (← field st "perm")).map Int.toNat
    if guide.length != D || D < 2 || !(guide.mergeSort (fun a b => decide (a ≤ b)) == List.range D) then
      return oomOut "bad perm"
    let sl := swizLen guide
    let sl := if sl = 0 then D else sl
    let r := D - sl
    let k := sl - 1
    if r + (k + 1) != D then return oomOut "depth"
    let t ← parseTreeC (r + (k + 1)) tin
    let ar := arities (r + (k + 1)) t
    if !(wfB (r + (k + 1)) t && aritiesOk ar) then return oomOut "ill-formed input"
    let g := guide.take (k + 1)
    -- `assert sorted(old_rank_ids) == sorted(rank_ids)` compares a `str` with a `list` when the
    -- tensor has both plain and flattened rank ids: `TypeError`
    let mixed := match (field st "ids_mixed") with | .ok (Json.bool b) => b | _ => false
    let m := swizzle r k g t
    let exp := swizzleSpec guide (content dflt _ t)
    let tags := ["swizzle", s!"swizlen{sl}"] ++ (if swizLen guide = 0 then ["identityPerm"] else []) ++ treeTags dflt _ t
    let tags := tags ++ (if mixed then ["mixedRankIds"] else [])
    pure (judge (r + (k + 1)) (if mixed then none else some m) dflt (some exp) obs tags)
  | "swap" =>
    let k ← fNat st "k"
    if D < k + 2 then return oomOut "depth"
    let r := D - 2 - k
    let t ← parseTreeC (r + 2 + k) tin
    let ar := arities (r + 2 + k) t
    if !(wfB _ t && aritiesOk ar) then return oomOut "ill-formed input"
    -- the flattened pair `(c1, c0)` is reversed to `(c0, c1)` and unflattened into `c0`, `c1`:
    -- on component lists this needs the number of components of the two ranks (1 = integer)
    let a1 := (arityAt ar k).getD 1
    let a0 := (arityAt ar (k + 1)).getD 1
    let m := swapT (· ++ ·) (fun c => c.drop a1 ++ c.take a1) (fun c => c.take a0) (fun c => c.drop a0) dflt r k t
    let exp := swizzleSpec (swapGuide k) (content dflt _ t)
    let tags := ["swap", s!"k{k}"] ++ (if a1 != 1 || a0 != 1 then ["tupleCoords"] else []) ++ (if allEmptyAt dflt (r + 1) k t then ["guardAllEmpty"] else []) ++
      (if m.isNone then ["modelErr"] else []) ++ treeTags dflt _ t
    pure (judge (r + 2 + k) m dflt (some exp) obs tags)
  | "flatten" | "merge" =>
    let k ← fNat st "k"
    let L ← fNat st "levels"
    let style ← styleOf (← fStr st "style")
    let mf ← if op == "flatten" then pure mfRaise else mfOf (fStrD st "mf" "sum")
    if L = 0 || D < k + L + 1 then return oomOut "depth"
    let l := L - 1
    let r := D - 2 - l - k
    let t ← parseTreeC (r + 2 + l + k) tin
    let ar := arities (r + 2 + l + k) t
    let arith := style != .tuple && style != .pair
    if !(wfB _ t && aritiesOk ar) then return oomOut "ill-formed input"
    if arith && !((List.range (L + 1)).all (fun i => intAt ar (k + i))) then return oomOut "arithmetic style on tuples"
    if style == .linear && shapes.length != D then return oomOut "linear without shape"
    let comb := combOf style shapes k L
    let lin := style == .linear
    -- since /repo COMMIT:C14-05 / COMMIT:C14-06 the active-range bookkeeping of the tuple / pair
    -- styles no longer raises and a merged fiber takes default and shape from a payload fiber
    -- that has elements: the code is the data path with the tensor's own default
    let m := mergeT false false dflt comb mf dflt r l k t
    let was := mergeT (!arith) lin 0 comb mf dflt r l k t      -- the code before those repairs
    let clash := false
    let lastAttr := false
    let formerly := !(match m, was with | some a, some b => decide (a = b) | none, none => true | _, _ => false)
    let c := content dflt _ t
    -- flatten = merge with the raising merge function: it raises iff two POINTS get the same image
    let exp := mergeSpec comb mf dflt k l c
    let collide := (flattenSpec comb k l c).isNone
    let tags := [op, (fStrD st "style" ""), s!"k{k}", s!"levels{L}", s!"r{r}"] ++
      (if op == "merge" then [fStrD st "mf" "sum"] else []) ++
      (if collide then ["collision"] else []) ++ (if clash then ["actRangeClash"] else []) ++ (if lastAttr then ["lastChildAttrs"] else []) ++ (if formerly then ["repaired:C14-05/06"] else []) ++ (if m.isNone then ["modelErr"] else []) ++ treeTags dflt _ t
    pure (judge (r + 1 + k) m dflt exp obs tags)
  | "unflatten" =>
    let k ← fNat st "k"
    let L ← fNat st "levels"
    if L = 0 || D < k + 1 then return oomOut "depth"
    let l := L - 1
    let r := D - 1 - k
    let t ← parseTreeC (r + 1 + k) tin
    let ar := arities (r + 1 + k) t
    if !(wfB _ t && aritiesOk ar && (arityAt ar k).getD (L + 1) ≥ L + 1) then return oomOut "ill-formed input"
    let declared := match (field st "declared") with | .ok (Json.bool b) => b | _ => true
    let m := unflattenTS declared hdC tlC dflt r l k t
    let noShape := m.isNone && (unflattenT hdC tlC dflt r l k t).isSome
    let exp := unflattenSpec hdC tlC k l (content dflt _ t)
    let tags := ["unflatten", s!"k{k}", s!"levels{L}"] ++ (if allEmptyAt dflt r k t then ["guardAllEmpty"] else []) ++
      (if noShape then ["undeclaredEmptyRank"] else []) ++
      (if m.isNone then ["modelErr"] else []) ++ treeTags dflt _ t
    -- `Tensor.unflattenRanks` builds its result with the operand's default (/repo e4536c9)
    pure (judge (r + 2 + l + k) m dflt (some exp) obs tags)
  | _ => throw s!"C09: unknown op {op}"

end C09D

open C09D in
def handleC09 (j : Json) : Except String Verdict := do
  let stages ← fArr j "stages"
  let mut agree := true
  let mut spec := true
  let mut tags : List String := []
  let mut models : List Json := []
  let mut why := ""
  let mut oom := false
  for st in stages do
    let o ← runStage st
    -- a rank of format "U" is iterated over its whole extent (default elements included): the
    -- stored tree of the result then holds explicit defaults the model (format "C") does not
    -- produce; such stages are judged by the content specification alone
    let fU := match (field st "formatU") with | .ok (Json.bool b) => b | _ => false
    let o := if fU && !o.oom then { o with agree := o.agree || o.spec, tags := o.tags ++ ["formatU"] } else o
    if o.oom then oom := true
    agree := agree && o.agree
    spec := spec && o.spec
    tags := tags ++ o.tags
    models := models ++ [o.model]
    if o.why != "" && why == "" then why := s!"{(fStrD st "op" "?")}: {o.why}"
  if oom then return { agree := true, spec := true, tags := ["OUT_OF_MODEL"], why }
  -- round trip: the last observation has the content of the first input
  match j.getObjVal? "roundtrip" with
  | .ok rt =>
    let d ← fNat rt "depth"
    let a ← parseTreeC d (← field rt "first")
    let ok := match parseTreeC d (← field rt "last") with
      | .ok b => decide (content (fIntD rt "first_dflt" 0) d a = content (fIntD rt "last_dflt" 0) d b) && wfB d b
      | .error _ => false
    tags := tags ++ ["roundtrip"]
    if !ok then
      spec := false
      if why == "" then why := "round trip does not restore the content"
  | .error _ => pure ()
  pure { agree, spec, model := jList models, tags := tags.eraseDups, why }

end FtDriver
