import FtDriver.Json
open Lean (Json)
namespace FtDriver
open Ft

def handleC09 (_j : Json) : Except String Verdict := throw "C09: not implemented"

end FtDriver
