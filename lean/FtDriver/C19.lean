import FtDriver.Json
open Lean (Json)
namespace FtDriver
open Ft

def handleC19 (_j : Json) : Except String Verdict := throw "C19: not implemented"

end FtDriver
