import FtDriver.Json
open Lean (Json)
namespace FtDriver
open Ft

/-! C19 — cost models: cases of kind "and" (traces of `a & b` fed to the three
    intersectors), "lf" (leader trace of a leader-follower intersection fed to the
    leader-follower intersector) and "swaps" (`Compute.numSwaps`). -/

/-- a trace row: a list of strings is the header, a list of ints a data row -/
def c19ParseRow (j : Json) : Except String TRow := do
  let cells ← asList j
  match cells with
  | c :: _ =>
    match c with
    | .str _ => pure (TRow.hdr cells.length)
    | _ => do pure (TRow.data (← cells.mapM (·.getInt?)))
  | [] => pure (TRow.data [])

def parseTrace (j : Json) : Except String (List TRow) := do (← asList j).mapM c19ParseRow

/-- presented coordinates of an operand of `a & b`:
    * a leaf fiber `[[coord, value], …]` of a compressed rank presents its non-default elements;
    * `{"u": [lo, hi], "leaf": …}`: a fiber whose rank has format "U" presents every coordinate
      of its active range (0 .. declared shape, or 0 .. the estimate largest coordinate + 1, or
      a restricted range), whatever it stores;
    * `{"lazy": "and" | "sub", "x": leaf, "y": leaf}`: a lazy fiber presents what the
      co-iteration yields (`andMerge` / `subMerge` of FtModel.Coiter). -/
def leafCoords (dflt : Int) (j : Json) : Except String (List Int) := do
  let f ← parseTree 1 j
  pure ((present (κ := Int) dflt 0 f).map (·.1))

def presentedCoords (dflt : Int) (j : Json) : Except String (List Int) := do
  match j with
  | .arr _ => leafCoords dflt j
  | _ =>
    match j.getObjVal? "u" with
    | .ok u => do
      -- [lo, hi): the active range (0 .. extent unless restricted)
      match (← asInts u) with
      | [lo, hi] => pure ((List.range (hi - lo).toNat).map (fun (i : Nat) => lo + Int.ofNat i))
      | _ => throw "format-U operand: expected [lo, hi]"
    | .error _ => do
      let op ← fStr j "lazy"
      let x := (← leafCoords dflt (← field j "x")).map (fun c => (c, ()))
      let y := (← leafCoords dflt (← field j "y")).map (fun c => (c, ()))
      match op with
      | "and" => pure ((andMerge x y).map (·.1))
      | "sub" => pure ((subMerge x y).map (·.1))
      | _ => throw s!"lazy operand: unknown op {op}"

def operandTag (j : Json) : List String :=
  match j with
  | .arr _ => []
  | _ => match j.getObjVal? "u" with
    | .ok _ => ["operand:format-U"]
    | .error _ => ["operand:lazy"]

/-- `"win": [lo, hi]`: the intersection is walked over that window only -/
def parseFiberIn (dflt : Int) (lf : Bool) (j : Json) : Except String FiberIn := do
  let oi ← asInts (← field j "oi")
  let pre ← asInts (← field j "pre")
  let a ← presentedCoords dflt (← field j "a")
  let b ← presentedCoords dflt (← field j "b")
  match j.getObjVal? "win" with
  | .ok w =>
    match (← asInts w) with
    | [_, hi] =>
      if lf then pure { oi, pre, a := windowCutLeader hi a, b }
      else
        let c := windowCut hi a b
        pure { oi, pre, a := c.1, b := c.2 }
    | _ => throw "win: expected [lo, hi]"
  | .error _ => pure { oi, pre, a, b }

/-- `null`/"ERR" = the call raised -/
def optTotal (j : Json) (k : String) : Option Int :=
  match fInt j k with | .ok v => some v | _ => none

def totalJson : Option Int → Json
  | some v => jInt v
  | none => Json.str "ERR"

/-- what the cost models read of a row -/
def rowView (n : Nat) : TRow → Option (List Int)
  | .hdr l => some [-1, l]
  | r => r.point n

def traceView (n : Nat) (t : List TRow) : List (Option (List Int)) := t.map (rowView n)

/-- first fiber that leaves a lone trailing row and is followed by another fiber in its group
    (the class in which one-shot totals were wrong before the repair of the intersectors) -/
def dirtyKind : List FiberIn → Option String
  | [] => none
  | [_] => none
  | f :: g =>
    if f.a.isEmpty != f.b.isEmpty then some "lone-row:one-operand-empty-before-boundary"
    else if !cleanEnd f.a f.b then some "lone-row:match-exhausts-one-operand-before-boundary"
    else dirtyKind g

def c19FiberTags (f : FiberIn) : List String :=
  let l := mergeLabels f.a f.b
  (if f.a.isEmpty && f.b.isEmpty then ["bothEmpty"] else
    (if f.a.isEmpty then ["emptyA"] else []) ++ (if f.b.isEmpty then ["emptyB"] else [])) ++
  (if l.contains Lab.M then ["match"] else []) ++
  (if l.contains Lab.L then ["advA"] else []) ++ (if l.contains Lab.R then ["advB"] else []) ++
  (if sameSideRuns l + l.count Lab.M < l.length then ["longRun"] else []) ++
  (let u := andUses 0 f.a f.b
   (if u.1.length > (l.filter (· != Lab.R)).length then ["trailA"] else []) ++
   (if u.2.length > (l.filter (· != Lab.L)).length then ["trailB"] else []))

def batchingTag (groups : List (List FiberIn)) : String :=
  let ne := groups.filter (fun g => !g.isEmpty)
  let nf := (ne.map List.length).sum
  if nf ≤ 1 then "single-fiber"
  else if ne.all (fun g => g.length ≤ 1) then "fiber-by-fiber"
  else if ne.length == 1 then "one-shot"
  else "mixed-batching"

/-- calls that receive nothing: before the first intersection, between two, after the last -/
def emptyCallTags (groups : List (List FiberIn)) : List String :=
  let lead := (groups.takeWhile List.isEmpty).length
  let trail := (groups.reverse.takeWhile List.isEmpty).length
  let total := (groups.filter List.isEmpty).length
  (if lead > 0 then ["empty-first-call"] else []) ++
  (if trail > 0 && lead < groups.length then ["empty-last-call"] else []) ++
  (if total > lead + trail then ["empty-middle-call"] else [])

def c19Dedup (l : List String) : List String := l.foldl (fun acc s => if acc.contains s then acc else acc ++ [s]) []

/-- tags describing how the harness built / drove the case (reported in the evidence) -/
def variantTags (j : Json) : List String :=
  (match fArr j "variant" with
   | .ok l => l.filterMap (fun x => match x.getStr? with | .ok v => some ("variant:" ++ v) | _ => none)
   | _ => []) ++
  (match fArr j "groups" with
   | .ok gs => gs.flatMap (fun g => match asList g with
       | .ok fl => fl.flatMap (fun f =>
           (match f.getObjVal? "win" with | .ok _ => ["windowed-walk"] | _ => []) ++
           (match f.getObjVal? "a" with | .ok a => operandTag a | _ => []) ++
           (match f.getObjVal? "b" with | .ok b => operandTag b | _ => []))
       | _ => [])
   | _ => [])

def handleAnd (j : Json) : Except String Verdict := do
  let n ← fNat j "n"
  let dflt := fIntD j "dflt" 0
  let groups ← (← fArr j "groups").mapM (fun g => do (← asList g).mapM (parseFiberIn dflt false))
  let fs := groups.flatten
  if !(fs.all (FiberIn.shapeOk n)) || n == 0 then
    return { agree := true, spec := true, tags := ["OUT_OF_MODEL"] }
  -- several fibers with the same outer point inside one call (e.g. a plain Python loop repeating
  -- the intersection without any outer rank, consumed in one shot): the trace cannot tell them
  -- apart, the two-finger / skip-ahead specification does not apply (the models are still compared
  -- with the implementation); the leader-follower specification applies to every batching
  let sepOk := groups.all ascPre
  let impl ← field j "impl"
  let ib ← (← fArr impl "batches").mapM (fun b => do
    match (← asList b) with
    | [t0, t1] => pure ((← parseTrace t0), (← parseTrace t1))
    | _ => throw "batch: expected [trace0, trace1]")
  let mb := batchesOf n groups
  let view := fun (b : List (List TRow × List TRow)) => b.map (fun p => (traceView n p.1, traceView n p.2))
  let ptsAgree := decide (view mb = view ib)
  let rowsExact := decide (mb = ib)
  -- the models on the model's own traces
  let mtf := tfTotal mb
  let msa := saTotal mb
  let mlf0 := lfTotal (mb.map (·.1))
  let mlf1 := lfTotal (mb.map (·.2))
  let itf := optTotal impl "tf"; let isa := optTotal impl "sa"
  let ilf0 := optTotal impl "lf0"; let ilf1 := optTotal impl "lf1"
  let agreeParts := [("points", ptsAgree), ("tf", decide (mtf = itf)), ("sa", decide (msa = isa)),
                     ("lf0", decide (some mlf0 = ilf0)), ("lf1", decide (some mlf1 = ilf1))]
  -- the specification on the implementation's observation
  -- leader-follower model on an `intersect_i` trace of `a & b`: the elements that operand put on
  -- display during the merge (consumed ones and the trailing one), from the coordinate lists alone
  let usesA := ((fs.map (fun f => (andUses 0 f.a f.b).1.length)).sum : Nat)
  let usesB := ((fs.map (fun f => (andUses 0 f.a f.b).2.length)).sum : Nat)
  let specParts := [("tf", !sepOk || decide (itf = some (tfSpecAll fs : Int))),
                    ("sa", !sepOk || decide (isa = some (saSpecAll fs : Int))),
                    ("lf0", decide (ilf0 = some (usesA : Int))),
                    ("lf1", decide (ilf1 = some (usesB : Int)))]
  let bad := fun (l : List (String × Bool)) => (l.filter (fun p => !p.2)).map (·.1)
  let tags := c19Dedup ([batchingTag groups, s!"ranks={n}"] ++ emptyCallTags groups ++ variantTags j ++ (fs.flatMap c19FiberTags) ++
    (match dirtyKind' groups with | some k => [k] | none => []) ++
    (if sepOk then [] else ["same-outer-point-in-one-call"]) ++
    (if rowsExact then ["rows-exact"] else ["rows-differ-outside-points"]))
  let model := Json.mkObj [("tf", totalJson mtf), ("sa", totalJson msa), ("lf0", jInt mlf0), ("lf1", jInt mlf1),
    ("spec_tf", jNat (tfSpecAll fs)), ("spec_sa", jNat (saSpecAll fs))]
  pure { agree := (bad agreeParts).isEmpty, spec := (bad specParts).isEmpty, model, tags,
         why := s!"disagree={bad agreeParts} specfail={bad specParts}" }
where
  dirtyKind' (groups : List (List FiberIn)) : Option String :=
    groups.findSome? dirtyKind

def handleLf (j : Json) : Except String Verdict := do
  let n ← fNat j "n"
  let dflt := fIntD j "dflt" 0
  let groups ← (← fArr j "groups").mapM (fun g => do (← asList g).mapM (parseFiberIn dflt true))
  let fs := groups.flatten
  if !(fs.all (FiberIn.shapeOk n)) || n == 0 then
    return { agree := true, spec := true, tags := ["OUT_OF_MODEL"] }
  let impl ← field j "impl"
  let ib ← (← fArr impl "batches").mapM parseTrace
  let mb := leaderBatchesOf n groups
  let ptsAgree := decide (mb.map (traceView n) = ib.map (traceView n))
  let mlf := lfTotal mb
  let ilf := optTotal impl "lf"
  let tags := c19Dedup ([batchingTag groups, s!"ranks={n}", "leader-follower"] ++ emptyCallTags groups ++ variantTags j ++
    (if fs.any (fun f => f.a.isEmpty) then ["emptyA"] else []) ++
    (if decide (mb = ib) then ["rows-exact"] else ["rows-differ-outside-points"]))
  pure { agree := ptsAgree && decide (some mlf = ilf), spec := decide (ilf = some (lfSpecAll fs : Int)),
         model := jInt mlf, tags, why := s!"points={ptsAgree} model={mlf} spec={lfSpecAll fs}" }

def parseRadix (j : Json) : Except String (Option Nat) := do
  match (← field j "radix") with
  | .str _ => pure none
  | v => do pure (some (← v.getNat?))

def parseLat (j : Json) : Except String Lat := do
  match (← field j "lat") with
  | .str _ => pure Lat.inf
  | v => do pure (Lat.fin (← v.getNat?))

def hasCoords : (d : Nat) → T d → Bool
  | 0, _ => true
  | d + 1, f => !(show List (Int × T d) from f).isEmpty

/-- some stored sub-fiber on the walk holds coordinates but only default values (the class in
    which the count depended on payload values before the repair of `_numSwapsTree`) -/
def allDefaultSub (dflt : Int) (e : Nat) : (depth : Nat) → T (e + 2 + depth) → Bool
  | 0, f => (show List (Int × T (e + 1)) from f).any
      (fun el => isEmpty dflt (e + 1) el.2 && hasCoords (e + 1) el.2)
  | depth + 1, f => (show List (Int × T (e + 2 + depth)) from f).any
      (fun el => (isEmpty dflt (e + 2 + depth) el.2 && hasCoords (e + 2 + depth) el.2)
                 || allDefaultSub dflt e depth el.2)

def handleSwaps (j : Json) : Except String Verdict := do
  let e ← fNat j "e"
  let depth ← fNat j "depth"
  let dflt := fIntD j "dflt" 0
  let radix ← parseRadix j
  let lat ← parseLat j
  let t ← fTree j "t" (e + 2 + depth)
  let radixOk := match radix with | none => true | some r => decide (2 ≤ r)
  if !(wfB (e + 2 + depth) t) || !radixOk then
    return { agree := true, spec := true, tags := ["OUT_OF_MODEL"] }
  let impl := optTotal j "impl"
  let m := numSwapsTree e radix lat depth t
  -- the executable specification: closed-form rounds cost / insertion-buffer merge, on the skeleton
  let sk := skel (e + 2 + depth) t
  let s := match lat with
    | .fin l => swapsSpecFin e radix l depth sk
    | .inf => swapsSpecInf e radix depth sk
  let nodes := mergeNodes e depth t
  let tags := c19Dedup (variantTags j ++ [s!"depth={depth}", s!"below={e}",
      (match lat with | .inf => "lat=N" | .fin _ => "lat=int"),
      (match radix with | none => "radix=inf" | some _ => "radix=int")] ++
    (if allDefaultSub dflt e depth t then ["all-default-subfiber"] else []) ++
    (if nodes.any (fun l => l.length ≥ 2) then ["merge"] else ["no-merge"]) ++
    (if nodes.any (fun l => match radix with | some r => l.length > r | none => false) then ["multi-round"] else []) ++
    (if nodes.length ≥ 2 then ["several-nodes"] else []))
  pure { agree := decide (impl = some (m : Int)), spec := decide (impl = some (s : Int)),
         model := jNat m, tags, why := s!"model={m} spec={s}" }

def handleC19 (j : Json) : Except String Verdict := do
  match (← fStr j "kind") with
  | "and" => handleAnd j
  | "lf" => handleLf j
  | "swaps" => handleSwaps j
  | k => throw s!"C19: unknown kind {k}"

end FtDriver
