import FtModel
open Ft
attribute [local reducible] Tree Nest
variable {ν : Type} [DecidableEq ν]

theorem nc_succ (dflt : ν) (d : Nat) (l : Nest ν (d + 1)) :
    nestContent dflt (d + 1) l =
      (enumFrom 0 l).flatMap (fun e => (nestContent dflt d e.2).map (fun pv => (e.1 :: pv.1, pv.2))) := rfl

example (dflt : ν) (l : Nest ν 1) : nestContent dflt 1 l = [] := by
  rw [nc_succ]
  sorry

example (dflt : ν) (d : Nat) (l : Nest ν (d+1)) (h : l = []) : nestContent dflt (d+1) l = [] := by
  rw [nc_succ, h]
  rfl

example (dflt : ν) (d : Nat) (l : Nest ν (d+1)) (h : l = []) : nestContent dflt (d+1) l = [] := by
  simp only [nestContent, h]
  rfl
