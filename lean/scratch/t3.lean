import FtProofs.Lemmas.Convert
open Ft
example : orMerge ([(2,(0:Int))] : Fib Nat Int) ([] : Fib Nat Int) = [(2, (Mask.A, some 0, none))] := by
  rw [orMerge]; rfl
example : orMerge ([] : Fib Nat Int) ([(2,(0:Int))] : Fib Nat Int) = [(2, (Mask.B, none, some 0))] := by
  rw [orMerge]; rfl
