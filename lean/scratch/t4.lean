import FtProofs.C13
open Ft

def nestA : Nest Int 2 := ([[1, 0], [0, 0]] : List (List Int))
def nestZ : Nest Int 2 := ([[0, 0], [0, 0]] : List (List Int))

example : rectB 2 [2, 2] nestA = true ∧ (∀ k ∈ [2, 2], 0 < k) ∧ allDefault (0 : Int) 2 nestA = false := by
  refine ⟨by decide, by decide, by decide⟩
example : uncompress (0 : Int) 1 [2, 2] (fromUncompressed 0 1 nestA) = some nestA :=
  uncompress_fromUncompressed_partial 0 1 [2, 2] nestA (by decide) (by decide) (by decide)
example : rectB 2 [2, 2] nestZ = true ∧ allDefault (0 : Int) 2 nestZ = true := by
  refine ⟨by decide, by decide⟩

def drawsA : Draws := { us := [0, 1, 0], is := [3, 4, 5] }
example : GoodDraws 2 0 drawsA := by
  refine ⟨by decide, by decide⟩
example : (fromRandom 0 0 [3] [2] drawsA).isSome = true := by decide
example : (fromRandom 0 1 [1, 2] [2, 2] drawsA).isSome = true := by decide
#eval (fromRandom 0 1 [1, 2] [2, 2] drawsA).map (fun x => x.2)
