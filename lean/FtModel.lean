import FtModel.Basic
import FtModel.Coiter
