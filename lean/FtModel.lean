import FtModel.Basic
import FtModel.Coiter
import FtModel.Eq
import FtModel.Point
import FtModel.Populate
import FtModel.Mutate
import FtModel.Format
import FtModel.Codec
