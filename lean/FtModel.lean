import FtModel.Basic
import FtModel.Coiter
import FtModel.Intersect
import FtModel.Compute
