import FtModel.Basic
import FtModel.Coiter
import FtModel.Traffic
