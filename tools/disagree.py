#!/venv/bin/python
"""tools/disagree.py PROP [tier] — development aid: histogram of disagreement / failure reasons"""
import json, sys, collections, importlib
sys.path.insert(0, '/verif')
from harness import common as H
prop = sys.argv[1]; tier = sys.argv[2] if len(sys.argv) > 2 else 'quick'
mod = importlib.import_module('harness.props.' + prop.lower())
cases = list(mod.gen(20260929, tier))
import multiprocessing
def runc(c):
    return mod.run(c)
with multiprocessing.Pool(16) as pool:
    done = pool.map(runc, cases, chunksize=64)
lines = []
for i, c in enumerate(done):
    c['id'] = i; lines.append(json.dumps(c))
outs = H.run_driver(lines)
cnt = collections.Counter(); ex = {}
for c, v in zip(done, outs):
    bad = (not v.get('agree', True)) or (not v.get('spec', True)) or 'error' in v or any(not x for x in (c.get('side') or {}).values())
    if bad:
        key = (v.get('why') or v.get('error') or str([k for k, x in (c.get('side') or {}).items() if not x]))[:70].split('(')[0]
        cnt[key] += 1
        if key not in ex or len(json.dumps(c)) < len(json.dumps(ex[key][0])): ex[key] = (c, v)
print(cnt)
for k, (c, v) in ex.items():
    print('---', k); print('   verdict:', json.dumps(v)[:600]); print('   case:', json.dumps(c)[:1500])
