#!/usr/bin/env python3
"""Sensitivity self-test of `check C07` (development-time, not a check): applies small edits to a SCRATCH COPY of
/repo's package and reports whether `./check C07` flags them.  usage: tools/sens_c07.py [name-prefix ...]"""
import os, shutil, subprocess, sys, json, tempfile
V=os.path.dirname(os.path.dirname(os.path.abspath(__file__)))
MUT=tempfile.mkdtemp(prefix='ft-mut-c07-')
IT='fibertree/core/iterators.py'; FB='fibertree/core/fiber.py'
muts=[
 ("M1 iterRange end bound: coord >= end -> coord > end", IT, "if end is not None and coord >= end:", "if end is not None and coord > end:", True),
 ("M2 iterRange: emptiness test dropped", IT, "            if not Payload.isEmpty(payload, default=self.getDefault()):\n                if start_pos is not None:", "            if True:\n                if start_pos is not None:", True),
 ("M3 iterRange start bound: coord >= start -> coord > start", IT, "elif start is None or coord >= start:", "elif start is None or coord > start:", True),
 ("M4 iterRangeShapeRef uses getPayload (nothing inserted)", IT, "        p = self.getPayloadRef(c)\n        yield CoordPayload(c, p)", "        p = self.getPayload(c)\n        yield CoordPayload(c, p)", True),
 ("M5 coiterRangeShape ignores step", IT, "            for c in range(self.start_, self.end_, self.step_):\n                payloads = tuple(fiber.getPayload(c) for fiber in self.fibers_)", "            for c in range(self.start_, self.end_):\n                payloads = tuple(fiber.getPayload(c) for fiber in self.fibers_)", True),
 ("M6 project interval break: c >= hi -> c > hi", FB, "if self.interv is not None and c >= self.interv[1]:", "if self.interv is not None and c > self.interv[1]:", True),
 ("M7 project reversed path does not reverse", FB, "                    return reversed(self.cps)", "                    return iter(self.cps)", True),
 ("M8 iterRange saves j instead of i + j", IT, "self.setSavedPos(i + j, distance=j)", "self.setSavedPos(j, distance=j)", True),
 ("M9 __iter__ ignores format U", IT, "        return self.iterActiveShape(tick)\n    else:", "        return self.iterOccupancy(tick, start_pos=start_pos)\n    else:", True),
 ("M10 prune passes i + 1 to trans_fn", FB, "                    if self.trans(i, c, p):", "                    if self.trans(i + 1, c, p):", True),
 ("M11 fromLazy does not assign the value", FB, "            f_ref <<= f_val\n\n        return f_out", "            pass\n\n        return f_out", True),
 ("M12 iterShape starts at 1", IT, "    return self.iterRangeShape(0, self.getShape(all_ranks=False), tick=tick)", "    return self.iterRangeShape(1, self.getShape(all_ranks=False), tick=tick)", True),
 ("M13 project interval lower bound: c >= lo -> c > lo", FB, "or (c >= self.interv[0] and c < self.interv[1]):", "or (c > self.interv[0] and c < self.interv[1]):", True),
 ("M14 coiterActiveShapeRef uses the shape instead of the active range", IT, "    return type(fibers[0]).coiterRangeShapeRef(fibers, *fibers[0].getActive())", "    return type(fibers[0]).coiterRangeShapeRef(fibers, 0, fibers[0].getShape(all_ranks=False))", True),
 ("W1 Rank.append keeps the smallest instead of the largest estimated extent", 'fibertree/core/rank.py', "self._attrs.setShape(max(old, new))", "self._attrs.setShape(min(old, new))", True),
 ("W2 getPayload hands out one cached default object for absent coordinates", FB, "            payload = self._createDefault(addtorank=False)", "            if not hasattr(self, '_dcache'):\n                self._dcache = self._createDefault(addtorank=False)\n            payload = self._dcache", True),
 ("W3 project: active range of the result one short", FB, "max_ = Fiber._transCoord(max(start, end), lambda c: c + 1)", "max_ = Fiber._transCoord(max(start, end), lambda c: c)", True),
 ("W4 iterRange no longer unboxes a Payload start_pos", IT, "        start_pos = Payload.get(start_pos)\n        if start_pos is not None:\n            assert start_pos < len(self.coords)", "        if start_pos is not None:\n            assert start_pos < len(self.coords)", True),
 ("W5 project of a lazy fiber skips its first element", FB, "                fiter = self.fbr.__iter__(tick=self.tck, start_pos=self.start)", "                fiter = self.fbr.__iter__(tick=self.tck, start_pos=self.start)\n                if self.fbr.isLazy():\n                    next(fiter, None)", True),
 ("W6 Payload.isEmpty treats any falsy value as empty", 'fibertree/core/payload.py', "        if p == default:\n            return True\n\n        return False", "        if p == default or not Payload.get(p):\n            return True\n\n        return False", True),
 ("H1 iterRange: generator over indices rewritten as zip of slices", IT, "        iter_ = ((self.coords[j], self.payloads[j])\n                  for j in range(i, len(self.coords)))", "        iter_ = zip(self.coords[i:], self.payloads[i:])", False),
 ("H2 project: reversed(cps) rewritten as iter(cps[::-1])", FB, "                    return reversed(self.cps)", "                    return iter(self.cps[::-1])", False),
 ("H3 iterRange: saved-position distance statistic changed", IT, "self.setSavedPos(i + j, distance=j)", "self.setSavedPos(i + j, distance=0)", False),
 ("H4 iterRangeShape: for-range rewritten as while loop", IT, "    for c in range(start, end, step):\n        p = self.getPayload(c)\n        yield CoordPayload(c, p)\n\n        if is_collecting and tick:\n            Metrics.incIter(rank)", "    c = start\n    while (step > 0 and c < end) or (step < 0 and c > end):\n        p = self.getPayload(c)\n        yield CoordPayload(c, p)\n        c += step\n\n        if is_collecting and tick:\n            Metrics.incIter(rank)", False),
]
only = sys.argv[1:] 
res=[]
for name, rel, old, new, breaking in muts:
    if only and not any(name.startswith(o) for o in only): continue
    if os.path.exists(MUT): shutil.rmtree(MUT)
    os.makedirs(MUT)
    shutil.copytree('/repo/fibertree', MUT+'/fibertree')
    p=os.path.join(MUT, rel)
    s=open(p).read()
    if s.count(old)!=1:
        print("MUTATION DID NOT APPLY UNIQUELY", name, s.count(old)); continue
    open(p,'w').write(s.replace(old,new))
    env=dict(os.environ, FT_REPO=MUT)
    r=subprocess.run([V+'/check','C07','--no-build'],env=env,stdout=subprocess.PIPE,stderr=subprocess.STDOUT,text=True,cwd=V)
    out=r.stdout.strip().splitlines()
    viol=[l for l in out if l.startswith('VIOLATION')]
    sigs=[]
    for l in viol:
        f=l.split('replay=')[1].split()[0]
        try:
            d=json.load(open(f)); sigs.append(d.get('signature') or d.get('broken'))
        except Exception as e: sigs.append('?')
    verdict = 'VIOLATION' if r.returncode==1 else ('clean' if r.returncode==0 else f'rc={r.returncode}')
    ok = (verdict=='VIOLATION')==breaking
    print(('OK  ' if ok else 'BAD ')+name, '->', verdict, sigs[:3], out[-1] if r.returncode==2 else '')
    res.append({"edit":name,"expected":"VIOLATION" if breaking else "not flagged","observed":verdict,"signatures":sigs[:3]})
shutil.rmtree(MUT, ignore_errors=True)
json.dump(res,open(os.path.join(tempfile.gettempdir(),'sens_c07.json'),'w'),indent=1)
