#!/usr/bin/env python3
"""tools/benign_eval.py PATCH_FILE [props...]   (default: all claimed properties)
False-alarm test: apply a behaviour-preserving change to a scratch worktree of /repo HEAD, check that the
pinned test-suite still passes, and run the quick checks against it (FT_REPO).  Prints one line per check;
exit 0 iff every check stayed quiet.  Evidence/replays of these runs go to a scratch directory."""
import json, os, shutil, subprocess, sys, tempfile, time
V = os.path.dirname(os.path.dirname(os.path.abspath(__file__)))
patch = os.path.abspath(sys.argv[1])
store = os.environ.get("BENIGN_STORE")      # id under /verif/seeded/benign/ to keep patch, notes and result
props = sys.argv[2:] or [c["property_id"] for c in json.load(open(os.path.join(V, "MANIFEST.json")))["checks"]]
def sh(cmd, **kw):
    return subprocess.run(cmd, shell=True, stdout=subprocess.PIPE, stderr=subprocess.STDOUT, text=True, **kw)
wt = tempfile.mkdtemp(prefix="ft-bw-"); os.rmdir(wt)
out = tempfile.mkdtemp(prefix="ft-bo-")
res = {"patch": patch, "ran": []}
try:
    assert sh(f"git -C /repo worktree add --detach {wt} HEAD").returncode == 0
    ap = sh(f"git -C {wt} apply --3way {patch}")
    assert ap.returncode == 0, ap.stdout
    if not os.environ.get("SKIP_BASELINE"):
        b = sh(f"FT_REPO={wt} {V}/tools/baseline_check.py")
        res["baseline_ok"] = b.returncode == 0
        print("baseline:", (b.stdout.strip().splitlines() or ["?"])[0], flush=True)
    for p in props:
        t0 = time.time()
        r = sh(f"FT_REPO={wt} VERIF_OUT={out} {V}/check {p} --tier quick --no-build", cwd=V)
        lines = [l for l in r.stdout.splitlines() if l.startswith("VIOLATION")]
        res["ran"].append({"check": p, "exit": r.returncode, "lines": lines[:4]})
        print(p, "exit", r.returncode, f"{time.time()-t0:.0f}s", *lines[:2], flush=True)
        if r.returncode != 0:
            keep = os.path.join("/tmp", "benign-alarms", os.path.basename(os.path.dirname(patch)) + "-" + p)
            os.makedirs(keep, exist_ok=True)
            open(os.path.join(keep, "log.txt"), "w").write(r.stdout)
            for l in lines:
                rp = l.split("replay=")[1].split()[0]
                if os.path.exists(rp):
                    shutil.copy(rp, keep)
finally:
    sh(f"git -C /repo worktree remove --force {wt}")
    shutil.rmtree(out, ignore_errors=True)
res["alarms"] = [x["check"] for x in res["ran"] if x["exit"] != 0]
print("ALARMS:", res["alarms"])
if store:
    dst = os.path.join(V, "seeded", "benign", store)
    os.makedirs(dst, exist_ok=True)
    shutil.copy(patch, os.path.join(dst, "patch.diff"))
    notes = os.path.join(os.path.dirname(patch), "notes.md")
    if os.path.exists(notes):
        shutil.copy(notes, dst)
    res["patch"] = "patch.diff"
    res["how"] = "tools/benign_eval.py: scratch worktree of /repo HEAD + patch, FT_REPO=<worktree> ./check <each property> --tier quick"
    json.dump(res, open(os.path.join(dst, "result.json"), "w"), indent=1)
sys.exit(1 if res["alarms"] else 0)
