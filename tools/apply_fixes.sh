#!/bin/bash
# tools/apply_fixes.sh Cxx — apply the repair patches a property's builder left in /tmp/fix-Cxx/out
# (NN-slug.patch + NN-slug.msg) to /repo, one `fix:` commit each, check the pinned test-suite, and
# print "NN <commit>" lines for the substitution of <COMMIT:NN> placeholders.
P=$1
set -e
for f in /tmp/fix-$P/out/[0-9]*.patch; do
  n=$(basename $f | cut -c1-2)
  msg=${f%.patch}.msg
  git -C /repo apply --index "$f" || { echo "APPLY-FAILED $f"; exit 1; }
  git -C /repo commit -q -F "$msg"
  echo "$n $(git -C /repo log -1 --format=%h)"
done
/verif/tools/baseline_check.py | head -1
