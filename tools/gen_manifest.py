#!/usr/bin/env python3
"""Regenerates MANIFEST.json from tools/claims.json (kept valid at all times)."""
import json, os
V = os.path.dirname(os.path.dirname(os.path.abspath(__file__)))
claims = json.load(open(os.path.join(V, "tools", "claims.json")))
props = [json.loads(l) for l in open(os.path.join(V, "properties.jsonl"))]
checks, na = [], []
for p in props:
    pid = p["id"]
    cp = os.path.join(V, "tools", "claims", pid + ".json")
    c = json.load(open(cp)) if os.path.exists(cp) else None
    if c is None or c.get("not_applicable"):
        na.append({"property_id": pid, "reason": (c or {}).get("not_applicable", "not built yet (model and proofs for this property are still to be written)")})
        continue
    checks.append({
        "property_id": pid,
        "quick_cmd": f"./check {pid} --tier quick",
        "thorough_cmd": f"./check {pid} --tier thorough",
        "evidence_file": f"evidence/{pid}.json",
        "replay_cmd_template": f"./check {pid} --replay {{path}}",
        "engine": "lean-model+correspondence",
        "level_claimed": {"category": "proof", "text": c["text"], "design_ref": c.get("design_ref", "DESIGN.md §6 " + pid)},
        "level_note": c.get("note", claims["default_note"]),
        "technique": c.get("technique", "Lean 4 theorems about a hand-written executable model + differential correspondence with the implementation"),
    })
m = {
    "version": 1,
    "setup_cmd": "cd lean && lake build",
    "hooks": {"guard": "FIBERTREE_VERIF", "enable": "no source hooks are needed: all observation points are public attributes; checks import /repo directly",
              "baseline_off_cmd": "/verif/tools/baseline_check.py", "source_commits": [], "add_only": True},
    "engines": [{"name": "lean-model+correspondence", "path": "check", "serves_properties": [c["property_id"] for c in checks],
                 "kind_free_text": "Lean 4 model (lean/FtModel), theorems (lean/FtProofs), compiled driver (lean/Main.lean), Python differential harness (harness/)"}],
    "checks": checks,
    "notes": claims["notes"] + " No hook commits exist (hooks.source_commits is empty). Unguarded repairs of genuine defects in /repo ('fix:' commits, each with the pinned test-suite unchanged): " + " ".join(claims["source_commits"]) + ".",
    "not_applicable": na,
}
json.dump(m, open(os.path.join(V, "MANIFEST.json"), "w"), indent=1)
print("claimed", len(checks), "not claimed", len(na))
