#!/usr/bin/env python3
"""Regenerates the machine-derived appendix of DESIGN.md (between the APPENDIX markers) from
lean/obligations/*.json, tools/claims/*.json, known_findings.json and seeded/*/meta.json."""
import json, os, glob, re
V = os.path.dirname(os.path.dirname(os.path.abspath(__file__)))
props = [json.loads(l) for l in open(os.path.join(V, "properties.jsonl"))]
out = []
out.append("### A.1 Theorems audited per property (from lean/obligations/*.json)\n")
for p in props:
    pid = p["id"]
    f = os.path.join(V, "lean", "obligations", pid + ".json")
    if not os.path.exists(f):
        out.append(f"* **{pid}** — not claimed\n")
        continue
    o = json.load(open(f))
    out.append(f"* **{pid}** ({p['title']}) — {len(o['theorems'])} theorems: " + ", ".join("`" + t.replace("Ft.", "") + "`" for t in o["theorems"]))
    if o.get("partial"):
        out.append("  * partial: " + "; ".join(f"`{k.replace('Ft.', '')}` — {v}" for k, v in o["partial"].items()))
    if o.get("not_modelled"):
        out.append("  * not modelled: " + "; ".join(o["not_modelled"]))
    out.append("")
kf = json.load(open(os.path.join(V, "known_findings.json")))
out.append("### A.2 Open findings (known_findings.json — genuine defects of the unchanged tree that are recorded, not repaired)\n")
for f in kf["findings"]:
    out.append(f"* **{f['property']}** `{f['signature']}` — {f['what']}")
out.append("\n### A.3 Defects repaired in /repo (`fix:` commits)\n")
for f in kf["fixed"]:
    out.append("* " + f.replace("fixed: ", ""))
out.append("\n### A.4 Seeded changes (independent sub-agents, given only the property text) and which checks catch them\n")
out.append("| id | property | confirmed | caught by | note |\n|---|---|---|---|---|")
for d in sorted(glob.glob(os.path.join(V, "seeded", "*"))):
    mf = os.path.join(d, "meta.json")
    if not os.path.exists(mf):
        continue
    m = json.load(open(mf))
    note = m.get("note", "")
    lines = [l for r in m.get("ran", []) for l in r.get("lines", []) if "no-failing-input-found" in l]
    if lines and not note:
        note = "reported as a correspondence break (no-failing-input-found)"
    out.append(f"| {m['seed_id']} | {m['property']} | {'yes' if m.get('confirmed') else 'NO'} | {', '.join(m.get('caught_by', [])) or '—'} | {note} |")
out.append("\n### A.5 Sensitivity self-tests recorded by each property's builder (tools/claims/*.json)\n")
for p in props:
    f = os.path.join(V, "tools", "claims", p["id"] + ".json")
    if os.path.exists(f):
        c = json.load(open(f))
        s = c.get("sensitivity")
        if isinstance(s, dict):
            caught = s.get("caught") or s.get("breaking") or []
            nf = s.get("not_flagged") or s.get("harmless") or []
            out.append(f"* **{p['id']}** — breaking edits reported: {len(caught) if isinstance(caught, list) else caught}; harmless rewrites not flagged: {len(nf) if isinstance(nf, list) else nf}")
        elif s:
            out.append(f"* **{p['id']}** — see tools/claims/{p['id']}.json")
text = "\n".join(out) + "\n"
p = os.path.join(V, "DESIGN.md")
s = open(p).read()
a, b = "<!-- APPENDIX:BEGIN -->", "<!-- APPENDIX:END -->"
if a in s:
    s = s[:s.index(a) + len(a)] + "\n" + text + s[s.index(b):]
    open(p, "w").write(s)
    print("appendix regenerated,", len(text), "chars")
else:
    print("markers not found")
