#!/usr/bin/env python3
"""tools/mutation_sweep.py N [SEED] [--jobs J]
Blind-spot search for the correspondence generators (DESIGN §7): N random single-site mutants of library statements
that some quick campaign executes (coverage/Cxx.json), each in its own scratch copy of /repo's fibertree package,
each run against all twenty quick checks (FT_REPO, evidence redirected).  A mutant no check flags is a SURVIVOR: it
is either equivalent / outside every property, or a blind spot — that triage is manual (results/mutants-<seed>.json).
This is a measuring tool, not a check; nothing registered in MANIFEST.json depends on it."""
import ast, json, os, random, shutil, subprocess, sys, tempfile, glob
from concurrent.futures import ThreadPoolExecutor
V = os.path.dirname(os.path.dirname(os.path.abspath(__file__)))
REPO = "/repo"
args = [a for a in sys.argv[1:] if not a.startswith("--")]
N = int(args[0]); SEED = int(args[1]) if len(args) > 1 else 1
JOBS = int(sys.argv[sys.argv.index("--jobs") + 1]) if "--jobs" in sys.argv else 3
rng = random.Random(SEED)
props = [c["property_id"] for c in json.load(open(os.path.join(V, "MANIFEST.json")))["checks"]]


def reached_lines():
    """file -> set of line numbers executed by at least one quick campaign"""
    out = {}
    for f in glob.glob(os.path.join(V, "coverage", "C*.json")):
        cov = json.load(open(f))
        for path, funcs in cov["files"].items():
            src = os.path.join(REPO, path)
            if not os.path.exists(src):
                continue
            tree = ast.parse(open(src).read())
            spans = {}

            def walk(node, prefix):
                for ch in ast.iter_child_nodes(node):
                    if isinstance(ch, (ast.FunctionDef, ast.ClassDef)):
                        q = prefix + ch.name
                        if isinstance(ch, ast.FunctionDef):
                            spans[q] = (ch.lineno, ch.end_lineno)
                        walk(ch, q + ".")
                    else:
                        walk(ch, prefix)
            walk(tree, "")
            for q, info in funcs.items():
                if q in spans and info["executed"] > 0:
                    a, b = spans[q]
                    out.setdefault(path, set()).update(set(range(a, b + 1)) - set(info["missing"]))
    return out


CMP = {ast.Lt: "<=", ast.LtE: "<", ast.Gt: ">=", ast.GtE: ">", ast.Eq: "!=", ast.NotEq: "==",
       ast.Is: "is not", ast.IsNot: "is", ast.In: "not in", ast.NotIn: "in"}
CMPTXT = {ast.Lt: "<", ast.LtE: "<=", ast.Gt: ">", ast.GtE: ">=", ast.Eq: "==", ast.NotEq: "!=",
          ast.Is: "is", ast.IsNot: "is not", ast.In: "in", ast.NotIn: "not in"}


def candidates(path, lines_ok):
    src = open(os.path.join(REPO, path)).read()
    L = src.split("\n")
    tree = ast.parse(src)
    out = []

    def seg(n):
        return ast.get_source_segment(src, n)

    def repl(node, new, kind):
        if node.lineno != node.end_lineno or node.lineno not in lines_ok:
            return
        line = L[node.lineno - 1]
        # col offsets are in utf8 bytes; the library source is ASCII on code lines
        newline = line[:node.col_offset] + new + line[node.end_col_offset:]
        if newline != line:
            out.append((path, node.lineno, kind, line, newline))
    parents = {}
    for n in ast.walk(tree):
        for ch in ast.iter_child_nodes(n):
            parents[ch] = n
    for n in ast.walk(tree):
        if isinstance(n, ast.Compare) and len(n.ops) == 1 and type(n.ops[0]) in CMP:
            l, r = seg(n.left), seg(n.comparators[0])
            if l and r:
                repl(n, f"{l} {CMP[type(n.ops[0])]} {r}", "cmp")
        elif isinstance(n, ast.BinOp) and isinstance(n.op, (ast.Add, ast.Sub)) and isinstance(n.right, ast.Constant) \
                and isinstance(n.right.value, int) and not isinstance(n.right.value, bool):
            l = seg(n.left)
            if l:
                repl(n, l, "drop±c")
                repl(n, f"{l} {'-' if isinstance(n.op, ast.Add) else '+'} {n.right.value}", "flip±c")
        elif isinstance(n, ast.BoolOp) and len(n.values) == 2:
            a, b = seg(n.values[0]), seg(n.values[1])
            if a and b:
                repl(n, f"{a} {'or' if isinstance(n.op, ast.And) else 'and'} {b}", "and/or")
                repl(n, a, "boolop-left")
                repl(n, b, "boolop-right")
        elif isinstance(n, ast.UnaryOp) and isinstance(n.op, ast.Not):
            o = seg(n.operand)
            if o:
                repl(n, f"({o})", "drop-not")
        elif isinstance(n, ast.Constant) and isinstance(n.value, bool):
            repl(n, str(not n.value), "bool")
        elif isinstance(n, ast.Constant) and isinstance(n.value, int) and n.value in (0, 1) \
                and not isinstance(parents.get(n), (ast.Subscript, ast.Slice)):
            repl(n, str(1 - n.value), "0/1")
        elif isinstance(n, (ast.Expr, ast.Assign, ast.AugAssign)) and n.lineno == n.end_lineno and n.lineno in lines_ok:
            if isinstance(n, ast.Expr) and isinstance(n.value, ast.Constant):
                continue        # docstring
            line = L[n.lineno - 1]
            ind = line[:len(line) - len(line.lstrip())]
            out.append((path, n.lineno, "delete-stmt", line, ind + "pass"))
        elif isinstance(n, ast.If) and n.test.lineno == n.test.end_lineno and n.test.lineno in lines_ok:
            repl(n.test, "True", "if-true")
            repl(n.test, "False", "if-false")
    return out


def run_mutant(k, m):
    path, lineno, kind, old, new = m
    wt = tempfile.mkdtemp(prefix="ft-mut-")
    outd = tempfile.mkdtemp(prefix="ft-mo-")
    try:
        shutil.copytree(os.path.join(REPO, "fibertree"), os.path.join(wt, "fibertree"),
                        ignore=shutil.ignore_patterns("__pycache__"))
        for extra in ("setup.py", "requirements.txt"):
            if os.path.exists(os.path.join(REPO, extra)):
                shutil.copy(os.path.join(REPO, extra), wt)
        f = os.path.join(wt, path)
        L = open(f).read().split("\n")
        assert L[lineno - 1] == old
        L[lineno - 1] = new
        open(f, "w").write("\n".join(L))
        c = subprocess.run(["/venv/bin/python", "-c", "import sys; sys.path.insert(0, %r); import fibertree" % wt],
                           capture_output=True, text=True)
        if c.returncode != 0:
            return {"k": k, "site": f"{path}:{lineno}", "kind": kind, "old": old.strip(), "new": new.strip(), "status": "import-fails"}
        caught = []
        for p in props:
            r = subprocess.run(f"FT_REPO={wt} VERIF_OUT={outd} {V}/check {p} --tier quick --no-build", shell=True,
                               cwd=V, capture_output=True, text=True)
            if r.returncode == 1:
                caught.append(p)
            elif r.returncode != 0:
                caught.append(p + "?exit" + str(r.returncode))
        return {"k": k, "site": f"{path}:{lineno}", "kind": kind, "old": old.strip(), "new": new.strip(),
                "status": "caught" if caught else "SURVIVOR", "caught_by": caught}
    finally:
        shutil.rmtree(wt, ignore_errors=True)
        shutil.rmtree(outd, ignore_errors=True)


def main():
    reach = reached_lines()
    cands = []
    for path, ok in sorted(reach.items()):
        cands += candidates(path, ok)
    rng.shuffle(cands)
    # at most one mutant per source line
    seen, pick = set(), []
    for c in cands:
        if (c[0], c[1]) not in seen:
            seen.add((c[0], c[1])); pick.append(c)
        if len(pick) == N:
            break
    print(f"{len(cands)} candidate mutations on {sum(len(v) for v in reach.values())} reached lines; running {len(pick)}", flush=True)
    res = []
    with ThreadPoolExecutor(JOBS) as ex:
        for r in ex.map(lambda km: run_mutant(*km), enumerate(pick)):
            res.append(r)
            print(r["k"], r["status"], r["site"], r["kind"], "|", r["old"][:70], "=>", r["new"][:70], r.get("caught_by", ""), flush=True)
            os.makedirs(os.path.join(V, "results"), exist_ok=True)
            json.dump(res, open(os.path.join(V, "results", f"mutants-{SEED}.json"), "w"), indent=1)
    n = len(res); c = sum(r["status"] == "caught" for r in res); s = sum(r["status"] == "SURVIVOR" for r in res)
    print(f"mutants={n} caught={c} survivors={s} import-fails={n - c - s}")


main()
