#!/bin/bash
# usage: tools/mut_try.sh <PROP> <file-relative-to-repo> <sed-expression> [tier]
# applies the edit to a scratch copy of /repo's package and runs the check against it
set -e
D=$(mktemp -d /tmp/ft-mut-XXXX)
cp -r /repo/fibertree $D/fibertree
sed -i "$3" $D/$2
if diff -q /repo/$2 $D/$2 >/dev/null; then echo "MUTATION DID NOT APPLY"; rm -rf $D; exit 3; fi
set +e
FT_REPO=$D /verif/check $1 --tier ${4:-quick} --no-build 2>&1 | tail -4
rc=$?
rm -rf $D
exit $rc
