#!/bin/bash
# tools/pull_branch.sh Cxx — merge a sub-agent's branch cxx from /tmp/wk-Cxx/verif, resolving the usual conflicts
B=$1; b=$(echo $B | tr A-Z a-z)
cd "$(dirname "$0")/.."
git add -A; git commit -qm "wip before merging $B" >/dev/null 2>&1
git pull -q --no-edit /tmp/wk-$B/verif $b 2>&1 | tail -1
U=$(git diff --name-only --diff-filter=U)
echo "conflicts: $U"
if echo "$U" | grep -q known_findings; then tools/merge_kf.py; fi
# the builders' branches still carry the old prune_kf.py with an inline `gone` set: keep ours, absorb theirs
git show MERGE_HEAD:tools/prune_kf.py > /tmp/their_prune.py 2>/dev/null || git show FETCH_HEAD:tools/prune_kf.py > /tmp/their_prune.py
git checkout --ours tools/prune_kf.py 2>/dev/null; git checkout HEAD -- tools/prune_kf.py 2>/dev/null
python3 tools/prune_kf.py --absorb /tmp/their_prune.py >/dev/null
for f in $(echo "$U" | grep -E "evidence|tools/claims/|lean/obligations/"); do git checkout --theirs $f; done
tools/prune_kf.py; python3 tools/gen_manifest.py
git add -A; git commit -qm "merge $B from sub-agent branch" -q
( cd lean && lake build 2>&1 | grep -v "^warning\|^Note\|linter\|^$" | grep -B2 -A12 "error" | head -30 )
./check $B --no-build | grep -v KNOWN | tail -2
