#!/usr/bin/env python3
"""resolve a known_findings.json merge conflict by union (findings keyed by property+signature)"""
import json, subprocess
ours = json.loads(subprocess.check_output(['git', 'show', ':2:known_findings.json']))
theirs = json.loads(subprocess.check_output(['git', 'show', ':3:known_findings.json']))
def key(f): return (f['property'], f['signature'])
fs = {key(f): f for f in ours['findings']}
for f in theirs['findings']: fs.setdefault(key(f), f)
fixed = list(dict.fromkeys(ours['fixed'] + theirs['fixed']))
json.dump({'findings': list(fs.values()), 'fixed': fixed}, open('known_findings.json', 'w'), indent=1)
print(len(fs), 'findings', len(fixed), 'fixed')
