#!/venv/bin/python
"""Run the repository's pinned test suite (guard OFF) and compare with /root/.vp/BASELINE.json:
every stable_pass test must still pass.  Exit 0 iff so."""
import json, os, subprocess, sys, tempfile, xml.etree.ElementTree as ET
base = json.load(open("/root/.vp/BASELINE.json"))
env = dict(os.environ)
env.pop("FIBERTREE_VERIF", None)
env["PYTHONPATH"] = os.environ.get("FT_REPO", "/repo")
with tempfile.TemporaryDirectory() as td:
    x = os.path.join(td, "j.xml")
    subprocess.run(["/venv/bin/python", "-m", "pytest", "-ra", "-q", "-p", "no:cacheprovider",
                    "--timeout=900", "--continue-on-collection-errors", f"--junitxml={x}"],
                   cwd=os.environ.get("FT_REPO", "/repo"), env=env, stdout=subprocess.DEVNULL, stderr=subprocess.DEVNULL)
    passed = set()
    for tc in ET.parse(x).getroot().iter("testcase"):
        if not any(ch.tag in ("failure", "error", "skipped") for ch in tc):
            passed.add(f"{tc.get('classname')}::{tc.get('name')}")
missing = [t for t in base["stable_pass"] if t not in passed]
print(f"baseline stable_pass={len(base['stable_pass'])} passed_now={len(passed)} missing={len(missing)}")
for m in missing[:20]:
    print("  MISSING", m)
sys.exit(1 if missing else 0)
