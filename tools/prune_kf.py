#!/usr/bin/env python3
"""drop findings that were fixed in /repo (a union merge re-adds them); the repaired signatures are listed in
tools/gone.json.  `prune_kf.py --absorb FILE` first adds every ('Cxx', 'signature') pair found in FILE (an old
version of this script from a builder's branch) to gone.json."""
import json, os, re, sys
V = os.path.dirname(os.path.dirname(os.path.abspath(__file__)))
gp = os.path.join(V, "tools", "gone.json")
gone = {tuple(x) for x in json.load(open(gp))}
if len(sys.argv) > 2 and sys.argv[1] == "--absorb":
    gone |= set(re.findall(r"\('(C\d\d)', '([^']+)'\)", open(sys.argv[2]).read()))
    json.dump(sorted(list(x) for x in gone), open(gp, "w"), indent=0)
k = json.load(open(os.path.join(V, "known_findings.json")))
k['findings'] = [f for f in k['findings'] if (f['property'], f['signature']) not in gone
                 and 'updatePayloads' not in f['signature'] and not f['signature'].startswith('U1t')]
json.dump(k, open(os.path.join(V, "known_findings.json"), 'w'), indent=1)
print(len(k['findings']), 'findings', len(k['fixed']), 'fixed')
