#!/usr/bin/env python3
"""drop findings that were fixed in /repo (a union merge re-adds them)"""
import json
k = json.load(open('/verif/known_findings.json'))
gone = {('C13', 'U1:uncompress-of-all-default-nest'), ('C13', 'Y2:fromYAMLfile-drops-tensor-name'),
        ('C20', 'decode:B-rank-drops-imposed-shape'), ('C11', 'iop:ishl:elem<-nonelem:ret-none:spec'),
        ('C11', 'iop:ishl:elem<-elem:ret-none:spec'), ('C10', 'F.unflattenRanks:alias:payloads'), ('C14', 'swizzle:formats-mutable-dropped'), ('C14', 'swap:shape-dropped'), ('C14', 'swap:empty-branch:stale-shape'), ('C14', 'unflatten:default-dropped'), ('C09', 'unflatten:default-dropped'), ('C17', 'buffet:stale-shape'), ('C17', 'cache:stale-shape'), ('C08', 'nonuniform:min-of-empty-inds'), ('C09', 'unflatten:depth>0:empty-fiber:IndexError'), ('C14', 'unflatten:estimated-empty:TypeError'), ('C09', 'unflatten:empty-rank:undeclared-shape:TypeError'), ('C14', 'swap:empty-branch:unswapped-tree-outside-shape'), ('C14', 'split:relative:lower-outside-active'), ('C14', 'updateCoords:estimated-shape-stale')}
k['findings'] = [f for f in k['findings'] if (f['property'], f['signature']) not in gone
                 and 'updatePayloads' not in f['signature'] and not f['signature'].startswith('U1t')]
json.dump(k, open('/verif/known_findings.json', 'w'), indent=1)
print(len(k['findings']), 'findings', len(k['fixed']), 'fixed')
