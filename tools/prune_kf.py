#!/usr/bin/env python3
"""drop findings that were fixed in /repo (a union merge re-adds them)"""
import json
k = json.load(open('/verif/known_findings.json'))
<<<<<<< HEAD
gone = {('C13', 'Y1:yaml-load-of-tuple-coordinates'), ('C13', 'Y3:default-not-carried-by-dict-or-yaml'),
        ('C13', 'U1:uncompress-of-all-default-nest'), ('C13', 'Y2:fromYAMLfile-drops-tensor-name'),
        ('C20', 'decode:B-rank-drops-imposed-shape'), ('C20', 'size:assert-on-empty-fiber'), ('C20', 'scan:C-over-U-payload-handle'), ('C11', 'iop:ishl:elem<-nonelem:ret-none:spec'),
        ('C11', 'iop:ishl:elem<-elem:ret-none:spec'), ('C10', 'F.unflattenRanks:alias:payloads'), ('C14', 'swizzle:formats-mutable-dropped'), ('C14', 'swap:shape-dropped'), ('C14', 'swap:empty-branch:stale-shape'), ('C14', 'unflatten:default-dropped'), ('C09', 'unflatten:default-dropped'), ('C17', 'buffet:stale-shape'), ('C17', 'cache:stale-shape'), ('C08', 'nonuniform:min-of-empty-inds'), ('C09', 'unflatten:depth>0:empty-fiber:IndexError')}
=======
gone = {('C13', 'U1:uncompress-of-all-default-nest'), ('C13', 'Y2:fromYAMLfile-drops-tensor-name'),
        ('C20', 'decode:B-rank-drops-imposed-shape'), ('C11', 'iop:ishl:elem<-nonelem:ret-none:spec'),
        ('C11', 'iop:ishl:elem<-elem:ret-none:spec'), ('C10', 'F.unflattenRanks:alias:payloads'), ('C14', 'swizzle:formats-mutable-dropped'), ('C14', 'swap:shape-dropped'), ('C14', 'swap:empty-branch:stale-shape'), ('C14', 'unflatten:default-dropped'), ('C09', 'unflatten:default-dropped'), ('C17', 'buffet:stale-shape'), ('C17', 'cache:stale-shape'), ('C08', 'nonuniform:min-of-empty-inds'), ('C09', 'unflatten:depth>0:empty-fiber:IndexError'), ('C11', 'bin:div:elem-operand:TypeError:spec'), ('C11', 'bin:div:scalar-box:TypeError:spec'), ('C11', 'bin:fdiv:any:TypeError:spec'), ('C11', 'bin:logical:elem-operand:TypeError:spec'), ('C11', 'bin:logical:scalar-box:TypeError:spec'), ('C11', 'fiber:imul:a-only-coords:out:inplace_matches_value_form/spec'), ('C11', 'fiber:scalar-value-form:depth2:ERR:AttributeError:spec'), ('C11', 'iop:idiv:elem<-any:TypeError:spec'), ('C11', 'iop:ishl:box<-elem:ret-same:holds-element-object:spec')}
>>>>>>> bc10fab6103e23ee944ac6b21aa3e08ad4227c35
k['findings'] = [f for f in k['findings'] if (f['property'], f['signature']) not in gone
                 and 'updatePayloads' not in f['signature'] and not f['signature'].startswith('U1t')]
json.dump(k, open('/verif/known_findings.json', 'w'), indent=1)
print(len(k['findings']), 'findings', len(k['fixed']), 'fixed')
