#!/bin/bash
# tools/sweep.sh "<props>" "<seeds>" [tier] — run checks over several seeds, print one line per run
cd "$(dirname "$0")/.."
( cd lean && lake build >/dev/null 2>&1 ) || { echo BUILD-FAILED; exit 2; }
for p in $1; do for s in $2; do
  out=$(VERIF_SEED=$s ./check $p --tier ${3:-quick} --no-build 2>&1); rc=$?
  echo "$p seed=$s rc=$rc $(echo "$out" | grep -c '^VIOLATION') violations; $(echo "$out" | grep "^$p \[" | sed 's/.*cases=/cases=/')"
  echo "$out" | grep '^VIOLATION' | head -3
done; done
