#!/venv/bin/python
"""worker of tools/impl_coverage.py: run share i of n of a property's quick cases through the harness
(implementation side only; the Lean driver is not needed to measure which library lines are reached)"""
import sys, os, importlib
V = os.path.dirname(os.path.dirname(os.path.abspath(__file__)))
sys.path.insert(0, V)
prop, i, n, seed = sys.argv[1], int(sys.argv[2]), int(sys.argv[3]), int(sys.argv[4])
mod = importlib.import_module("harness.props." + prop.lower())
k = 0
for idx, case in enumerate(mod.gen(seed, "quick")):
    if idx % n != i:
        continue
    try:
        mod.run(case)
    except BaseException:
        pass
    k += 1
print(prop, i, k)
