#!/usr/bin/env python3
"""tools/impl_coverage.py [Cxx ...] — which lines of the library does a property's quick campaign execute?
Runs the implementation side of the harness under coverage.py (16 worker processes), then reports, for the
files the property is anchored in, every function the campaign entered with its executed / total statement
count and the statements it never reached.  Output: coverage/Cxx.json and coverage/SUMMARY.md.
This is a reach report for the correspondence generators (DESIGN §8), not a check."""
import ast, json, os, subprocess, sys, tempfile, shutil
V = os.path.dirname(os.path.dirname(os.path.abspath(__file__)))
REPO = os.environ.get("FT_REPO", "/repo")
PY = "/venv/bin/python"
props = {json.loads(l)["id"]: json.loads(l) for l in open(os.path.join(V, "properties.jsonl"))}
todo = sys.argv[1:] or sorted(props)
N = 16


def functions(path):
    """[(qualified name, first line, last line)] of every function in a file, innermost last"""
    tree = ast.parse(open(path).read())
    out = []

    def walk(node, prefix):
        for ch in ast.iter_child_nodes(node):
            if isinstance(ch, (ast.FunctionDef, ast.AsyncFunctionDef, ast.ClassDef)):
                q = prefix + ch.name
                if not isinstance(ch, ast.ClassDef):
                    out.append((q, ch.lineno, ch.end_lineno))
                walk(ch, q + ".")
            else:
                walk(ch, prefix)
    walk(tree, "")
    return out


def owner(funcs, line):
    best = None
    for q, a, b in funcs:
        if a <= line <= b and (best is None or a >= best[1]):
            best = (q, a, b)
    return best[0] if best else "<module>"


for p in todo:
    tmp = tempfile.mkdtemp(prefix="ft-cov-")
    env = dict(os.environ, PYTHONPATH=V, COVERAGE_FILE=os.path.join(tmp, ".coverage"),
               VERIF_SCRATCH=tmp, PYTHONDONTWRITEBYTECODE="1")
    procs = [subprocess.Popen([PY, "-m", "coverage", "run", "--parallel-mode", "--source", os.path.join(REPO, "fibertree"),
                               os.path.join(V, "tools", "_cov_worker.py"), p, str(i), str(N), "1"],
                              env=env, cwd=tmp, stdout=subprocess.DEVNULL, stderr=subprocess.DEVNULL) for i in range(N)]
    for pr in procs:
        pr.wait()
    subprocess.run([PY, "-m", "coverage", "combine"], env=env, cwd=tmp, stdout=subprocess.DEVNULL, stderr=subprocess.DEVNULL)
    subprocess.run([PY, "-m", "coverage", "json", "-o", os.path.join(tmp, "cov.json")], env=env, cwd=tmp,
                   stdout=subprocess.DEVNULL, stderr=subprocess.DEVNULL)
    try:
        cov = json.load(open(os.path.join(tmp, "cov.json")))["files"]
    except Exception as e:
        print(p, "no coverage data", e)
        shutil.rmtree(tmp, ignore_errors=True)
        continue
    rep = {}
    for f in props[p]["anchors"]["files"]:
        full = os.path.join(REPO, f)
        data = cov.get(full) or cov.get(os.path.realpath(full))
        if data is None:
            rep[f] = {"_entered": 0}
            continue
        funcs = functions(full)
        per = {}
        for ln in data["executed_lines"]:
            per.setdefault(owner(funcs, ln), [set(), set()])[0].add(ln)
        for ln in data["missing_lines"]:
            per.setdefault(owner(funcs, ln), [set(), set()])[1].add(ln)
        rep[f] = {q: {"executed": len(e), "total": len(e) + len(m), "missing": sorted(m)}
                  for q, (e, m) in sorted(per.items()) if len(e) > 1 and q != "<module>"}
    json.dump({"property": p, "tier": "quick", "seed": 1, "files": rep}, open(os.path.join(V, "coverage", p + ".json"), "w"), indent=1)
    tot_e = sum(v["executed"] for f in rep.values() for v in f.values() if isinstance(v, dict))
    tot_t = sum(v["total"] for f in rep.values() for v in f.values() if isinstance(v, dict))
    print(p, f"entered functions: {sum(len(f) for f in rep.values())}  statements executed {tot_e}/{tot_t}")
    shutil.rmtree(tmp, ignore_errors=True)

# summary over everything recorded so far
import glob
lines = ["# Reach of the quick correspondence campaigns inside the library (tools/impl_coverage.py)\n",
         "For each property: the functions of its anchored files that the quick campaign entered, statements executed / total",
         "in those functions, and the entered functions with the most unreached statements. Unreached statements are mostly",
         "the metrics-collection branches (exercised by C15/C16 only), unordered / non-unique fibers, lazy operands and error",
         "paths outside the properties' domains. This is a report about generator reach, not a check.\n",
         "| property | functions entered | statements executed / total | least covered entered functions (executed/total) |", "|---|---|---|---|"]
for fn in sorted(glob.glob(os.path.join(V, "coverage", "C*.json"))):
    r = json.load(open(fn))
    fs = [(q, v, f) for f, d in r["files"].items() for q, v in d.items() if isinstance(v, dict)]
    e = sum(v["executed"] for _, v, _ in fs); t = sum(v["total"] for _, v, _ in fs)
    worst = sorted(fs, key=lambda x: x[1]["executed"] - x[1]["total"])[:5]
    lines.append(f"| {r['property']} | {len(fs)} | {e} / {t} | " +
                 "; ".join(f"{q} ({v['executed']}/{v['total']})" for q, v, _ in worst if v['executed'] < v['total']) + " |")
open(os.path.join(V, "coverage", "SUMMARY.md"), "w").write("\n".join(lines) + "\n")
