#!/bin/bash
# tools/seed_next.sh Cxx OUTDIR — evaluate OUTDIR/1 and OUTDIR/2 as the next free seed ids of Cxx, print one line each
P=$1; D=$2
cd "$(dirname "$0")/.."
for i in 1 2; do
  [ -f $D/$i/patch.diff ] || continue
  n=$(ls -d seeded/$P-* 2>/dev/null | sed "s/.*$P-//" | sort -n | tail -1); n=$((n+1))
  tools/seed_eval.py $P $D/$i $P-$n 2>&1 | python3 -c "
import sys,json; m=json.load(sys.stdin); print(m['seed_id'],'confirmed' if m['confirmed'] else 'NOT-CONFIRMED', 'caught_by', m['caught_by'], [x['lines'][:1] for x in m['ran']])" | cut -c1-230
done
