#!/usr/bin/env python3
"""tools/rename_clash.py PREFIX file1.lean file2.lean ... — rename declarations in the given files that clash
with declarations (same name in namespace Ft) made in any other FtModel/FtProofs file."""
import re, sys, os, glob
prefix = sys.argv[1]; mine = [os.path.abspath(f) for f in sys.argv[2:]]
root = os.path.join(os.path.dirname(os.path.dirname(os.path.abspath(__file__))), 'lean')
decl = re.compile(r'^\s*(?:private\s+|protected\s+)?(?:theorem|lemma|def|abbrev|structure|inductive|instance)\s+([A-Za-z_][\w\.\'?!]*)', re.M)
others = set()
for f in glob.glob(root + '/FtModel/**/*.lean', recursive=True) + glob.glob(root + '/FtProofs/**/*.lean', recursive=True):
    if os.path.abspath(f) in mine: continue
    others |= set(decl.findall(open(f).read()))
names = set()
for f in mine:
    names |= set(decl.findall(open(f).read()))
clash = sorted(names & others, key=len, reverse=True)
print('clashes:', clash)
for f in mine:
    s = open(f).read()
    for n in clash:
        s = re.sub(r'(?<![\w\.\'])' + re.escape(n) + r'(?![\w\'])', prefix + n, s)
    open(f, 'w').write(s)
