#!/usr/bin/env python3
"""tools/seed_eval.py PROP SRC_DIR SEED_ID [extra props...]
Confirm a seeded change (patch.diff + demo.py [+ notes.md]) in a scratch worktree, run the registered check(s)
against /repo with the change applied (and undo it), store everything under /verif/seeded/SEED_ID/."""
import json, os, shutil, subprocess, sys, tempfile, time
prop, src, sid = sys.argv[1], os.path.abspath(sys.argv[2]), sys.argv[3]
props = [prop] + sys.argv[4:]
V = os.path.dirname(os.path.dirname(os.path.abspath(__file__)))
def sh(cmd, **kw):
    return subprocess.run(cmd, shell=True, stdout=subprocess.PIPE, stderr=subprocess.STDOUT, text=True, **kw)
wt = tempfile.mkdtemp(prefix="ft-sw-")
os.rmdir(wt)
meta = {"property": prop, "seed_id": sid, "ran": []}
try:
    assert sh(f"git -C /repo worktree add --detach {wt} HEAD").returncode == 0
    env = dict(os.environ, PYTHONPATH=wt)
    r0 = sh(f"/venv/bin/python {src}/demo.py", env=env, cwd=wt)
    meta["demo_on_head_exit"] = r0.returncode
    ap = sh(f"git -C {wt} apply {src}/patch.diff")
    meta["patch_applies"] = ap.returncode == 0
    r1 = sh(f"/venv/bin/python {src}/demo.py", env=env, cwd=wt)
    meta["demo_with_patch_exit"] = r1.returncode
    meta["demo_with_patch_tail"] = r1.stdout[-400:]
    b = sh(f"FT_REPO={wt} {V}/tools/baseline_check.py")
    meta["baseline_with_patch"] = b.stdout.strip().splitlines()[0] if b.stdout else ""
    meta["baseline_ok"] = b.returncode == 0
finally:
    sh(f"git -C /repo worktree remove --force {wt}")
meta["confirmed"] = bool(meta.get("demo_on_head_exit") == 0 and meta.get("patch_applies") and meta.get("demo_with_patch_exit") != 0 and meta.get("baseline_ok"))
# run the checks against a scratch worktree of /repo with the change applied (FT_REPO), so that other
# work reading /repo is not disturbed; equivalent to `git -C /repo apply` + run + `git checkout -- .`
wt2 = tempfile.mkdtemp(prefix="ft-sw-")
os.rmdir(wt2)
out = tempfile.mkdtemp(prefix="ft-so-")
try:
    assert sh(f"git -C /repo worktree add --detach {wt2} HEAD").returncode == 0
    assert sh(f"git -C {wt2} apply {src}/patch.diff").returncode == 0
    for p in props:
        t0 = time.time()
        r = sh(f"FT_REPO={wt2} VERIF_OUT={out} {V}/check {p} --tier quick --no-build", cwd=V)
        lines = [l for l in r.stdout.splitlines() if l.startswith("VIOLATION") or l.startswith(p + " [")]
        meta["ran"].append({"check": p, "exit": r.returncode, "wall_s": round(time.time() - t0, 1), "lines": lines[:6],
                            "how": "FT_REPO=<scratch worktree of /repo HEAD with patch.diff applied> ./check " + p + " --tier quick"})
finally:
    sh(f"git -C /repo worktree remove --force {wt2}")
    shutil.rmtree(out, ignore_errors=True)
meta["caught_by"] = [x["check"] for x in meta["ran"] if x["exit"] == 1]
dst = os.path.join(V, "seeded", sid)
os.makedirs(dst, exist_ok=True)
for f in ("patch.diff", "demo.py", "notes.md"):
    if os.path.exists(os.path.join(src, f)) and os.path.abspath(src) != os.path.abspath(dst):
        shutil.copy(os.path.join(src, f), dst)
# what the change needs in order to manifest: the seeding agent's own words (notes.md)
nt = os.path.join(dst, "notes.md")
if os.path.exists(nt):
    import re
    paras = [re.sub(r"\s+", " ", p).strip() for p in re.split(r"\n\s*\n|\n[-*] ", open(nt).read())]
    hit = [p for p in paras if re.search(r"\bneed|manifest|only show|shows only|requires", p, re.I)]
    if hit:
        meta["needs"] = hit[0][:600]
        meta["needs_source"] = "notes.md (written by the seeding agent)"
json.dump(meta, open(os.path.join(dst, "meta.json"), "w"), indent=1)
print(json.dumps(meta, indent=1))
