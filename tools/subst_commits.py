#!/usr/bin/env python3
"""tools/subst_commits.py Cxx NN=hash [NN=hash ...] — replace <COMMIT:NN> placeholders of property Cxx in
known_findings.json "fixed" lines and add the commits to tools/claims.json source_commits."""
import json, sys, os
V = os.path.dirname(os.path.dirname(os.path.abspath(__file__)))
prop = sys.argv[1]
m = dict(a.split("=") for a in sys.argv[2:])
kf = json.load(open(os.path.join(V, "known_findings.json")))
out = []
for line in kf["fixed"]:
    if f"property={prop} " in line:
        for n, h in m.items():
            line = line.replace(f"<COMMIT:{n}>", h)
    out.append(line)
kf["fixed"] = out
json.dump(kf, open(os.path.join(V, "known_findings.json"), "w"), indent=1)
cl = json.load(open(os.path.join(V, "tools", "claims.json")))
for h in m.values():
    if h not in cl["source_commits"]:
        cl["source_commits"].append(h)
json.dump(cl, open(os.path.join(V, "tools", "claims.json"), "w"), indent=1)
print([l[:60] for l in out if f"property={prop} " in l])
