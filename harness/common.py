"""Shared machinery of the correspondence harness (DESIGN.md §5).

Runs the real implementation in-process (importing $FT_REPO or /repo), ships each case
and the implementation's observation to the compiled Lean driver over a JSON line
protocol, and decides / writes evidence.
"""
import os, sys, json, time, hashlib, random, subprocess, traceback, itertools

VERIF = os.path.dirname(os.path.dirname(os.path.abspath(__file__)))
REPO = os.environ.get("FT_REPO", "/repo")
LEAN_DIR = os.path.join(VERIF, "lean")
DRIVER = os.path.join(LEAN_DIR, ".lake", "build", "bin", "ftdriver")
os.environ.setdefault("PYTHONDONTWRITEBYTECODE", "1")
sys.dont_write_bytecode = True
if sys.path[0] != REPO:
    sys.path.insert(0, REPO)

_ft = None


def ft():
    """import the implementation lazily (so that --help etc. work without it)"""
    global _ft
    if _ft is None:
        import importlib
        core_fiber = importlib.import_module("fibertree.core.fiber")
        core_tensor = importlib.import_module("fibertree.core.tensor")
        core_payload = importlib.import_module("fibertree.core.payload")
        core_rank = importlib.import_module("fibertree.core.rank")
        core_cp = importlib.import_module("fibertree.core.coord_payload")
        core_metrics = importlib.import_module("fibertree.core.metrics")

        class NS:
            pass
        ns = NS()
        ns.Fiber = core_fiber.Fiber
        ns.Tensor = core_tensor.Tensor
        ns.Payload = core_payload.Payload
        ns.Rank = core_rank.Rank
        ns.CoordPayload = core_cp.CoordPayload
        ns.Metrics = core_metrics.Metrics
        ns.fiber_mod = core_fiber
        assert os.path.realpath(core_fiber.__file__).startswith(os.path.realpath(REPO)), \
            (core_fiber.__file__, REPO)
        _ft = ns
    return _ft


# ---------------------------------------------------------------------------------------
# model-side trees: a fiber is [[coord, payload], ...]; a leaf is an int
# ---------------------------------------------------------------------------------------

def gen_tree(rng, depth, n, pool=(1, 2, -3), dflt=0, p_absent=0.4, p_default=0.15,
             p_emptysub=0.12, p_alldefault=0.08):
    """random tree of `depth` levels over coordinates 0..n-1 (depth 1 = leaf fiber)."""
    out = []
    for c in range(n):
        r = rng.random()
        if r < p_absent:
            continue
        if depth == 1:
            if r < p_absent + p_default:
                out.append([c, dflt])
            else:
                out.append([c, rng.choice(pool)])
        else:
            if r < p_absent + p_emptysub:
                out.append([c, []])
            elif r < p_absent + p_emptysub + p_alldefault:
                sub = gen_tree(rng, depth - 1, n, pool, dflt, 0.5, 1.0, 1.0, 0.0)
                out.append([c, sub])
            else:
                out.append([c, gen_tree(rng, depth - 1, n, pool, dflt, p_absent, p_default,
                                        p_emptysub, p_alldefault)])
    return out


def all_leaf_fibers(n, states):
    """every 1-D fiber over coordinates 0..n-1 where each slot is absent (None) or a value"""
    for combo in itertools.product([None] + list(states), repeat=n):
        yield [[c, v] for c, v in enumerate(combo) if v is not None]


def build_fiber(tree, depth, dflt=0):
    """build real Fiber objects through the public constructor"""
    F = ft().Fiber
    if depth == 1:
        return F([c for c, _ in tree], [v for _, v in tree], default=dflt)
    return F([c for c, _ in tree], [build_fiber(s, depth - 1, dflt) for _, s in tree],
             default=dflt)


def snapshot(obj):
    """abstraction function: raw walk over Fiber.coords / Fiber.payloads.
    Leaves: a singly boxed int -> int; anything else is tagged so that the Lean side
    rejects it as ill-formed: {"raw": v} unboxed, {"dbox": ...} double boxed."""
    Fiber, Payload = ft().Fiber, ft().Payload
    if isinstance(obj, Fiber):
        if len(obj.coords) != len(obj.payloads):
            return {"mismatch": [len(obj.coords), len(obj.payloads)]}
        return [[_coord(c), snapshot(p)] for c, p in zip(obj.coords, obj.payloads)]
    if isinstance(obj, Payload):
        v = obj.value
        if isinstance(v, Payload):
            return {"dbox": snapshot(v)}
        if isinstance(v, Fiber):
            return {"boxedfiber": snapshot(v)}
        return _val(v)
    return {"raw": _val(obj)}


def _coord(c):
    if isinstance(c, tuple):
        return [_coord(x) for x in c]
    return c


def _val(v):
    if isinstance(v, bool):
        return int(v)
    if isinstance(v, (int, str)) or v is None:
        return v
    if isinstance(v, float):
        # integral floats are ordinary values of the Int-valued model (7.0 + 1 = 8.0)
        return int(v) if v.is_integer() else {"float": v.hex()}
    if isinstance(v, tuple):
        return {"tuple": [_val(x) if not hasattr(x, "value") else snapshot(x) for x in v]}
    return {"obj": type(v).__name__}


def pos_of(payloads, p):
    """storage position of the object `p` in a payload list (identity!), -1 if not stored"""
    for i, q in enumerate(payloads):
        if q is p:
            return i
    return -1


def err_class(e):
    return "ERR:" + type(e).__name__


# ---------------------------------------------------------------------------------------
# driver
# ---------------------------------------------------------------------------------------

def lake_build():
    """(re)build the Lean libraries and the driver; returns (ok, log)"""
    p = subprocess.run(["lake", "build"], cwd=LEAN_DIR, stdout=subprocess.PIPE,
                       stderr=subprocess.STDOUT, text=True)
    return p.returncode == 0, p.stdout


def run_driver(lines):
    """send JSON lines to the Lean driver, return the parsed answers (same order)"""
    p = subprocess.run([DRIVER], input="\n".join(lines) + "\n", stdout=subprocess.PIPE,
                       stderr=subprocess.PIPE, text=True)
    if p.returncode != 0:
        raise RuntimeError("driver failed: " + p.stderr[-2000:])
    outs = [json.loads(l) for l in p.stdout.splitlines() if l.strip()]
    if len(outs) != len(lines):
        raise RuntimeError(f"driver answered {len(outs)} of {len(lines)} lines")
    return outs


def case_hash(case):
    c = {k: v for k, v in case.items() if k not in ("id",)}
    return hashlib.sha1(json.dumps(c, sort_keys=True).encode()).hexdigest()[:12]


def rank_mirror(tensor):
    """C02's invariant on the real objects: rank i lists exactly the fibers at depth i of the tree
    (each once), each fiber's owner is that rank, ranks are chained.  Returns '' or a description."""
    Fiber = ft().Fiber
    root = tensor.getRoot()
    if not isinstance(root, Fiber):
        return ""
    levels = []
    cur = [root]
    while cur:
        levels.append(cur)
        nxt = []
        for f in cur:
            for p in f.payloads:
                if isinstance(p, Fiber):
                    nxt.append(p)
        cur = nxt
    ranks = tensor.ranks
    for i, lv in enumerate(levels):
        if len({id(f) for f in lv}) != len(lv):
            return f"depth {i}: one fiber object is stored at two positions of the tree"
    for i, r in enumerate(ranks):
        listed = [id(f) for f in r.getFibers()]
        if len(set(listed)) != len(listed):
            return f"rank {i}: a fiber is listed twice"
        live = [id(f) for f in levels[i]] if i < len(levels) else []
        if sorted(listed) != sorted(live):
            extra = len(set(listed) - set(live))
            missing = len(set(live) - set(listed))
            dup = len(listed) - len(set(listed))
            return f"rank {i}: {extra} stale, {missing} missing, {dup} duplicate"
        for f in r.getFibers():
            if f.getOwner() is not r:
                return f"rank {i}: fiber with wrong owner"
        nr = r.getNextRank()
        if i + 1 < len(ranks):
            if nr is not ranks[i + 1]:
                return f"rank {i}: next-rank chain broken"
        elif nr is not None:
            return f"rank {i}: last rank has a next rank"
    if len(levels) > len(ranks):
        return f"tree deeper ({len(levels)}) than rank list ({len(ranks)})"
    return ""


def rank_paths(tensor):
    """canonical rank lists: every fiber registered in rank i by its coordinate path from the root,
    None for a registered fiber that is not (or no longer) part of the tree"""
    Fiber = ft().Fiber
    root = tensor.getRoot()
    if not isinstance(root, Fiber):
        return []
    path_of = {id(root): []}
    stack = [(root, [])]
    while stack:
        f, path = stack.pop()
        for c, p in zip(f.coords, f.payloads):
            if isinstance(p, Fiber):
                path_of[id(p)] = path + [_coord(c)]
                stack.append((p, path + [_coord(c)]))
    return [[path_of.get(id(f)) for f in r.getFibers()] for r in tensor.ranks]
