"""C05 — populate (z << a) offers exactly a's coordinates and keeps only what was written."""
import random, itertools
from harness import common as H

PROP = "C05"
RULE = ("cases = (destination z, source a, body action table, free/tensor-owned). small scope: all pairs of leaf "
        "fibers over 3 coordinates x {absent, explicit default, value} x every vector of body actions "
        "{leave, assign, accumulate, reset-to-default} over the presented source coordinates; random: depth 1-3 "
        "trees (destination empty / disjoint / overlapping / superset; explicit defaults, empty sub-fibers), random "
        "leaf actions and skipped nested loops. non-trivial = source presents something and (an element is created, "
        "or an offered coordinate overlaps the destination, or something is removed)")

LEAF_ACTS = [("leave", 0), ("assign", 5), ("add", 1), ("reset", 0)]


def _leaf_points(tree, depth, prefix=()):
    for c, p in tree:
        if depth == 1:
            yield list(prefix) + [c]
        else:
            yield from _leaf_points(p, depth - 1, tuple(prefix) + (c,))


def _inner_points(tree, depth, prefix=()):
    if depth <= 1:
        return
    for c, p in tree:
        yield list(prefix) + [c]
        yield from _inner_points(p, depth - 1, tuple(prefix) + (c,))


def gen(seed, tier):
    fibs = list(H.all_leaf_fibers(3, [0, 1]))
    k = 0
    for z in fibs:
        for a in fibs:
            pres = [c for c, v in a if v != 0]
            for vec in itertools.product(range(4), repeat=len(pres)):
                k += 1
                if tier == "quick" and k % 4:
                    continue
                acts = [[[c], LEAF_ACTS[i][0], LEAF_ACTS[i][1]] for c, i in zip(pres, vec)]
                yield {"prop": PROP, "d": 0, "dflt": 0, "z": z, "a": a, "acts": acts,
                       "kind": "owned" if k % 2 else "free"}
    rng = random.Random(seed)
    nrand = 12000 if tier == "quick" else 60000
    for i in range(nrand):
        d = rng.choice([0, 1, 1, 2])
        dflt = rng.choice([0, 0, 7])
        n = rng.choice([2, 3, 4])
        a = H.gen_tree(rng, d + 1, n, (1, 2, -3, 7, 0), dflt)
        mode = rng.choice(["empty", "disjoint", "overlap", "superset", "random"])
        if mode == "empty":
            z = []
        elif mode == "disjoint":
            z = [[c + n + 1, p] for c, p in H.gen_tree(rng, d + 1, n, (1, 2, -3, 7, 0), dflt)]
        elif mode == "superset":
            z = H.gen_tree(rng, d + 1, n, (1, 2, -3, 7, 0), dflt, p_absent=0.05)
        else:
            z = H.gen_tree(rng, d + 1, n, (1, 2, -3, 7, 0), dflt)
        acts = []
        for p in _leaf_points(a, d + 1):
            if rng.random() < 0.7:
                code, v = rng.choice(LEAF_ACTS + [("assign", dflt), ("add", 0), ("add", -1)])
                acts.append([p, code, v])
        for p in _inner_points(a, d + 1):
            r = rng.random()
            if r < 0.15:
                acts.append([p, "skip", 0])
            elif r < 0.35:
                # the body only touches the offered sub-fiber: creates an element below it, writes nothing
                acts.append([p, "touch", rng.randrange(0, n + 1)])
        case = {"prop": PROP, "d": d, "dflt": dflt, "z": z, "a": a, "acts": acts, "kind": "owned",
                "fdflt": rng.random() < 0.15}
        # configuration of the DESTINATION that must not matter: its ranks' formats, a declared shape, fibers
        # built with their own default 0 inside a tensor of another default
        r5 = rng.random()
        if r5 < 0.2:
            case["zcfg"] = {"fmt": [rng.choice("CU") for _ in range(d + 1)], "shape": [n + rng.randrange(1, 3)] * (d + 1)}
        elif r5 < 0.3:
            case["zcfg"] = {"shape": [n + rng.randrange(1, 3)] * (d + 1)}
        elif r5 < 0.4 and not case["fdflt"]:
            case["zcfg"] = {"fib0": True}
        # state an earlier, unrelated search left behind on the operands (saved positions) must not matter, and
        # the same loop written a second time with a body that writes nothing offers the same coordinates and
        # leaves the content alone
        case["stale"] = rng.random() < 0.25
        case["again"] = rng.random() < 0.3
        # ... and after both tensors were given ANOTHER leaf default (Tensor.setDefault), the same fiber objects are
        # populated once more with a body that writes nothing: judged by the model like a fresh case under the new
        # default (nothing may be remembered from the first pass)
        case["redflt"] = rng.random() < 0.25
        if rng.random() < 0.15 and not case["fdflt"]:
            # the SOURCE's fibers built with their own default 0 inside a tensor of another default: which of its
            # elements are empty is judged by the owning rank's default
            case["afib0"] = True
        if rng.random() < 0.2:
            # the source's top rank is declared uncompressed: the loop is offered every coordinate of its shape
            case.update({"fmtA": "U", "shapeA": n})
            if d >= 1 and rng.random() < 0.6:
                # per-rank formats (any mixture, at least one U), extents declared or only estimated: an
                # estimated rank extent is the largest coordinate stored anywhere in that rank, plus one
                fm = [rng.choice("CU") for _ in range(d + 1)]
                if "U" not in fm:
                    fm[rng.randrange(d + 1)] = "U"
                case["fmtA"] = fm
                if rng.random() < 0.5:
                    case["shapeA"] = [n] * (d + 1)
                    case["declaredA"] = True
                else:
                    ext = [0] * (d + 1)

                    def walk(t, k):
                        for c, p in t:
                            ext[k] = max(ext[k], c + 1)
                            if k < d:
                                walk(p, k + 1)
                    walk(a, 0)
                    case["shapeA"] = ext
                    case["declaredA"] = False
                yield case
                continue
            if d == 0 and rng.random() < 0.5:
                # ... and the source fiber is a detached copy that carries the declaration in its own rank attributes
                case["detachA"] = True
            yield case
            continue
        # unowned fibers of depth >= 2 cannot know that their payloads are fibers (an empty
        # unowned fiber guesses a scalar default), so deeper destinations live in a tensor
        case["kind"] = "owned" if d >= 1 else rng.choice(["owned", "free"])
        if case["kind"] == "free":
            case.pop("zcfg", None)
            case["fdflt"] = False
        yield case


def _ranks(t):
    return [sorted(id(f) for f in r.getFibers()) for r in t.ranks]


def run(case):
    ft = H.ft()
    d, dflt = case["d"], case["dflt"]
    if case.get("fdflt"):
        dflt = float(dflt)
    acts = {tuple(p): (code, v) for p, code, v in case["acts"]}
    zcfg = case.get("zcfg") or {}
    z = H.build_fiber(case["z"], d + 1, 0 if (zcfg.get("fib0") and case["kind"] == "owned") else dflt)
    a = H.build_fiber(case["a"], d + 1, 0 if (case.get("afib0") and case["kind"] == "owned") else dflt)
    tz = ta = None
    if case["kind"] == "owned":
        ids = [f"R{d - k}" for k in range(d + 1)]
        tz = ft.Tensor.fromFiber(rank_ids=ids, fiber=z, default=dflt, shape=zcfg.get("shape"))
        for rid, fm in zip(ids, zcfg.get("fmt", [])):
            tz.setFormat(rid, fm)
        if isinstance(case.get("fmtA"), list):
            ta = ft.Tensor.fromFiber(rank_ids=ids, fiber=a, default=dflt,
                                     **({"shape": case["shapeA"]} if case.get("declaredA") else {}))
            for rid, fm in zip(ids, case["fmtA"]):
                ta.setFormat(rid, fm)
        elif case.get("fmtA") == "U":
            ta = ft.Tensor.fromFiber(rank_ids=ids, fiber=a, shape=[case["shapeA"]] * (d + 1), default=dflt)
            ta.setFormat(ids[0], "U")
        else:
            ta = ft.Tensor.fromFiber(rank_ids=ids, fiber=a, default=dflt)
        z, a = tz.getRoot(), ta.getRoot()
        if case.get("detachA"):
            a = a.copy(preserve_owner=False)
            ta = None
    if case.get("stale"):
        for f in (z, a):
            if len(f.coords) > 1:
                f.getPayload(f.coords[-1], start_pos=0)
    a_before = (H.snapshot(a), _ranks(ta) if ta else None)
    log = []
    side = {}

    def loop(zf, af, prefix, depth):
        for c, (zr, av) in zf << af:
            p = prefix + [c]
            log.append([p, H.snapshot(zr), H.pos_of(af.payloads, av)])
            if depth == 0:
                act = acts.get(tuple(p))
                if act is None:
                    zr += av
                elif act[0] == "leave":
                    pass
                elif act[0] == "assign":
                    zr <<= act[1]
                elif act[0] == "add":
                    zr += act[1]
                elif act[0] == "reset":
                    zr <<= dflt
            else:
                act = acts.get(tuple(p), ("", 0))
                if act[0] == "skip":
                    continue
                if act[0] == "touch":
                    zr.getPositionRef(act[1])
                    continue
                loop(zr, av, p, depth - 1)
            if tz is not None and side.get("member_throughout", True):
                side["member_throughout"] = H.rank_mirror(tz) == "" or None  # checked after removal below

    try:
        loop(z, a, [], d)
    except Exception as e:
        side["no_exception:" + H.err_class(e)] = False
    side.pop("member_throughout", None)
    case["impl"] = {"z": H.snapshot(z), "yields": log}
    if case.get("redflt") and tz is not None and ta is not None and not case.get("fdflt") and not case.get("fmtA") \
            and not zcfg.get("fmt") and not any(k.startswith("no_exception") for k in side):
        d2 = 99
        try:
            tz.setDefault(d2)
            ta.setDefault(d2)
            z_before2 = H.snapshot(z)
            log2 = []

            def loop2(zf, af, prefix, depth):
                for c, (zr, av) in zf << af:
                    p = prefix + [c]
                    log2.append([p, H.snapshot(zr), H.pos_of(af.payloads, av)])
                    if depth > 0:
                        loop2(zr, av, p, depth - 1)
            loop2(z, a, [], d)
            case["phase2"] = {"dflt": d2, "z": z_before2, "acts": [[list(p), "leave", 0] for p in _leaf_points(case["a"], d + 1)],
                              "impl": {"z": H.snapshot(z), "yields": log2}}
        except Exception as e:
            side["no_exception_after_setDefault:" + H.err_class(e)] = False
    if case.get("again") and "phase2" not in case and not any(k.startswith("no_exception") for k in side):
        def content(snap, depth, prefix=()):
            out = []
            for c, p in snap:
                if depth == 0:
                    if p != dflt:
                        out.append((prefix + (c,), p))
                else:
                    out += content(p, depth - 1, prefix + (c,))
            return out
        c1 = content(H.snapshot(z), d)
        try:
            top2 = [c for c, _ in z << a]
            side["second_pass_offers_same_coordinates"] = top2 == [r[0][0] for r in log if len(r[0]) == 1]
            side["second_pass_without_writes_keeps_content"] = content(H.snapshot(z), d) == c1
        except Exception as e:
            side["second_pass:" + H.err_class(e)] = False
    side["source_unchanged"] = (H.snapshot(a), _ranks(ta) if ta else None) == a_before
    if tz is not None:
        m = H.rank_mirror(tz)
        side["destination_rank_lists_mirror_tree" + (": " + m if m else "")] = (m == "")
    case["side"] = side
    return case


def nontrivial(case, verdict):
    t = set(verdict.get("tags", []))
    return bool(t & {"overlap", "create", "removed-some"}) and "OUT_OF_MODEL" not in t


def signature(case, verdict, failed):
    why = verdict.get("why", "")
    first = why.split(";")[0].strip()[:40] if why else ""
    return f"populate:{'/'.join(sorted(f.split(':')[0] for f in failed))}:{first}"
