"""C15 — metrics collection is transparent, exact and session-isolated (the COUNTER side).

Two kinds of cases:
  * "api":    a sequence of `Metrics` classmethod calls (several sessions, legal and illegal calls) run
              against the real class from the import-time state; observation = every returned value, the
              index of the first rejected call, all 13 class attributes and the trace files.  When the
              sequence ends in a structured session the same session is run again "in a fresh process"
              (attributes reset, empty directory) for the isolation spec.
  * "kernel": a sum-of-products loop nest built from `&`, `<<`, `+=` (the C06 family: 1-3 index variables,
              1-3 operands, every loop order, scalar/vector/matrix outputs) run with collection off, with
              collection on after the earlier sessions `hist`, and on again in a fresh process; the payload
              operators actually executed are counted by independent wrappers around `Payload`.
"""
import os, random, itertools, shutil, tempfile, csv
from harness import common as H

PROP = "C15"
RULE = ("api: every sequence of <=3 (quick) / <=4 (thorough) calls over a 13-call alphabet (incl. a rank match and a use of the matched rank) after a fixed prelude, "
        "plus seeded random multi-session sequences (0-3 earlier sessions, dirty or clean, shared prefixes, "
        "setNumCachedUses 2..5, consumable traces, matched ranks, ~10% illegal calls); kernel: a fixed list of "
        "classic shapes (dot, mat-vec, mat-mat in all 6 loop orders, element-wise, reductions, outer product, "
        "3-operand products) x all pairs of small leaf fibers, plus seeded random shapes (all loop orders) x random "
        "operands of depth 1-3 with explicit zeros, empty sub-fibers, cancelling sums, empty operands, preloaded "
        "outputs, declared/undeclared output shape, format-U leaf ranks x every kind of trace subset (none, iter, "
        "all eight trace types, random) x 0-3 earlier sessions x innermost statement spelled with __mul__/__rmul__/__imul__/"
        "__add__/__radd__/__iadd__/__ilshift__ x kernel applied twice to the same objects / operands reused from an earlier "
        "collecting session / objects built inside the bracket x operand shapes exact, larger, estimated x coordinates up to 11; "
        "program (no Lean model, spec on the implementation's observations): the C06 program generator (tilings, right-nested and "
        "hoisted intersections, Fiber.intersection two-finger / leader-follower / filtered) x format U on any rank of any operand or "
        "of the output, unowned-fiber operands with their own rank attributes, int / float / bool / wide-magnitude float values, same reuse variants; all "
        "chunked (spec on observations): Z += A with A in chunks of increasing coordinates populated with start_pos fed from "
        "getSavedPos() (first start_pos 0, or none), pre-populated outputs, depth 1-2, all cut points on a 4-coordinate small scope; all "
        "ref (spec on observations): kernels that fetch the output element with getPayloadRef() instead of populate (mat-vec, "
        "element-wise, copy, mat-mat with getPayloadRef(m, n) and with a fetched row fiber), iter and all trace types; assign (spec on observations): copy / selection / project kernels (`z_ref <<= a_val`) under leaf defaults 7, -1, 0 with stored zeros and "
        "explicit defaults, traces incl. project_<n>; all kernel kinds also compare output attributes (ids, shape, default, formats) and the operands left behind off vs on. non-trivial api case = a session with at least one "
        "counter or started trace; non-trivial kernel case = at least one loop body ran and a trace or counter moved")

RANKS = ["M", "K", "N"]
TYPES = ["iter", "intersect_0", "intersect_1", "intersect_2", "intersect_3",
         "populate_read_0", "populate_write_0", "populate_1"]
PFX = ["p0", "p1"]

# ---------------------------------------------------------------------------------------
# the real class: reset, snapshot, call
# ---------------------------------------------------------------------------------------


def _reset(M):
    """the class attributes as they are right after import (= a fresh process)"""
    M.all_rank_matches = {}
    M.collecting = False
    M.fiber_label = {}
    M.iteration = None
    M.line_order = None
    M.loop_order = None
    M.metrics = None
    M.num_cached_uses = 1000
    M.point = None
    M.prefix = None
    M.rank_matches = {}
    M.rank_flatten = {}
    M.traces = {}


_BASE = None


def _scratch():
    """a fresh directory per case below a per-process base (so that nothing another run or another
    process removes can take a case's files away)"""
    global _BASE
    if _BASE is None or not os.path.isdir(_BASE):
        root = os.environ.get("C15_SCRATCH") or os.environ.get("VERIF_SCRATCH") or tempfile.gettempdir()
        os.makedirs(root, exist_ok=True)
        _BASE = tempfile.mkdtemp(prefix=f"ft-c15-{os.getpid()}-", dir=root)
        import atexit
        atexit.register(lambda d=_BASE: shutil.rmtree(d, ignore_errors=True))
    return tempfile.mkdtemp(prefix="case-", dir=_BASE)


def _row(r):
    if r and all(isinstance(x, str) for x in r):
        return {"h": list(r)}
    return [int(x) for x in r]


def _rows(l):
    return None if l is None else [_row(r) for r in l]


def _metrics(m):
    if m is None:
        return None
    return [[line, [[k, v] for k, v in sorted(d.items())]] for line, d in sorted(m.items())]


def _tok(path, d):
    if path is None:
        return None
    return path[len(d) + 1:] if path.startswith(d + os.sep) else path


def _read_file(path):
    rows = []
    with open(path) as f:
        for ln in f.read().splitlines():
            cells = ln.split(",")
            try:
                rows.append([int(x) for x in cells])
            except ValueError:
                rows.append({"h": cells})
    return rows


def _files(d):
    out = []
    for fn in sorted(os.listdir(d)):
        if not fn.endswith(".csv"):
            continue
        parts = fn[:-4].split("-")
        if len(parts) != 3:
            continue
        out.append([parts[0], parts[1], parts[2], _read_file(os.path.join(d, fn))])
    out.sort(key=lambda e: e[0] + "\x00" + e[1] + "\x00" + e[2])
    return out


def _snapshot(M, d):
    traces = []
    for rank, dd in M.traces.items():
        for ty, (ft_, mt, st) in dd.items():
            traces.append([rank, ty, _rows(ft_), _rows(mt), bool(st)])
    traces.sort(key=lambda e: e[0] + "\x00" + e[1])
    return {
        "arm": [[k, sorted(v)] for k, v in sorted(M.all_rank_matches.items())],
        "collecting": bool(M.collecting),
        "fl": [[k, v] for k, v in sorted(M.fiber_label.items())],
        "iteration": None if M.iteration is None else list(M.iteration),
        "lo": None if M.line_order is None else [[k, v] for k, v in sorted(M.line_order.items())],
        "lp": None if M.loop_order is None else list(M.loop_order),
        "metrics": _metrics(M.metrics),
        "ncu": M.num_cached_uses,
        "point": None if M.point is None else list(M.point),
        "pfx": _tok(M.prefix, d),
        "rm": [[k, v] for k, v in sorted(M.rank_matches.items())],
        "rf": sorted(M.rank_flatten.keys()),
        "traces": traces,
        "fs": _files(d),
    }


def _call(M, op, d):
    n = op[0]
    if n == "beginCollect":
        return M.beginCollect(None if op[1] is None else os.path.join(d, op[1]))
    if n == "endCollect":
        return M.endCollect()
    if n == "registerRank":
        return M.registerRank(op[1])
    if n == "addUse":
        return M.addUse(op[1], op[2], op[3], type_=op[4], iteration_num=None if op[5] is None else list(op[5]))
    if n == "incIter":
        return M.incIter(op[1])
    if n == "endIter":
        return M.endIter(op[1])
    if n == "getLabel":
        return M.getLabel(op[1])
    if n == "getIndex":
        return M.getIndex(op[1])
    if n == "getIter":
        r = M.getIter()
        return None if r is None else list(r)
    if n == "incCount":
        return M.incCount(op[1], op[2], op[3])
    if n == "isCollecting":
        return bool(M.isCollecting())
    if n == "isTraced":
        return bool(M.isTraced(op[1], op[2]))
    if n == "matchRanks":
        return M.matchRanks(op[1], op[2])
    if n == "trace":
        return M.trace(op[1], type_=op[2], consumable=op[3])
    if n == "consumeTrace":
        return _rows(M.consumeTrace(op[1], op[2]))
    if n == "setNumCachedUses":
        return M.setNumCachedUses(op[1])
    if n == "associateShape":
        return M.associateShape(op[1], [2, 2])
    if n == "dump":
        return _metrics(M.dump())
    raise ValueError(n)


def _run_ops(M, ops, d):
    """returns (rets, err_at, last good snapshot)"""
    rets, snap = [], _snapshot(M, d)
    for i, op in enumerate(ops):
        try:
            r = _call(M, op, d)
        except (AssertionError, KeyError, TypeError, IndexError, AttributeError):
            return rets, i, snap
        rets.append(r)
        snap = _snapshot(M, d)
    return rets, -1, snap


# ---------------------------------------------------------------------------------------
# generators: api
# ---------------------------------------------------------------------------------------

def _nest_body(rng, ranks, traced_types, depth=0, size=3):
    """the calls of a loop nest over `ranks` (what iterRange does), sprinkled with queries and counters"""
    ops = []
    r = ranks[depth]
    ops.append(["registerRank", r])
    if rng.random() < 0.3:
        ops.append(["getLabel", r])
    for j in range(rng.randrange(0, size + 1)):
        c = rng.randrange(0, 9)
        ty = "iter" if rng.random() < 0.7 else rng.choice(traced_types or ["iter"])
        ops.append(["addUse", r, c, j + rng.randrange(0, 2), ty,
                    None if rng.random() < 0.85 else [rng.randrange(0, 5) for _ in range(rng.randrange(0, 4))]])
        if rng.random() < 0.15:
            ops.append(rng.choice([["isTraced", r, ty], ["getIndex", r], ["getIter"], ["isCollecting"], ["dump"]]))
        if depth + 1 < len(ranks) and rng.random() < 0.8:
            ops += _nest_body(rng, ranks, traced_types, depth + 1, size)
        else:
            for _ in range(rng.randrange(0, 3)):
                ops.append(["incCount", rng.choice(["Compute", " Compute ", "L2"]),
                            rng.choice(["payload_mul", "payload_add", "payload_update"]), rng.choice([1, 1, 2])])
        ops.append(["incIter", r])
    ops.append(["endIter", r])
    return ops


def _structured_session(rng, pfx):
    ranks = rng.sample(RANKS, rng.randrange(1, 4))
    keys = [(r, t) for r in RANKS for t in ["iter", "x"] if rng.random() < 0.45]
    ops = [["beginCollect", pfx]]
    ops += [["trace", r, t, False] for r, t in keys]
    if rng.random() < 0.4:      # a label query before anything is registered (reads fiber_label as the session found it)
        ops.append(["getLabel", rng.choice(RANKS + ["Q", "S"])])
    if rng.random() < 0.8:
        ops += _nest_body(rng, ranks, ["x"])
    ops.append(["endCollect"])
    return ops


def _free_session(rng, pfx, legal=False):
    """anything goes: consumable traces, matched ranks, thresholds, missing endCollect, illegal calls
    (legal=True: the same without the calls that the class rejects)"""
    ops = []
    if rng.random() < 0.3:
        ops.append(["setNumCachedUses", rng.choice([2, 3, 5] if legal else [2, 3, 5, 1, 0])])
    if rng.random() < 0.15:
        ops.append(["matchRanks", rng.choice(RANKS + ["S"]), rng.choice(RANKS + ["S"])])
    ops.append(["beginCollect", pfx if (legal or rng.random() < 0.9) else None])
    cons = []
    # late-match style: every source rank (S, Q) has ONE partner among the loop ranks and sources are never matched
    # with each other, so a closure never holds two registered ranks (the code walks Python sets there: the rank an
    # unmatched source would get depends on the set order)
    late = rng.random() < 0.45
    srcs = ["S", "Q"] if late else ["S"]
    for r in RANKS + srcs:
        for t in ["iter", "x"]:
            u = rng.random()
            if u < 0.3:
                ops.append(["trace", r, t, False])
            elif u < 0.4:
                ops.append(["trace", r, t, True])
                cons.append((r, t))
    ranks = rng.sample(RANKS, rng.randrange(1, 4))
    partner = {x: rng.choice(ranks) for x in srcs}
    if late:
        if rng.random() < 0.3:
            ops.append(["matchRanks", "S", partner["S"]])
    elif rng.random() < 0.25:
        ops.append(["matchRanks", "S", rng.choice(RANKS)])
        if rng.random() < 0.3:
            ops.append(["matchRanks", "S", rng.choice(RANKS)])
    body = _nest_body(rng, ranks, ["x"])
    # matched rank uses, late trace declarations, threshold changes, consumption
    extra = []
    if late:
        for x in srcs:
            for _ in range(rng.choice([1, 1, 2])):      # the match itself, possibly repeated, either way round
                extra.append(["matchRanks", x, partner[x]] if rng.random() < 0.7 else ["matchRanks", partner[x], x])
        if not legal:
            for _ in range(rng.randrange(0, 5)):
                x = rng.choice(srcs)
                extra.append(rng.choice([["addUse", x, rng.randrange(0, 5), rng.randrange(0, 3), rng.choice(["iter", "x"]), None],
                                         ["incIter", x], ["endIter", x], ["getLabel", x], ["getIndex", x],
                                         ["isTraced", x, "iter"]]))
    for _ in range(rng.randrange(0, 4)):
        if legal:
            extra.append(rng.choice([["getLabel", "S"], ["getLabel", "Q"], ["setNumCachedUses", rng.choice([2, 3, 4])],
                                     ["associateShape", rng.choice(RANKS)], ["getIter"], ["isCollecting"]]))
            continue
        extra.append(rng.choice([
            ["addUse", "S", rng.randrange(0, 5), rng.randrange(0, 3), rng.choice(["iter", "x"]), None],
            ["incIter", "S"], ["endIter", "S"], ["getLabel", "S"], ["getLabel", "Q"], ["getIndex", "S"],
            ["trace", rng.choice(RANKS), "iter", rng.random() < 0.3],
            ["setNumCachedUses", rng.choice([2, 3, 4])],
            ["associateShape", rng.choice(RANKS)],
            ["registerRank", rng.choice(RANKS)],
        ]))
    for e in extra:
        body.insert(rng.randrange(0, len(body) + 1), e)
    ops += body
    for r, t in cons:
        if legal or rng.random() < 0.85:
            ops.append(["consumeTrace", r, t])
    end = rng.random()
    if end < 0.8:
        ops.append(["endCollect"])
    elif end < 0.9:
        ops.append(["dump"])
    return ops


ALPHABET = [["registerRank", "K"], ["addUse", "K", 3, 1, "iter", None], ["incIter", "K"], ["endIter", "K"],
            ["incCount", "Compute", "payload_mul", 1], ["getLabel", "K"], ["endCollect"], ["beginCollect", "p0"],
            ["trace", "K", "iter", False], ["setNumCachedUses", 2], ["registerRank", "M"],
            ["matchRanks", "S", "K"], ["addUse", "S", 2, 0, "iter", None]]


def gen_api(rng, tier):
    prelude = [["beginCollect", "p0"], ["trace", "K", "iter", False], ["trace", "S", "iter", False]]
    L = 3 if tier == "quick" else 4
    for n in range(0, L + 1):
        for combo in itertools.product(ALPHABET, repeat=n):
            ops = prelude + [list(o) for o in combo]
            yield {"prop": PROP, "kind": "api", "ops": ops + [["endCollect"]], "sess_start": -1}
    nrand = 1200 if tier == "quick" else 60000
    for i in range(nrand):
        ops = []
        for _ in range(rng.choice([0, 1, 1, 2, 3])):
            pfx = rng.choice(PFX)
            ops += _free_session(rng, pfx) if rng.random() < 0.6 else _structured_session(rng, pfx)
        if rng.random() < 0.75:
            start = len(ops)
            ops += _structured_session(rng, rng.choice(PFX))
            yield {"prop": PROP, "kind": "api", "ops": ops, "sess_start": start}
        else:
            ops += _free_session(rng, rng.choice(PFX))
            if rng.random() < 0.4:      # malformed tail
                ops.append(rng.choice([["incIter", "Z"], ["addUse", "Z", 0, 0, "iter", None], ["endIter", "Z"],
                                       ["consumeTrace", "Z", "iter"], ["trace", "K", "iter", False],
                                       ["incCount", "Compute", "payload_mul", 1], ["registerRank", "K"],
                                       ["getIndex", "Z"], ["setNumCachedUses", 1]]))
            yield {"prop": PROP, "kind": "api", "ops": ops, "sess_start": -1}


# ---------------------------------------------------------------------------------------
# generators: kernels
# ---------------------------------------------------------------------------------------

CLASSIC = [
    (["K"], [], [["K"], ["K"]]),                                # dot product
    (["K"], ["K"], [["K"], ["K"]]),                             # element-wise
    (["K"], ["K"], [["K"]]),                                    # copy / accumulate
    (["K"], [], [["K"]]),                                       # sum
    (["K"], [], [["K"], ["K"], ["K"]]),                         # 3-operand dot
    (["M", "K"], ["M"], [["M", "K"], ["K"]]),                   # mat-vec
    (["K", "M"], ["M"], [["K", "M"], ["K"]]),                   # mat-vec, K outer
    (["M", "K"], ["M"], [["M", "K"]]),                          # row sums
    (["M", "K"], ["K"], [["M", "K"]]),                          # column sums (output revisited)
    (["M", "N"], ["M", "N"], [["M"], ["N"]]),                   # outer product
    (["M", "N"], ["M", "N"], [["M", "N"], ["M", "N"]]),         # element-wise 2-D
    (["M", "K"], [], [["M", "K"], ["M"], ["K"]]),               # bilinear form
]
for _p in itertools.permutations(["M", "K", "N"]):
    _p = list(_p)
    CLASSIC.append((_p, [r for r in _p if r in "MN"], [[r for r in _p if r in "MK"], [r for r in _p if r in "KN"]]))


def _random_shape(rng):
    nv = rng.choice([1, 2, 2, 3, 3])
    loops = rng.sample(RANKS, nv)
    nops = rng.choice([1, 2, 2, 3])
    while True:
        ops = []
        for _ in range(nops):
            sub = [v for v in loops if rng.random() < 0.6]
            if not sub:
                sub = [rng.choice(loops)]
            ops.append(sub)
        if all(any(v in o for o in ops) for v in loops):
            break
    out = [v for v in loops if rng.random() < 0.5]
    return loops, out, ops


def _trace_choice(rng, loops):
    u = rng.random()
    if u < 0.12:
        return []
    if u < 0.35:
        return [[v, "iter"] for v in loops]
    if u < 0.5:
        return [[v, t] for v in RANKS for t in TYPES]
    return [[v, t] for v in RANKS for t in TYPES if rng.random() < 0.3]


def _hist(rng, pfx, names=None):
    names = names or RANKS
    ops = []
    for _ in range(rng.choice([0, 0, 1, 1, 2, 3])):
        p = pfx if rng.random() < 0.7 else rng.choice(PFX)
        if rng.random() < 0.7:
            # an earlier session that traces the same ranks under the same prefix
            s = [["beginCollect", p]]
            if rng.random() < 0.3:
                s.insert(0, ["setNumCachedUses", rng.choice([2, 3, 5])])
            ranks = rng.sample(names, rng.randrange(1, min(3, len(names)) + 1))
            s += [["trace", r, "iter", False] for r in names if rng.random() < 0.7]
            s += _nest_body(rng, ranks, ["iter"])
            if rng.random() < 0.85:
                s.append(["endCollect"])
            ops += s
        else:
            ops += _free_session(rng, p, legal=True)
    return ops


def _mk_kernel(rng, loops, out, opranks, n=None, small=None):
    n = n or rng.choice([2, 3, 4, 4, 3, 2, 3, 12])      # 12: coordinates 9, 10, 11 (string vs numeric order in the files)
    pool = (1, 2, -1, -2, 3, 0)
    ops = []
    for rk in opranks:
        if small is not None:
            t = small.pop(0)
        elif rng.random() < 0.06:
            t = []
        else:
            t = H.gen_tree(rng, len(rk), n, pool, 0, p_absent=(rng.choice([0.5, 0.7]) if n > 4 else rng.choice([0.05, 0.2, 0.4])))
        ops.append({"ranks": rk, "t": t})
    if out and rng.random() < 0.2:
        z = H.gen_tree(rng, len(out), n, pool, 0, p_absent=0.5)
    elif not out and rng.random() < 0.2:
        z = rng.choice([0, 5, -2])
    else:
        z = [] if out else 0
    case = {"prop": PROP, "kind": "kernel", "loops": loops, "out": out, "declared": rng.random() < 0.7,
            "n": n, "z": z, "ops": ops, "traces": _trace_choice(rng, loops), "pfx": rng.choice(PFX)}
    case["hist"] = _hist(rng, case["pfx"])
    # operand shapes: declared exactly, declared larger than needed, or only estimated by the library
    for o in ops:
        o["shape"] = rng.choice(["exact", "exact", "larger", "estimated"])
    case["zshape"] = rng.choice(["exact", "larger"])
    # a format-"U" leaf rank, where the family allows it (its extent: declared, or the estimate = the largest
    # coordinate stored anywhere in that rank + 1)
    if rng.random() < 0.12:
        for o in ops:
            v = o["ranks"][-1]
            if v not in out and sum(1 for o2 in ops if v in o2["ranks"]) == 1 and len(o["ranks"]) >= 1:
                o["ushape"] = _extent(o, n)
                break
    # how the innermost statement is spelled, and how the objects are (re)used
    case["body"] = rng.choice(["iadd", "iadd", "rmul", "add_assign", "radd_assign", "imul"])
    u = rng.random()
    if u < 0.08:
        case["repeat"] = 2
    elif u < 0.16:
        case["pre"] = 1
    elif u < 0.3:
        case["inside"] = 1
    return case


def _leaf_coords(t, depth):
    if depth == 1:
        return [c for c, _ in t]
    return [c for _, s in t for c in _leaf_coords(s, depth - 1)]


def _extent(o, n):
    mode = o.get("shape", "exact")
    if mode == "exact":
        return n
    if mode == "larger":
        return n + 3
    cs = _leaf_coords(o["t"], len(o["ranks"]))
    return (max(cs) + 1) if cs else 0


def gen_kernel(rng, tier):
    # small scope: all pairs of leaf fibers over 2 (quick) / 3 (thorough) coordinates x {absent, 0, 1, -1}
    nn = 2 if tier == "quick" else 3
    fibs = list(H.all_leaf_fibers(nn, [0, 1, -1]))
    k = 0
    for loops, out, opr in [(["K"], [], [["K"], ["K"]]), (["K"], ["K"], [["K"], ["K"]])]:
        for a in fibs:
            for b in fibs:
                k += 1
                c = _mk_kernel(rng, loops, out, opr, n=nn, small=[a, b])
                c["z"] = ([] if out else 0) if k % 3 else ([[0, 1]] if out else 1)
                c["declared"] = bool(k % 2)
                c["hist"] = [] if k % 5 else c["hist"]
                for key in ("repeat", "pre", "inside"):
                    c.pop(key, None)
                for o in c["ops"]:
                    o.pop("ushape", None)
                c["body"] = ["iadd", "rmul", "add_assign", "radd_assign", "imul"][k % 5]
                if k % 7 == 0:
                    c["repeat"] = 2
                yield c
    reps = 16 if tier == "quick" else 1200
    for loops, out, opr in CLASSIC:
        for _ in range(reps):
            yield _mk_kernel(rng, list(loops), list(out), [list(o) for o in opr])
    nrand = 1000 if tier == "quick" else 60000
    for _ in range(nrand):
        loops, out, opr = _random_shape(rng)
        yield _mk_kernel(rng, loops, out, opr)



# ---------------------------------------------------------------------------------------
# programs of the whole C06 family (spec evaluated on the implementation's observations only)
# ---------------------------------------------------------------------------------------

def _k6():
    from harness.props import c06
    return c06


def _scale(t, depth, f):
    if depth == 0:
        return f(t)
    return [[c, _scale(s, depth - 1, f)] for c, s in t]


# "wide": floats of very different magnitude (even values scaled by 2**60), so that a small accumulator is absorbed by a
# large addend (1.0 + 2**61 == 2**61): an add that executes but leaves the sum equal to one operand (seed C15-17)
VALS = {"int": lambda v: v, "float": lambda v: v * 0.5, "bool": lambda v: bool(v),
        "wide": lambda v: float(v) * (2.0 ** 60 if v % 2 == 0 else 1.0)}


def _mk_program(rng, c6):
    K6 = _k6()
    opranks, zranks = K6.plan(c6)
    tiles = c6["tiles"]
    names = [K6.lname(l, tiles) for l in c6["order"]]
    case = {"prop": PROP, "kind": "program", "k6": {k: v for k, v in c6.items() if k != "prop"},
            "ranks": names, "style": c6["style"], "tiled": int(bool(tiles)), "pfx": rng.choice(PFX),
            "zdecl": rng.random() < 0.65, "vals": rng.choice(["int", "int", "int", "float", "float", "bool", "wide"])}
    u = rng.random()
    case["traces"] = ([] if u < 0.1 else [[v, "iter"] for v in names] if u < 0.4 else
                      [[v, t] for v in names for t in TYPES] if u < 0.55 else
                      [[v, t] for v in names for t in TYPES if rng.random() < 0.3])
    case["hist"] = _hist(rng, case["pfx"], names)
    # formats: "U" on any rank of any operand / of the destination
    fmt = []
    if rng.random() < 0.35:
        cands = [[i, K6.lname(l, tiles)] for i, r in enumerate(opranks) for l in r] + [["Z", K6.lname(l, tiles)] for l in zranks]
        for c in cands:
            if rng.random() < 0.35:
                fmt.append(c)
    case["fmtU"] = fmt
    case["nU"] = len(fmt)
    # a one-rank untiled operand handed over as a bare (unowned) fiber that carries its own rank attributes
    case["bare"] = 0
    if rng.random() < 0.15:
        for i, op in enumerate(c6["ops"]):
            if len(op["ranks"]) == 1 and not any(v == op["ranks"][0] for v, _ in tiles):
                case["bare"], case["bare_op"] = 1, i
                break
    # ranks walked densely: the loop's only source is one operand in format "U", and it is not an output rank
    solo = []
    pos = [0] * len(opranks)
    for l in c6["order"]:
        parts = [i for i in range(len(opranks)) if pos[i] < len(opranks[i]) and opranks[i][pos[i]] == l]
        nm = K6.lname(l, tiles)
        if len(parts) == 1 and l not in zranks and [parts[0], nm] in fmt:
            solo.append(nm)
        for i in parts:
            pos[i] += 1
    case["solo_u"] = solo
    u = rng.random()
    if u < 0.08:
        case["repeat"] = 2
    elif u < 0.16:
        case["pre"] = 1
    elif u < 0.3:
        case["inside"] = 1
    return case


def gen_program(rng, seed, tier):
    K6 = _k6()
    base = [c for c in K6.gen(seed, "quick") if K6.well_formed(c)]
    want = 600 if tier == "quick" else 30000
    stride = max(1, len(base) // want)
    for c6 in base[rng.randrange(stride)::stride]:
        yield _mk_program(rng, c6)


class _Bare:
    def __init__(self, f):
        self.f = f

    def getRoot(self):
        return self.f


class _ProgramRunner:
    @staticmethod
    def build_ops(case):
        K6, ft = _k6(), H.ft()
        c6 = case["k6"]
        n, tiles = c6["n"], c6["tiles"]
        opranks, _ = K6.plan(c6)
        f = VALS[case["vals"]]
        tensors = []
        for i, (op, target) in enumerate(zip(c6["ops"], opranks)):
            d = len(op["ranks"])
            fib = H.build_fiber(_vals_tree(op["t"], d, f), d, 0)
            if case.get("bare") and case.get("bare_op") == i:
                fib.getRankAttrs().setId(K6.lname(target[0], tiles))
                if c6.get("declared", True):
                    fib.getRankAttrs().setShape(n)
                if [i, K6.lname(target[0], tiles)] in case["fmtU"]:
                    fib.getRankAttrs().setFormat("U")
                tensors.append(_Bare(fib))
                continue
            kw = {"shape": [n] * d} if c6.get("declared", True) else {}
            T = ft.Tensor.fromFiber(rank_ids=[str(v) for v in op["ranks"]], fiber=fib, default=0, **kw)
            for v, step in tiles:
                if v in op["ranks"]:
                    T = T.splitUniform(step, rankid=str(v))
            T = T.swizzleRanks([K6.lname(l, tiles) for l in target])
            for who, nm in case["fmtU"]:
                if who == i:
                    T.setFormat(nm, "U")
            tensors.append(T)
        return tensors

    @staticmethod
    def new_z(case, pre=False):
        K6, ft = _k6(), H.ft()
        c6 = case["k6"]
        _, zranks = K6.plan(c6)
        ids = [K6.lname(l, c6["tiles"]) for l in zranks]
        if (pre or case["zdecl"]) and ids:
            Z = ft.Tensor(rank_ids=ids, shape=[c6["n"]] * len(ids), default=0)
        else:
            Z = ft.Tensor(rank_ids=ids, default=0)
        for who, nm in case["fmtU"]:
            if who == "Z":
                Z.setFormat(nm, "U")
        return Z

    @staticmethod
    def execute(case, ops, z, bodies):
        K6, ft = _k6(), H.ft()
        c6 = case["k6"]
        src = case.get("_src")
        if src is None:
            lines = []
            for ln in K6.render(c6).split("\n"):
                lines.append(ln)
                st = ln.lstrip()
                if st.startswith("for c"):
                    l = int(st[5:st.index(",")])
                    nm = K6.lname(l, c6["tiles"])
                    lines.append(" " * (len(ln) - len(st) + 4) + f"B[{nm!r}] = B.get({nm!r}, 0) + 1")
            src = case["_src"] = "\n".join(lines)
        env = {"Fiber": ft.Fiber, "Payload": ft.Payload, "B": bodies}
        exec(compile(src, "<kernel>", "exec"), env)
        env["kernel"](z, *ops)


def _vals_tree(t, depth, f):
    if depth == 1:
        return [[c, f(v)] for c, v in t]
    return [[c, _vals_tree(s, depth - 1, f)] for c, s in t]


def run_program(case):
    case = _run_measured(case, _ProgramRunner)
    case.pop("_src", None)
    return case


# ---------------------------------------------------------------------------------------
# chunked accumulate: populate with the start_pos shortcut, fed from getSavedPos()
# ---------------------------------------------------------------------------------------

def _mk_chunked(rng, small=None):
    depth = rng.choice([1, 1, 2])
    n = rng.choice([4, 6, 8, 12])
    names = ["M", "N"][:depth]
    pool = (1, 2, -1, 3)
    if small is not None:
        depth, n, z, chunks = small
        names = ["M"]
    else:
        # the output already holds elements (so that a chunk can insert below its maximum), sometimes an explicit zero
        z = H.gen_tree(rng, depth, n, pool + (0,), 0, p_absent=rng.choice([0.3, 0.5, 0.8]), p_emptysub=0.05, p_alldefault=0.0)
        if depth == 2:
            z = [[c, [[c2, v] for c2, v in sub]] for c, sub in z]
        a = H.gen_tree(rng, depth, n, pool, 0, p_absent=rng.choice([0.3, 0.5]), p_default=0.05, p_emptysub=0.0,
                       p_alldefault=0.0)
        k = rng.choice([1, 2, 3, 4])
        cuts = sorted(rng.sample(range(1, n), min(k - 1, n - 1)))
        bounds = [0] + cuts + [n]
        chunks = [[e for e in a if lo <= e[0] < hi] for lo, hi in zip(bounds, bounds[1:])]
    case = {"prop": PROP, "kind": "chunked", "style": "chunked", "depth": depth, "n": n, "z": z, "chunks": chunks,
            "first_pos": rng.choice([0, 0, 0, None]), "zdecl": rng.random() < 0.8, "ranks": names,
            "pfx": rng.choice(PFX), "fmtU": [], "nU": 0, "solo_u": [], "vals": "int", "tiled": 0, "bare": 0}
    u = rng.random()
    case["traces"] = ([] if u < 0.1 else [[v, "iter"] for v in names] if u < 0.25 else
                      [[v, t] for v in names for t in TYPES] if u < 0.5 else
                      [[v, t] for v in names for t in TYPES if rng.random() < 0.4])
    case["hist"] = _hist(rng, case["pfx"], names) if rng.random() < 0.4 else []
    return case


def gen_chunked(rng, tier):
    # small scope: every output over 4 coordinates x {absent, 1}, every source over 4 coordinates cut in two chunks at
    # every boundary, with the write trace of the output on
    fibs = list(H.all_leaf_fibers(4, [1]))
    k = 0
    for z in fibs:
        for a in fibs:
            for cut in ((1, 2, 3) if tier != "quick" else (2,)):
                k += 1
                c = _mk_chunked(rng, small=(1, 4, z, [[e for e in a if e[0] < cut], [e for e in a if e[0] >= cut]]))
                c["first_pos"], c["zdecl"], c["hist"] = 0, True, []
                c["traces"] = [["M", "populate_write_0"]] if k % 2 else [["M", t] for t in TYPES]
                yield c
    for _ in range(350 if tier == "quick" else 20000):
        yield _mk_chunked(rng)


class _ChunkRunner:
    @staticmethod
    def build_ops(case):
        ft = H.ft()
        d, n = case["depth"], case["n"]
        return [ft.Tensor.fromFiber(rank_ids=case["ranks"], fiber=H.build_fiber(t, d, 0), shape=[n] * d)
                for t in case["chunks"]]

    @staticmethod
    def new_z(case, pre=False):
        ft = H.ft()
        d, n = case["depth"], case["n"]
        kw = {"shape": [n] * d} if (case["zdecl"] or pre) else {}
        if case["z"] and not pre:
            return ft.Tensor.fromFiber(rank_ids=case["ranks"], fiber=H.build_fiber(case["z"], d, 0), **kw)
        return ft.Tensor(rank_ids=case["ranks"], **kw)

    @staticmethod
    def execute(case, ops, z, bodies):
        z_m = z.getRoot()
        pos = case["first_pos"]
        chained = pos is not None       # without start_pos the saved position is not the operator's to keep: not read back
        saved = []
        if chained:
            z._c15_positions = saved
        for chunk in ops:
            a_m = chunk.getRoot()
            for _m, (z_ref, a_val) in z_m.__lshift__(a_m, start_pos=pos):
                bodies["M"] = bodies.get("M", 0) + 1
                if case["depth"] == 1:
                    z_ref += a_val
                else:
                    for _n, (z_ref2, a_val2) in z_ref << a_val:
                        bodies["N"] = bodies.get("N", 0) + 1
                        z_ref2 += a_val2
            if chained:
                pos = z_m.getSavedPos()
                saved.append(pos)


def run_chunked(case):
    return _run_measured(case, _ChunkRunner)


# ---------------------------------------------------------------------------------------
# assignment / selection kernels under ANY default (copy, intersections, project): transparency does not
# need a sum-of-products meaning
# ---------------------------------------------------------------------------------------

ASSIGN_SHAPES = ["copy1", "copy2", "and1", "tf1", "lf1", "proj1", "projiter", "and0", "lf0"]
PTYPES = TYPES + ["project_0", "project_1", "project_2"]


def _mk_assign(rng, shape=None, dflt=None):
    shape = shape or rng.choice(ASSIGN_SHAPES)
    dflt = rng.choice([7, 7, -1, 0]) if dflt is None else dflt
    n = rng.choice([3, 4, 6])
    depth = 2 if shape == "copy2" else 1
    # stored genuine zeros (a value like any other under a non-zero default) outnumber the explicit defaults
    pool = (0, 0, 0, 1, 2, -3, dflt)
    nops = 2 if shape in ("and1", "tf1", "lf1", "and0", "lf0") else 1
    trees = [H.gen_tree(rng, depth, n, pool, dflt, p_absent=rng.choice([0.1, 0.3, 0.5]), p_default=0.1,
                        p_emptysub=0.1, p_alldefault=0.05) for _ in range(nops)]
    proj = shape in ("proj1", "projiter")
    off = rng.choice([0, 1, 2]) if proj else 0
    loop = ["W"] if proj else (["M", "N"][:depth])
    src = ["K"] if proj else loop
    names = sorted(set(loop + src))
    has_z = shape not in ("projiter", "and0", "lf0")
    z = H.gen_tree(rng, depth, n + off, pool, dflt, p_absent=0.6) if (has_z and rng.random() < 0.3) else []
    case = {"prop": PROP, "kind": "assign", "style": "assign-" + shape, "shape": shape, "dflt": dflt, "n": n, "off": off,
            "depth": depth, "trees": trees, "z": z, "zdecl": rng.random() < 0.8, "ranks": loop, "src_ranks": src,
            "pfx": rng.choice(PFX), "fmtU": [], "nU": 0, "solo_u": [], "vals": "int", "tiled": 0, "bare": 0}
    u = rng.random()
    case["traces"] = ([] if u < 0.08 else [[v, "iter"] for v in names] if u < 0.2 else
                      [[v, t] for v in names for t in PTYPES] if u < 0.5 else
                      [[v, t] for v in names for t in PTYPES if rng.random() < 0.4])
    case["hist"] = _hist(rng, case["pfx"], names) if rng.random() < 0.3 else []
    u = rng.random()
    if u < 0.08:
        case["repeat"] = 2
    elif u < 0.16:
        case["inside"] = 1
    return case


def gen_assign(rng, tier):
    # small scope: every leaf fiber over 3 coordinates x {absent, stored 0, explicit default 7, value 1} under default 7,
    # with every position-carrying trace on
    fibs = list(H.all_leaf_fibers(3, [0, 7, 1]))
    k = 0
    for shape in ("copy1", "proj1", "lf1", "and1"):
        for a in fibs:
            for b in (fibs[:: (16 if tier == "quick" else 1)] if shape in ("lf1", "and1") else [None]):
                k += 1
                c = _mk_assign(rng, shape, 7)
                c["n"], c["trees"], c["z"], c["hist"], c["zdecl"] = 3, ([a] if b is None else [a, b]), [], [], True
                c.pop("repeat", None)
                c["traces"] = [[v, t] for v in sorted(set(c["ranks"] + c["src_ranks"])) for t in PTYPES]
                yield c
    for _ in range(450 if tier == "quick" else 20000):
        yield _mk_assign(rng)


class _AssignRunner:
    @staticmethod
    def build_ops(case):
        ft = H.ft()
        d, n, dflt = case["depth"], case["n"], case["dflt"]
        ids = case["src_ranks"] if case["shape"] in ("proj1", "projiter") else case["ranks"]
        return [ft.Tensor.fromFiber(rank_ids=list(ids), fiber=H.build_fiber(t, d, dflt), shape=[n] * d, default=dflt)
                for t in case["trees"]]

    @staticmethod
    def new_z(case, pre=False):
        ft = H.ft()
        d, n, dflt = case["depth"], case["n"] + case["off"], case["dflt"]
        kw = {"shape": [n] * d} if (case["zdecl"] or pre) else {}
        if case["z"] and not pre:
            return ft.Tensor.fromFiber(rank_ids=list(case["ranks"]), fiber=H.build_fiber(case["z"], d, dflt),
                                       default=dflt, **kw)
        return ft.Tensor(rank_ids=list(case["ranks"]), default=dflt, **kw)

    @staticmethod
    def execute(case, ops, z, bodies):
        ft = H.ft()
        shape, off = case["shape"], case["off"]
        z_m = z.getRoot()
        a_m = ops[0].getRoot()
        seen = []
        z._c15_extra = {"yielded": seen}

        def hit(r):
            bodies[r] = bodies.get(r, 0) + 1

        if shape == "copy1":
            for _m, (z_ref, a_val) in z_m << a_m:
                hit("M")
                z_ref <<= a_val
        elif shape == "copy2":
            for _m, (z_n, a_n) in z_m << a_m:
                hit("M")
                for _n, (z_ref, a_val) in z_n << a_n:
                    hit("N")
                    z_ref <<= a_val
        elif shape in ("and1", "tf1", "lf1"):
            b_m = ops[1].getRoot()
            src = (a_m & b_m) if shape == "and1" else ft.Fiber.intersection(
                a_m, b_m, style="two-finger" if shape == "tf1" else "leader-follower")
            for _m, (z_ref, (a_val, b_val)) in z_m << src:
                hit("M")
                z_ref <<= a_val
                seen.append([_m, H.snapshot(b_val)])
        elif shape in ("and0", "lf0"):
            b_m = ops[1].getRoot()
            src = (a_m & b_m) if shape == "and0" else ft.Fiber.intersection(a_m, b_m, style="leader-follower")
            for _m, (a_val, b_val) in src:
                hit("M")
                seen.append([_m, H.snapshot(a_val), H.snapshot(b_val)])
        elif shape == "proj1":
            for _w, (z_ref, a_val) in z_m << a_m.project(trans_fn=lambda k: k + off, rank_id="W"):
                hit("W")
                z_ref <<= a_val
        else:       # projiter
            for _w, a_val in a_m.project(trans_fn=lambda k: k + off, rank_id="W"):
                hit("W")
                seen.append([_w, H.snapshot(a_val)])


def run_assign(case):
    return _run_measured(case, _AssignRunner)


# ---------------------------------------------------------------------------------------
# kernels that reach the output through references (getPayloadRef) instead of populate
# ---------------------------------------------------------------------------------------

REF_SHAPES = {   # name: (operand rank lists, output ranks)
    "mv": ([["M", "K"], ["K"]], ["M"]),          # z_ref = z_m.getPayloadRef(m) fetched once per row
    "ew": ([["M"], ["M"]], ["M"]),
    "copy": ([["M"]], ["M"]),
    "mm": ([["M", "K"], ["K", "N"]], ["M", "N"]),    # z_m.getPayloadRef(m, n) in the innermost loop
    "mm2": ([["M", "K"], ["K", "N"]], ["M", "N"]),   # z_n = z_m.getPayloadRef(m), then z_n.getPayloadRef(n)
}


def _mk_ref(rng, shape=None):
    shape = shape or rng.choice(list(REF_SHAPES))
    opr, out = REF_SHAPES[shape]
    n = rng.choice([2, 3, 4])
    pool = (1, 2, -1, 3, 0)
    trees = [H.gen_tree(rng, len(r), n, pool, 0, p_absent=rng.choice([0.1, 0.3, 0.5])) for r in opr]
    names = ["M", "K", "N"]
    case = {"prop": PROP, "kind": "ref", "style": "ref-" + shape, "shape": shape, "n": n, "trees": trees,
            "z": H.gen_tree(rng, len(out), n, pool, 0, p_absent=0.6) if rng.random() < 0.3 else [],
            "zdecl": rng.random() < 0.7, "ranks": names, "out": out,
            "pfx": rng.choice(PFX), "fmtU": [], "nU": 0, "solo_u": [], "vals": "int", "tiled": 0, "bare": 0}
    u = rng.random()
    case["traces"] = ([] if u < 0.08 else [[v, "iter"] for v in names] if u < 0.45 else
                      [[v, t] for v in names for t in TYPES] if u < 0.6 else
                      [[v, t] for v in names for t in TYPES if rng.random() < 0.4])
    case["hist"] = _hist(rng, case["pfx"], names) if rng.random() < 0.3 else []
    u = rng.random()
    if u < 0.08:
        case["repeat"] = 2
    elif u < 0.16:
        case["inside"] = 1
    return case


def gen_ref(rng, tier):
    # small scope: every pair of leaf fibers over 3 coordinates x {absent, 0, 1} for the element-wise kernel, every fiber for copy
    fibs = list(H.all_leaf_fibers(3, [0, 1]))
    for a in fibs:
        for b in fibs[:: (3 if tier == "quick" else 1)]:
            c = _mk_ref(rng, "ew")
            c["n"], c["trees"], c["z"], c["hist"] = 3, [a, b], [], []
            c["traces"] = [["M", "iter"]]
            c.pop("repeat", None)
            yield c
    for _ in range(300 if tier == "quick" else 15000):
        yield _mk_ref(rng)


class _RefRunner:
    @staticmethod
    def build_ops(case):
        ft = H.ft()
        n = case["n"]
        opr, _ = REF_SHAPES[case["shape"]]
        return [ft.Tensor.fromFiber(rank_ids=list(r), fiber=H.build_fiber(t, len(r), 0), shape=[n] * len(r))
                for r, t in zip(opr, case["trees"])]

    @staticmethod
    def new_z(case, pre=False):
        ft = H.ft()
        out, n = case["out"], case["n"]
        kw = {"shape": [n] * len(out)} if (case["zdecl"] or pre) else {}
        if case["z"] and not pre:
            return ft.Tensor.fromFiber(rank_ids=list(out), fiber=H.build_fiber(case["z"], len(out), 0), **kw)
        return ft.Tensor(rank_ids=list(out), **kw)

    @staticmethod
    def execute(case, ops, z, bodies):
        shape = case["shape"]
        z_m = z.getRoot()

        def hit(r):
            bodies[r] = bodies.get(r, 0) + 1

        if shape == "mv":
            a_m, b_k = ops[0].getRoot(), ops[1].getRoot()
            for m, a_k in a_m:
                hit("M")
                z_ref = z_m.getPayloadRef(m)
                for _k, (a_val, b_val) in a_k & b_k:
                    hit("K")
                    z_ref += a_val * b_val
        elif shape == "ew":
            for m, (a_val, b_val) in ops[0].getRoot() & ops[1].getRoot():
                hit("M")
                z_ref = z_m.getPayloadRef(m)
                z_ref += a_val * b_val
        elif shape == "copy":
            for m, a_val in ops[0].getRoot():
                hit("M")
                z_ref = z_m.getPayloadRef(m)
                z_ref <<= a_val
        else:
            a_m, b_k = ops[0].getRoot(), ops[1].getRoot()
            for m, a_k in a_m:
                hit("M")
                z_n = z_m.getPayloadRef(m) if shape == "mm2" else None
                for _k, (a_val, b_n) in a_k & b_k:
                    hit("K")
                    for n_, b_val in b_n:
                        hit("N")
                        z_ref = z_n.getPayloadRef(n_) if shape == "mm2" else z_m.getPayloadRef(m, n_)
                        z_ref += a_val * b_val


def run_ref(case):
    return _run_measured(case, _RefRunner)


def gen(seed, tier):
    rng = random.Random(seed)
    yield from gen_api(rng, tier)
    rng = random.Random(seed + 1)
    yield from gen_kernel(rng, tier)
    rng = random.Random(seed + 2)
    yield from gen_program(rng, seed, tier)
    rng = random.Random(seed + 3)
    yield from gen_chunked(rng, tier)
    rng = random.Random(seed + 4)
    yield from gen_assign(rng, tier)
    rng = random.Random(seed + 5)
    yield from gen_ref(rng, tier)


# ---------------------------------------------------------------------------------------
# running the real code
# ---------------------------------------------------------------------------------------

def _flat(vals, n):
    out = []
    for _ in range(n - 1):
        vals, last = vals
        out.append(last)
    out.append(vals)
    return list(reversed(out))


def _leaf_stmt(body, zc, vals):
    """z_ref += a * b * ... in its different spellings (different Payload operators, same value)"""
    P = H.ft().Payload
    if body == "imul":
        t = P(vals[0].value)
        for v in vals[1:]:
            t *= v
        zc += t
        return
    prod = vals[0].value if body == "rmul" else vals[0]
    for v in vals[1:]:
        prod = prod * v                     # plain * Payload -> __rmul__, Payload * Payload -> __mul__
    if body == "add_assign":
        zc <<= zc + prod                    # __add__, __ilshift__
    elif body == "radd_assign":
        zc <<= P.get(prod) + zc             # plain + Payload -> __radd__, __ilshift__
    else:
        zc += prod


def _kernel(loops, out, z, ops, bodies, body="iadd"):
    """the HiFiber loop nest: z_v << (a_v & b_v ...) on output ranks, a_v & b_v ... on reduced ones"""
    def level(i, zr, zc, ops):
        if i == len(loops):
            _leaf_stmt(body, zc, [o[1] for o in ops])
            return
        v = loops[i]
        parts = [k for k, o in enumerate(ops) if o[0] and o[0][0] == v]
        src = ops[parts[0]][1]
        for k in parts[1:]:
            src = src & ops[k][1]
        n = len(parts)
        if zr and zr[0] == v:
            for _c, (znext, vals) in zc << src:
                bodies[v] = bodies.get(v, 0) + 1
                ch = _flat(vals, n) if n > 1 else [vals]
                nops = list(ops)
                for k, p in zip(parts, ch):
                    nops[k] = [ops[k][0][1:], p]
                level(i + 1, zr[1:], znext, nops)
        else:
            for _c, vals in src:
                bodies[v] = bodies.get(v, 0) + 1
                ch = _flat(vals, n) if n > 1 else [vals]
                nops = list(ops)
                for k, p in zip(parts, ch):
                    nops[k] = [ops[k][0][1:], p]
                level(i + 1, zr, zc, nops)
    level(0, out, z, ops)


def _shape_of(mode, n, d):
    return None if mode == "estimated" else [n + (3 if mode == "larger" else 0)] * d


class _KernelRunner:
    """the model-backed loop nests"""

    @staticmethod
    def build_ops(case):
        ft = H.ft()
        n = case["n"]
        ops = []
        for o in case["ops"]:
            rk = o["ranks"]
            kw = {}
            sh = _shape_of(o.get("shape", "exact"), n, len(rk))
            if sh is not None:
                kw["shape"] = sh
            t = ft.Tensor.fromFiber(rank_ids=list(rk), fiber=H.build_fiber(o["t"], len(rk), 0), **kw)
            if o.get("ushape") is not None:
                t.setFormat(rk[-1], "U")
            ops.append([list(rk), t.getRoot()])
        return ops

    @staticmethod
    def new_z(case, pre=False):
        ft = H.ft()
        n, out = case["n"], case["out"]
        declared = True if pre else case["declared"]
        shape = _shape_of(case.get("zshape", "exact"), n, len(out)) if declared else None
        tree = None if pre else case["z"]
        if not out:
            z = ft.Tensor(rank_ids=[])
            if tree:
                z.getRoot().value = tree        # no Payload operator: nothing to count
        elif tree:
            z = ft.Tensor.fromFiber(rank_ids=list(out), fiber=H.build_fiber(tree, len(out), 0), shape=shape)
        else:
            z = ft.Tensor(rank_ids=list(out), shape=shape) if shape else ft.Tensor(rank_ids=list(out))
        return z

    @staticmethod
    def execute(case, ops, z, bodies):
        _kernel(case["loops"], case["out"], z.getRoot(), ops, bodies, case.get("body", "iadd"))


class _Wrap:
    """independent count of the payload operators that run (not via Metrics)"""
    NAMES = ["__mul__", "__rmul__", "__imul__", "__add__", "__radd__", "__iadd__", "__ilshift__"]

    def __init__(self):
        self.P = H.ft().Payload
        self.n = {"mul": 0, "add": 0, "update": 0}
        self.saved = {}

    def __enter__(self):
        P, n = self.P, self.n
        for name in self.NAMES:
            self.saved[name] = P.__dict__[name]
        sv = self.saved

        def mk(name, kinds):
            orig = sv[name]

            def f(self_, other):
                for k in kinds:
                    n[k] += 1
                return orig(self_, other)
            return f

        def iadd(self_, other):
            n["update"] += 1
            if self_.value != 0:
                n["add"] += 1
            return sv["__iadd__"](self_, other)
        P.__mul__ = mk("__mul__", ["mul"])
        P.__rmul__ = mk("__rmul__", ["mul"])
        P.__imul__ = mk("__imul__", ["mul", "update"])
        P.__add__ = mk("__add__", ["add"])
        P.__radd__ = mk("__radd__", ["add"])
        P.__ilshift__ = mk("__ilshift__", ["update"])
        P.__iadd__ = iadd
        return self

    def __exit__(self, *a):
        for name, f in self.saved.items():
            setattr(self.P, name, f)


def _numiters(path):
    """Compute.numIters (imported lazily: fibertree.model pulls in the whole package)"""
    import importlib
    C = importlib.import_module("fibertree.model.compute").Compute
    return C.numIters(path)


def _attrs(z):
    """what else a result tensor says about itself: rank ids, shape, default, per-rank format"""
    try:
        ids = z.getRankIds()
        return {"ids": ids, "shape": z.getShape(), "default": H._val(H.ft().Payload.get(z.getDefault())),
                "fmt": [z.getFormat(r) for r in ids]}
    except Exception as e:
        return {"err": type(e).__name__}


def _err_info(e):
    import traceback
    tb = traceback.extract_tb(e.__traceback__)
    line = (tb[-1].line or "") if tb else ""
    return type(e).__name__, f"{type(e).__name__}: {line.strip()}"[:160]


def _session(case, R, d, collect, with_pre):
    """one measured run of the kernel; collect=True: inside beginCollect(prefix) ... endCollect()"""
    M = H.ft().Metrics
    obs, bodies = {}, {}
    pfx = os.path.join(d, case["pfx"]) if d else None
    inside = bool(case.get("inside")) and not case.get("pre")
    ops = None if inside else R.build_ops(case)

    def open_():
        if collect:
            M.beginCollect(pfx)
            for r, t in case["traces"]:
                M.trace(r, type_=t)

    if with_pre and case.get("pre"):        # an earlier session of the same kernel on the same operand objects
        open_()
        try:
            R.execute(case, ops, R.new_z(case, pre=True), {})
        except Exception as e:
            obs["pre_err"] = type(e).__name__
        if collect:
            try:
                M.endCollect()
            except Exception as e:
                obs["pre_err"] = type(e).__name__
    open_()
    if inside:
        ops = R.build_ops(case)              # operands (and the output) built inside the bracket
    z = R.new_z(case)
    w = _Wrap()
    with w:
        try:
            for _ in range(case.get("repeat", 1)):
                R.execute(case, ops, z, bodies)
            obs["res"] = H.snapshot(z.getRoot())
            obs["attrs"] = _attrs(z)
            if hasattr(z, "_c15_positions"):        # the saved positions the kernel read back (chunked accumulate)
                obs["res"] = {"z": obs["res"], "saved_pos": list(z._c15_positions)}
            if hasattr(z, "_c15_extra"):            # what a kernel without an output tensor delivered
                obs["res"] = dict({"z": obs["res"]}, **z._c15_extra)
            obs["ops_after"] = [H.snapshot(o.getRoot()) if hasattr(o, "getRoot") else H.snapshot(o[1]) for o in ops]
        except Exception as e:  # an abort is an observation
            name, line = _err_info(e)
            obs["res"] = {"err": name}
            obs["err_line"] = line
    if collect:
        try:
            M.endCollect()
        except Exception as e:
            obs["end_err"] = type(e).__name__
        dump = M.dump() or {}
        comp = dump.get("Compute", {})
        obs["dump"] = {"mul": comp.get("payload_mul", 0), "add": comp.get("payload_add", 0),
                       "update": comp.get("payload_update", 0)}
        obs["lines"] = sorted(dump.keys())
        obs["iters"] = {}
        obs["files"] = []
        for r, t in case["traces"]:
            path = f"{pfx}-{r}-{t}.csv"
            rows = _read_file(path) if os.path.exists(path) else None
            obs["files"].append([r, t, rows])
            if t == "iter":
                obs["iters"][r] = _numiters(path) if os.path.exists(path) else -1
    obs["wrap"] = dict(w.n)
    obs["bodies"] = bodies
    return obs


def _run_measured(case, R):
    M = H.ft().Metrics
    side = {}
    _reset(M)
    off = _session(case, R, None, False, True)
    side["metrics_untouched_when_off"] = M.metrics is None and M.collecting is False and M.traces == {}
    d = _scratch()
    try:
        _rets, herr, _snap = _run_ops(M, case["hist"], d)
        on = _session(case, R, d, True, True)
    finally:
        shutil.rmtree(d, ignore_errors=True)
    _reset(M)
    d2 = _scratch()
    try:
        fresh = _session(case, R, d2, True, False)
    finally:
        shutil.rmtree(d2, ignore_errors=True)
    _reset(M)
    obs = {"off": off["res"], "on": on["res"], "dump": on["dump"], "wrap": on["wrap"], "bodies": on["bodies"],
           "iters": on["iters"], "files": on["files"], "lines": on["lines"], "hist_err": herr,
           "err_line": on.get("err_line", ""),
           "fresh": {"dump": fresh["dump"], "files": fresh["files"], "on": fresh["res"]}}
    for o, nm in ((on, "on"), (off, "off")):
        if "pre_err" in o:
            side[f"earlier_session_of_the_kernel_ok({nm}):" + o["pre_err"]] = False
    if "end_err" in on:
        side["endCollect_ok:" + on["end_err"]] = False
    side["only_Compute_line"] = on["lines"] in ([], ["Compute"])
    side["earlier_sessions_ran"] = herr < 0
    if "attrs" in on and "attrs" in off:
        side["same_output_attributes_off_and_on"] = on["attrs"] == off["attrs"]
        side["same_operands_left_behind_off_and_on"] = on["ops_after"] == off["ops_after"]
        side["fresh_process_same_result"] = fresh.get("res") == on["res"] and fresh.get("attrs") == on["attrs"]
    side["same_operators_off_and_on"] = off["wrap"] == on["wrap"] or "err" in str(on["res"])[:8] or "err" in str(off["res"])[:8]
    side["same_loop_bodies_off_and_on"] = off["bodies"] == on["bodies"] or "err" in str(on["res"])[:8] or "err" in str(off["res"])[:8]
    case["impl"] = obs
    case["side"] = side
    return case


def run_kernel(case):
    return _run_measured(case, _KernelRunner)


def run_api(case):
    M = H.ft().Metrics
    _reset(M)
    d = _scratch()
    try:
        rets, err, snap = _run_ops(M, case["ops"], d)
    finally:
        shutil.rmtree(d, ignore_errors=True)
    impl = {"rets": rets, "err_at": err, "state": snap}
    if case.get("sess_start", -1) >= 0:
        _reset(M)
        d2 = _scratch()
        try:
            r2, e2, s2 = _run_ops(M, case["ops"][case["sess_start"]:], d2)
        finally:
            shutil.rmtree(d2, ignore_errors=True)
        impl["fresh"] = {"rets": r2, "err_at": e2, "state": s2}
    _reset(M)
    case["impl"] = impl
    return case


def run(case):
    if case["kind"] == "api":
        return run_api(case)
    if case["kind"] == "chunked":
        return run_chunked(case)
    if case["kind"] == "assign":
        return run_assign(case)
    if case["kind"] == "ref":
        return run_ref(case)
    return run_program(case) if case["kind"] == "program" else run_kernel(case)


def nontrivial(case, verdict):
    t = set(verdict.get("tags", []))
    if "OUT_OF_MODEL" in t:
        return False
    if case["kind"] == "api":
        return "session" in t and bool(t & {"started", "history", "rejected", "never-started"})
    if case["kind"] in ("program", "chunked"):
        return "effectual" in t
    if case["kind"] in ("assign", "ref"):
        return "ran-bodies" in t
    return bool(t & {"mul", "add", "traced-iterated", "revisit"})


# failure classes that exist on the unchanged tree (known_findings.json); a case that fails for one of
# these AND for another reason is reported under the other reason, so a finding never masks a new failure
DOCUMENTED = ("transparent:insertion-write-trace-needs-declared-output-shape",
              "numIters:format-U-rank-has-no-iter-rows")
STALE = "isolation:stale-trace-file-of-never-registered-rank"      # repaired: a failure again if it comes back


def _classes(why):
    out = []
    for clause in why.split(";"):
        c = clause.strip()
        if not c or "model" in c.split(":")[0] and "impl" in c:
            continue
        if "insert_pos is not None" in c:
            out.append(DOCUMENTED[0])
        elif "stale rows" in c:
            out.append(STALE)
        elif "format-U rank" in c:
            out.append(DOCUMENTED[1])
        else:
            for key in ("transparent", "exact", "numIters", "isolation", "dump()", "session returns",
                        "class attributes after", "kernel fails with collection off"):
                if c.startswith(key):
                    out.append(key.replace(" ", "-"))
                    break
    return out


def signature(case, verdict, failed):
    kind = "kernel" if case["kind"] in ("program", "chunked", "assign", "ref") else case["kind"]      # programs are kernels: same finding classes
    cls = _classes(verdict.get("why", "")) if "spec" in failed else []
    sides = sorted(f.split(":")[0] for f in failed if f != "spec")
    new = [c for c in cls if c not in DOCUMENTED] + sides
    if new:
        return f"{kind}:{'/'.join(sorted(set(new)))}"
    if cls:
        return f"{kind}:{cls[0]}"
    return f"{kind}:{'/'.join(sorted(f.split(':')[0] for f in failed))}"


def _tree_shrinks(t):
    if not isinstance(t, list):
        return
    for i in range(len(t)):
        yield t[:i] + t[i + 1:]
    for i, e in enumerate(t):
        if isinstance(e, list) and len(e) == 2 and isinstance(e[1], list):
            for s2 in _tree_shrinks(e[1]):
                yield t[:i] + [[e[0], s2]] + t[i + 1:]


def shrink_candidates(case):
    if case["kind"] == "api":
        ops = case["ops"]
        ss = case.get("sess_start", -1)
        for i in range(len(ops)):
            c = dict(case)
            c["ops"] = ops[:i] + ops[i + 1:]
            if ss >= 0:
                if i == ss:
                    continue
                c["sess_start"] = ss - 1 if i < ss else ss
            yield c
        return
    if case["hist"]:
        c = dict(case)
        c["hist"] = []
        yield c
        for i in range(len(case["hist"])):
            c = dict(case)
            c["hist"] = case["hist"][:i] + case["hist"][i + 1:]
            yield c
    for i in range(len(case["traces"])):
        c = dict(case)
        c["traces"] = case["traces"][:i] + case["traces"][i + 1:]
        yield c
    for key in ("repeat", "pre", "inside"):
        if case.get(key):
            c = dict(case)
            c.pop(key)
            yield c
    if case["kind"] in ("assign", "ref"):
        for k in range(len(case["trees"])):
            for t2 in _tree_shrinks(case["trees"][k]):
                c = dict(case)
                c["trees"] = list(case["trees"])
                c["trees"][k] = t2
                yield c
        for t2 in _tree_shrinks(case["z"]):
            c = dict(case)
            c["z"] = t2
            yield c
        return
    if case["kind"] == "chunked":
        for k in range(len(case["chunks"])):
            for t2 in _tree_shrinks(case["chunks"][k]):
                c = dict(case)
                c["chunks"] = list(case["chunks"])
                c["chunks"][k] = t2
                yield c
        for t2 in _tree_shrinks(case["z"]):
            c = dict(case)
            c["z"] = t2
            yield c
        return
    if case["kind"] == "program":
        for i in range(len(case["fmtU"])):
            c = dict(case)
            c["fmtU"] = case["fmtU"][:i] + case["fmtU"][i + 1:]
            c["nU"] = len(c["fmtU"])
            c["solo_u"] = [r for r in case["solo_u"] if any(nm == r for _, nm in c["fmtU"])]
            yield c
        if case["vals"] != "int":
            c = dict(case)
            c["vals"] = "int"
            yield c
        for k, o in enumerate(case["k6"]["ops"]):
            for t2 in _tree_shrinks(o["t"]):
                c = dict(case)
                c["k6"] = dict(case["k6"])
                c["k6"]["ops"] = [dict(x) for x in case["k6"]["ops"]]
                c["k6"]["ops"][k]["t"] = t2
                yield c
        return
    for k, o in enumerate(case["ops"]):
        for t2 in _tree_shrinks(o["t"]):
            c = dict(case)
            c["ops"] = [dict(x) for x in case["ops"]]
            c["ops"][k]["t"] = t2
            yield c
    if isinstance(case["z"], list):
        for t2 in _tree_shrinks(case["z"]):
            c = dict(case)
            c["z"] = t2
            yield c


def extra_evidence(results):
    kinds = {}
    for c, _v in results:
        kinds[c["kind"]] = kinds.get(c["kind"], 0) + 1
    return {"case_kinds": kinds}
