"""C11 — arithmetic on boxes (Payload), elements (CoordPayload) and fibers agrees with
arithmetic on the values: correspondence cases.

Families:
  bin    a op b     for op in + - * / // << & |, operand kinds S(calar) P(ayload) E(lement)
  cmp    a cmp b    for the six comparisons
  iop    a op= b    for += -= *= <<= (and /= on elements), a in {P, E}, incl. b is a (alias)
  fiber  fiber op fiber / fiber op scalar, value-returning and in-place, leaf fibers
         (bounded-exhaustive) and 2-level trees (random, free and tensor-owned)
The oracle of every box case is the same Python operator applied to the raw values.
"""
import copy, itertools, operator, random, struct
from harness import common as H

PROP = "C11"
RULE = ("bin/cmp/iop: every operator x operand-kind pair (S P E on either side, S-S excluded) x a pool "
        "of integer pairs (0, +-1, small, > 2^64) and, for + - * / // and comparisons, finite doubles "
        "(bit-exact as hex tokens); iop additionally with both operands the same object. fiber: all pairs "
        "of leaf fibers over n coordinates x {absent, explicit default, v, -v} for + * += *=, all such "
        "fibers x scalars x declared/estimated shape for scalar forms, seeded random leaf fibers and "
        "2-level trees (free / tensor-owned, default 0 or 7, empty sub-fibers); leaf operands also with an active "
        "range narrower than / offset from the shape (constructor, setActive, splitUniform partitions), rank format U "
        "(own rank attributes / Tensor.setFormat, mixed with C), different declared shapes and different defaults on the two operands, fibers "
        "built with another default than their tensor's, the operation applied twice, a Metrics bracket around the "
        "operation or around the construction, an operand that grew between two queries, boxed / doubly boxed / "
        "element scalars, lazy right operands, tuple coordinates from flattenRanks, multi-digit coordinates. non-trivial = a box case "
        "with a box or element operand whose value operator does not raise, or a fiber case with a "
        "non-empty left operand and (a non-empty right operand or a scalar)")

BINOPS = {"add": operator.add, "sub": operator.sub, "mul": operator.mul, "div": operator.truediv,
          "fdiv": operator.floordiv, "shl": operator.lshift, "band": operator.and_, "bor": operator.or_}
CMPOPS = {"eq": operator.eq, "ne": operator.ne, "lt": operator.lt, "le": operator.le,
          "gt": operator.gt, "ge": operator.ge}
CMPSWAP = {"eq": "eq", "ne": "ne", "lt": "gt", "gt": "lt", "le": "ge", "ge": "le"}
IOPS = {"iadd": operator.iadd, "isub": operator.isub, "imul": operator.imul,
        "ishl": operator.ilshift, "idiv": operator.itruediv}
IOP_BIN = {"iadd": "add", "isub": "sub", "imul": "mul", "idiv": "div"}
FLOAT_OK = ("add", "sub", "mul", "div", "fdiv")      # operators generated with float operands
KINDS = "SPE"
KIND_PAIRS = [(a, b) for a in KINDS for b in KINDS if (a, b) != ("S", "S")]

INT_POOL = [0, 1, -1, 2, 5, -7, 12, 2 ** 70 + 3]
SHIFT_POOL = [0, 1, 3, 70, -1]
FLT_POOL = [0.5, -2.25, 3.0, 1e300]


# ---------------------------------------------------------------------------------------
# tokens: ints stay ints, floats travel as their hex (= bit pattern), everything else is named
# ---------------------------------------------------------------------------------------

def tok(v):
    if isinstance(v, bool):
        return "b:" + str(int(v))
    if isinstance(v, int):
        return v
    if isinstance(v, float):
        return "f:" + v.hex()
    if v is None:
        return "none"
    return "obj:" + type(v).__name__


def untok(t):
    if isinstance(t, int):
        return t
    if t.startswith("b:"):
        return bool(int(t[2:]))
    assert t.startswith("f:"), t
    return float.fromhex(t[2:])


def oracle(fn, x, y):
    try:
        return tok(fn(x, y))
    except Exception as e:  # the value operator itself raises (ZeroDivisionError, ...)
        return "ERR:" + type(e).__name__


# ---------------------------------------------------------------------------------------
# generators
# ---------------------------------------------------------------------------------------

def _box_case(fam, op, ka, kb, x, y, alias=False):
    c = {"prop": PROP, "fam": fam, "op": op, "ka": ka, "kb": kb, "x": tok(x), "y": tok(y)}
    if alias:
        c["alias"] = True
    return c


def _value_pairs(op, rng=None, n=0):
    """the deterministic pool for an operator, then `n` random pairs"""
    if op in ("shl",):
        pairs = [(x, s) for x in INT_POOL for s in SHIFT_POOL]
    else:
        pairs = [(x, y) for x in INT_POOL for y in INT_POOL]
        if op in FLOAT_OK or op in CMPOPS or op in IOPS:
            mixed = FLT_POOL + [3, 0]
            pairs += [(x, y) for x in mixed for y in mixed if isinstance(x, float) or isinstance(y, float)]
    for p in pairs:
        yield p
    for _ in range(n):
        yield _rand_value(rng, op), _rand_value(rng, op, right=True)


def _rand_value(rng, op, right=False):
    if op == "shl" and right:
        return rng.choice([rng.randrange(0, 80), rng.randrange(0, 8), -rng.randrange(1, 5)])
    r = rng.random()
    floats_ok = op in FLOAT_OK or op in CMPOPS or op in ("iadd", "isub", "imul", "ishl", "idiv")
    if floats_ok and r < 0.35:
        # a finite, non-NaN, non-(-0.0) double from random bits or a "nice" range
        if rng.random() < 0.5:
            return rng.choice([-1, 1]) * rng.uniform(0.001, 1000.0)
        while True:
            v = struct.unpack("<d", struct.pack("<Q", rng.getrandbits(64)))[0]
            if v == v and v not in (float("inf"), float("-inf")) and abs(v) < 1e150 and v != 0.0:
                return v
    if r < 0.55:
        return rng.randrange(-6, 7)
    if r < 0.85:
        return rng.randrange(-10 ** 6, 10 ** 6)
    return rng.choice([-1, 1]) * rng.getrandbits(rng.choice([63, 64, 65, 100]))


def _gen_boxes(rng, tier):
    nrand = 6 if tier == "quick" else 1500
    for op in BINOPS:
        for ka, kb in KIND_PAIRS:
            for x, y in _value_pairs(op, rng, nrand):
                yield _box_case("bin", op, ka, kb, x, y)
    for op in CMPOPS:
        for ka, kb in KIND_PAIRS:
            for x, y in _value_pairs(op, rng, nrand):
                yield _box_case("cmp", op, ka, kb, x, y)
    for ka in "PE":
        for op in IOPS:
            for kb in KINDS:
                for x, y in _value_pairs(op, rng, nrand):
                    yield _box_case("iop", op, ka, kb, x, y)
            for x, _ in _value_pairs(op, rng, nrand):
                yield _box_case("iop", op, ka, ka, x, x, alias=True)


def _gen_box_extras(rng, tier):
    """the same operator x kind table again with (a) the operation inside a Metrics bracket (operands
    built before it), (b) a doubly wrapped box Payload(Payload(v)) on either side, (c) bool values"""
    pairs = [(12, 5), (-7, 0), (0.5, 3), (2 ** 70 + 3, -1)]
    bools = [(True, False), (True, 3), (0, True)]
    for fam, ops in (("bin", BINOPS), ("cmp", CMPOPS)):
        for op in ops:
            for ka, kb in KIND_PAIRS:
                vals = [p_ for p_ in pairs if op not in ("shl", "band", "bor") or
                        (isinstance(p_[0], int) and isinstance(p_[1], int) and (op != "shl" or 0 <= p_[1] < 80))]
                for x, y in vals[:3]:
                    c = _box_case(fam, op, ka, kb, x, y)
                    c["metrics"] = "op"
                    yield c
                for x, y in vals[:2]:
                    for dbl in ("a", "b", "ab"):
                        if ("a" in dbl and ka != "P") or ("b" in dbl and kb != "P"):
                            continue
                        c = _box_case(fam, op, ka, kb, x, y)
                        c["dbl"] = dbl
                        yield c
                if op in ("band", "bor", "add", "mul", "eq", "ne", "lt"):
                    for x, y in bools:
                        yield _box_case(fam, op, ka, kb, x, y)
    for ka in "PE":
        for op in IOPS:
            for kb in KINDS:
                for x, y in pairs[:3]:
                    c = _box_case("iop", op, ka, kb, x, y)
                    c["metrics"] = "op"
                    yield c
                if kb == "P":
                    c = _box_case("iop", op, ka, kb, 12, 5)
                    c["dbl"] = "b"
                    yield c
            if ka == "P":
                c = _box_case("iop", op, ka, "S", 12, 5)
                c["dbl"] = "a"
                yield c


def _leaf_fibers(n, states):
    return list(H.all_leaf_fibers(n, states))


def _fib_case(op, d, dflt, a, b=None, s=None, shape=None, kind="free", shape2=None, act=None, actb=None):
    c = {"prop": PROP, "fam": "fiber", "op": op, "d": d, "dflt": dflt, "a": a, "kind": kind}
    if act is not None:
        c["act"] = act       # how the left operand gets an active range narrower than / offset from its shape
    if actb is not None:
        c["actb"] = actb
    if b is not None:
        c["b"] = b
    if s is not None:
        c["s"] = s
    if shape is not None:
        c["shape"] = shape
    if shape2 is not None:
        c["shape2"] = shape2
    return c


FF_OPS = ["add", "mul", "iadd", "imul"]
FS_OPS = ["sadd", "radd", "smul", "rmul", "isadd", "ismul"]


def _shape2(t, n):
    return [n, n]


def _partition(parent, step, part):
    """the elements splitUniform(step) puts into partition number `part`"""
    return [e for e in parent if e[0] // step == part]


def _rand_act(rng, tree, shape):
    """(operand tree, active-range recipe): constructor argument, setActive(), or a split partition"""
    how = rng.choice(["ctor", "set", "split"])
    if how == "split" and tree:
        step = rng.randrange(1, max(2, shape))
        part = rng.choice(sorted({e[0] // step for e in tree}))
        return _partition(tree, step, part), {"how": "split", "parent": tree, "step": step, "part": part}
    how = "ctor" if how == "split" else how
    lo = rng.randrange(0, shape + 1)
    hi = rng.randrange(lo, shape + 1)
    return tree, {"how": how, "lo": lo, "hi": hi}


def _gen_fibers(rng, tier):
    # bounded-exhaustive: all pairs of leaf fibers
    n = 3 if tier == "quick" else 4
    fibs0 = _leaf_fibers(n, [0, 1, -1])
    for op in FF_OPS:
        for a in fibs0:
            for b in fibs0:
                yield _fib_case(op, 0, 0, a, b=b)
    fibs7 = _leaf_fibers(2 if tier == "quick" else 3, [7, 3, 4])
    for op in FF_OPS:
        for a in fibs7:
            for b in fibs7:
                yield _fib_case(op, 0, 7, a, b=b)
    # scalar forms: all leaf fibers x scalars x shape declared / estimated
    for op in FS_OPS:
        for a in _leaf_fibers(3, [0, 1, -1, 2]):
            for s in (0, 1, -1, 3):
                for shape in (None, 3, 5):
                    yield _fib_case(op, 0, 0, a, s=s, shape=shape)
        for a in _leaf_fibers(2, [7, 3, 4]):
            for s in (0, 2, -7):
                for shape in (None, 4):
                    yield _fib_case(op, 0, 7, a, s=s, shape=shape)
    # active range narrower than / offset from the shape (constructor argument, setActive(),
    # partitions of splitUniform): the scalar forms act over the SHAPE, the fiber forms over
    # the presented elements - the active range must not matter
    acts = [{"how": "ctor", "lo": 1, "hi": 3}, {"how": "set", "lo": 2, "hi": 5}, {"how": "ctor", "lo": 0, "hi": 2}]
    for op in FS_OPS:
        for a in _leaf_fibers(3, [0, 1, -1]):
            for s_ in (1, -1):
                for act in acts:
                    yield _fib_case(op, 0, 0, a, s=s_, shape=5, act=act)
        for parent in _leaf_fibers(4, [0, 1]):
            for step in (2, 3):
                for part in range((4 + step - 1) // step):
                    a = _partition(parent, step, part)
                    if a:
                        yield _fib_case(op, 0, 0, a, s=2, shape=6,
                                        act={"how": "split", "parent": parent, "step": step, "part": part})
    small = _leaf_fibers(3, [0, 1])
    for op in FF_OPS:
        for a in small:
            for b in small:
                yield _fib_case(op, 0, 0, a, b=b, shape=4, act={"how": "ctor", "lo": 1, "hi": 3},
                                actb={"how": "set", "lo": 0, "hi": 2})
    # seeded random: larger leaf fibers, 2-level trees
    nrand = 2500 if tier == "quick" else 200000
    for i in range(nrand):
        dflt = rng.choice([0, 0, 0, 7])
        pool = (1, 2, -3, 7, 0, -1, -2, 3, 4) if dflt == 0 else (1, 2, -3, 7, 0, 3, 4, 14)
        d = rng.choice([0, 0, 0, 1, 1, 1, 2])
        nn = rng.choice([3, 5, 8, 12] if tier == "quick" else [3, 5, 8, 12, 25, 40])
        if d == 1:
            nn = min(nn, 8)
        if d == 2:
            nn = min(nn, 5)
        a = H.gen_tree(rng, d + 1, nn, pool, dflt)
        if rng.random() < 0.75:
            op = FF_OPS[i % 4]
            b = H.gen_tree(rng, d + 1, nn, pool, dflt)
            if rng.random() < 0.08:
                b = []
            if rng.random() < 0.08:
                a = []
            kind = "owned" if (d >= 1 and rng.random() < 0.6) else "free"
            if d == 2 or (d == 1 and kind == "free" and (not a or not b)):
                kind = "owned"   # a free empty fiber cannot know that its payloads would be fibers
            act = actb = shape = None
            if d == 0 and rng.random() < 0.3:
                shape = nn + rng.choice([0, 2])
                a, act = _rand_act(rng, a, shape)
                if rng.random() < 0.5:
                    b, actb = _rand_act(rng, b, shape)
            yield _fib_case(op, d, dflt, a, b=b, kind=kind, shape=shape, act=act, actb=actb)
        elif d == 0:
            op = rng.choice(FS_OPS)
            shape = rng.choice([None, nn, nn + 2])
            act = None
            if rng.random() < 0.4:
                shape = shape or nn
                a, act = _rand_act(rng, a, shape)
            yield _fib_case(op, 0, dflt, a, s=rng.choice([0, 1, -1, 2, 5, -7, dflt]), shape=shape, act=act)
        else:
            op = rng.choice(["sadd", "radd", "smul", "rmul"])
            yield _fib_case(op, d, dflt, a, s=rng.choice([1, 2, -3]), kind="owned", shape2=[nn] * (d + 1))


def _deco(case, **kw):
    c = dict(case)
    c.update({k: v for k, v in kw.items() if v is not None})
    return c


def _relabel(rng, tree, pool):
    """same fiber, coordinates replaced order-preservingly by a sample of `pool` (9 / 10 / 100 ...)"""
    cs = sorted(rng.sample(pool, len(tree)))
    return [[c, p] for c, (_, p) in zip(cs, tree)]


def _gen_fiber_extras(rng, tier):
    tiny = _leaf_fibers(2, [0, 1, -1])          # 16 leaf fibers
    small = _leaf_fibers(3, [0, 1])             # 27 leaf fibers
    thorough = tier != "quick"
    # 1. format "U" set on the unowned fibers' own rank attributes, both / mixed, declared / estimated extent
    for op in FF_OPS:
        for i, a in enumerate(small):
            for k, b in enumerate(small):
                fa_, fb_ = [("U", "U"), ("U", None), (None, "U")][(i + k) % 3]
                yield _deco(_fib_case(op, 0, 0, a, b=b, shape=(3 if (i + k) % 2 else None)), fmt=fa_, fmtb=fb_)
    for op in FS_OPS:
        for a in _leaf_fibers(3, [0, 1, -1]):
            for shape in (None, 4):
                yield _deco(_fib_case(op, 0, 0, a, s=2, shape=shape), fmt="U")
    inner = [[[c + 1, v] for c, v in f] for f in tiny]     # stored coordinates 1..2, active range (1, 3) of shape 5
    for op in FF_OPS:
        for a in inner:
            for b in inner:
                yield _deco(_fib_case(op, 0, 0, a, b=b, shape=5, act={"how": "ctor", "lo": 1, "hi": 3},
                                      actb={"how": "set", "lo": 1, "hi": 4}), fmt="U", fmtb="U")
    for op in ("smul", "rmul", "ismul", "sadd", "radd", "isadd"):
        for a in inner:
            yield _deco(_fib_case(op, 0, 0, a, s=3, shape=5, act={"how": "set", "lo": 1, "hi": 3}), fmt="U")
    # 2b. different DEFAULTS on the two operands of `+` (non-zero on one side, 0 on the other;
    #     the right operand stores coordinates beyond the left one's last, the left one may be empty)
    sevens, zeros = _leaf_fibers(2, [7, 3, 4]), _leaf_fibers(3, [0, 1, -1])
    for a in sevens:
        for b in zeros:
            yield _deco(_fib_case("add", 0, 7, a, b=b), dfltb=0)
            yield _deco(_fib_case("add", 0, 0, b, b=a), dfltb=7)
    # 2. different declared shapes on the two operands
    for op in FF_OPS:
        for a in tiny:
            for b in tiny:
                yield _deco(_fib_case(op, 0, 0, a, b=b, shape=2), shapeb=5)
    # 3. state left behind: the operation twice on the same operands; Metrics bracket around the
    #    operation / around the construction; a query repeated after the operand grew
    for op in FF_OPS:
        for a in tiny:
            for b in tiny:
                base = _fib_case(op, 0, 0, a, b=b)
                yield _deco(base, reps=2)
                yield _deco(base, metrics="op")
                yield _deco(base, metrics="build")
                yield _deco(base, lazyb="sub")          # 5. a lazy right operand
                yield _deco(base, lazyb="prune")
    for op in FS_OPS:
        for a in tiny:
            for s_ in (2, -1):
                base = _fib_case(op, 0, 0, a, s=s_, shape=3)
                yield _deco(base, reps=2)
                yield _deco(base, metrics="op")
                yield _deco(base, metrics="build")
                for sk in ("P", "PP", "E"):              # 4. the scalar boxed / doubly boxed / an element
                    yield _deco(base, skind=sk)
    for a in tiny:
        if a:
            grown = a + [[a[-1][0] + 2, 5]]
            for op in ("sadd", "radd", "smul", "rmul"):
                yield _deco(_fib_case(op, 0, 0, grown, s=2), grow=True)
            for op in ("add", "mul"):
                for b in tiny:
                    yield _deco(_fib_case(op, 0, 0, grown, b=b), grow=True)
    # 5. tuple coordinates from an earlier flattenRanks() (encoded c0*4+c1)
    flat = [[[c, v] for c, v in zip((0, 1, 4, 5), combo) if v is not None]
            for combo in itertools.product([None, 1, -2], repeat=4)]
    if not thorough:
        flat = flat[::3]
    for op in FF_OPS:
        for a in flat:
            for b in flat:
                yield _deco(_fib_case(op, 0, 0, a, b=b), flat=4)
    # random stream with the same decorations, multi-digit coordinates, owned tensors with mixed formats
    nrand = 1500 if not thorough else 60000
    wide = list(range(0, 13)) + [19, 20, 21, 99, 100, 101]
    for i in range(nrand):
        d = rng.choice([0, 0, 0, 1, 2])
        dflt = 0 if rng.random() < 0.8 else 7
        pool = (1, 2, -3, 7, 0, -1, 4) if dflt == 0 else (1, 2, -3, 7, 0, 3, 4, 14)
        nn = rng.choice([3, 5, 8]) if d == 0 else rng.choice([3, 4])
        a = H.gen_tree(rng, d + 1, nn, pool, dflt)
        b = H.gen_tree(rng, d + 1, nn, pool, dflt)
        ff = rng.random() < 0.65
        kw = {}
        if d == 0:
            if rng.random() < 0.4:
                a, b = _relabel(rng, a, wide), _relabel(rng, b, wide)
                nn = 102
            shape = rng.choice([None, nn, nn + 3])
            if dflt == 0 and rng.random() < 0.5:
                kw["fmt"] = rng.choice(["U", None])
                kw["fmtb"] = rng.choice(["U", None]) if ff else None
            if ff and shape is not None and rng.random() < 0.3:
                kw["shapeb"] = nn + rng.choice([0, 1, 7])
            r = rng.random()
            if r < 0.15 and dflt == 0:
                kw["reps"] = 2
            elif r < 0.3:
                kw["metrics"] = rng.choice(["op", "build"])
            if ff and rng.random() < 0.25:
                kw["lazyb"] = rng.choice(["sub", "prune"])
            if ff and i % 4 == 0 and rng.random() < 0.4:
                kw["dfltb"] = 7 - dflt if dflt in (0, 7) else 0
                kw.pop("fmt", None)
                kw.pop("fmtb", None)
            if ff:
                yield _deco(_fib_case(FF_OPS[i % 4], 0, dflt, a, b=b, shape=shape), **kw)
            else:
                kw["skind"] = rng.choice([None, "P", "PP", "E"])
                yield _deco(_fib_case(rng.choice(FS_OPS), 0, dflt, a, s=rng.choice([1, -1, 2, 5, dflt]), shape=shape), **kw)
        else:
            # tensor-owned trees: formats per rank via Tensor.setFormat, fibers built with their own default
            if dflt == 0 and rng.random() < 0.6:
                kw["fmts"] = [rng.choice(["C", "U"]) for _ in range(d + 1)]
                kw["fmtsb"] = [rng.choice(["C", "U"]) for _ in range(d + 1)]
            if dflt == 7 and rng.random() < 0.5:
                kw["bdflt"] = 0
            if dflt == 0 and rng.random() < 0.2:
                kw["reps"] = 2
            declared = rng.random() < 0.5
            if ff:
                yield _deco(_fib_case(FF_OPS[i % 4], d, dflt, a, b=b, kind="owned",
                                      shape2=([nn] * (d + 1) if declared else None)), **kw)
            else:
                kw.pop("fmtsb", None)
                yield _deco(_fib_case(rng.choice(["sadd", "radd", "smul", "rmul"]), d, dflt, a, s=rng.choice([1, 2, -3]),
                                      kind="owned", shape2=[nn] * (d + 1)), **kw)


def gen(seed, tier):
    rng = random.Random(seed)
    yield from _gen_boxes(rng, tier)
    yield from _gen_box_extras(rng, tier)
    yield from _gen_fibers(rng, tier)
    yield from _gen_fiber_extras(rng, tier)


# ---------------------------------------------------------------------------------------
# running the real code
# ---------------------------------------------------------------------------------------

def _bracket(case, thunk):
    """run `thunk` inside a Metrics collection bracket if the case asks for it (the operands
    were built before the bracket)"""
    if case.get("metrics") == "op":
        M = H.ft().Metrics
        M.beginCollect()
        try:
            return thunk()
        finally:
            M.endCollect()
    return thunk()


def _mk(kind, v, dbl=False):
    """(operand, its box or None); `dbl`: built as Payload(Payload(v))"""
    ft = H.ft()
    if kind == "S":
        return v, None
    p = ft.Payload(ft.Payload(v)) if dbl else ft.Payload(v)
    if kind == "P":
        return p, p
    return ft.CoordPayload(3, p), p


def _boxval(box):
    ft = H.ft()
    v = box.value
    if isinstance(v, ft.Payload):
        return "dbox"
    return tok(v)


def _run_bin(case):
    ft = H.ft()
    x, y = untok(case["x"]), untok(case["y"])
    fn = BINOPS[case["op"]]
    case["raws"] = {case["op"]: oracle(fn, x, y)}
    a, ba = _mk(case["ka"], x, "a" in case.get("dbl", ""))
    b, bb = _mk(case["kb"], y, "b" in case.get("dbl", ""))
    side = {}
    try:
        r = _bracket(case, lambda: fn(a, b))
        if isinstance(r, ft.Payload):
            case["impl"] = {"k": "boxed", "v": _boxval(r)}
            side["result_is_fresh_box"] = (r is not ba) and (r is not bb)
            if isinstance(r.value, float) and case["raws"][case["op"]].startswith("f:"):
                side["float_bits"] = struct.pack("<d", r.value) == struct.pack("<d", fn(x, y))
        elif isinstance(r, (int, float)) and not isinstance(r, bool):
            case["impl"] = {"k": "plain", "v": tok(r)}
        else:
            case["impl"] = {"k": "other", "v": tok(r)}
    except Exception as e:
        case["impl"] = {"k": "err", "e": type(e).__name__}
    side["operands_unchanged"] = all(bx is None or _boxval(bx) == t
                                     for bx, t in ((ba, case["x"]), (bb, case["y"])))
    case["side"] = side
    return case


def _run_cmp(case):
    x, y = untok(case["x"]), untok(case["y"])
    fn = CMPOPS[case["op"]]
    case["raw"] = bool(fn(x, y))
    case["raw_sw"] = bool(CMPOPS[CMPSWAP[case["op"]]](y, x))
    a, ba = _mk(case["ka"], x, "a" in case.get("dbl", ""))
    b, bb = _mk(case["kb"], y, "b" in case.get("dbl", ""))
    try:
        r = _bracket(case, lambda: fn(a, b))
        if isinstance(r, bool):
            case["impl"] = {"k": "bool", "v": r}
        else:
            case["impl"] = {"k": "other", "v": tok(r)}
    except Exception as e:
        case["impl"] = {"k": "err", "e": type(e).__name__}
    case["side"] = {"operands_unchanged": all(bx is None or _boxval(bx) == t
                                              for bx, t in ((ba, case["x"]), (bb, case["y"])))}
    return case


def _run_iop(case):
    ft = H.ft()
    x, y = untok(case["x"]), untok(case["y"])
    op = case["op"]
    raws = {"add": oracle(operator.add, x, y)}
    if op in IOP_BIN:
        raws[IOP_BIN[op]] = oracle(BINOPS[IOP_BIN[op]], x, y)
    case["raws"] = raws
    a, ba = _mk(case["ka"], x, "a" in case.get("dbl", ""))
    if case.get("alias"):
        b, bb = a, ba
    else:
        b, bb = _mk(case["kb"], y, "b" in case.get("dbl", ""))
    side = {}
    try:
        r = _bracket(case, lambda: IOPS[op](a, b))
        if r is a and (case["ka"] != "E" or a.payload is ba):
            ret = "same"
        elif r is None:
            ret = "none"
        elif isinstance(r, (ft.Payload, ft.CoordPayload)):
            ret = "fresh"
        else:
            ret = "other:" + tok(r) if isinstance(tok(r), str) else "other"
        case["impl"] = {"ret": ret, "a": _boxval(ba)}
    except Exception as e:
        case["impl"] = {"err": type(e).__name__}
        side["left_operand_unchanged_on_error"] = _boxval(ba) == case["x"]
    if bb is not None and not case.get("alias"):
        side["right_operand_unchanged"] = _boxval(bb) == case["y"]
    if case["ka"] == "E":
        side["element_keeps_its_box"] = a.payload is ba
    case["side"] = side
    return case


def _build(tree, d, dflt, kind, shape=None, shape2=None, bdflt=None, fmts=None):
    """(fiber, tensor-or-None) through public constructors.  `bdflt`: the default the Fiber objects
    are built with when it differs from the tensor's; `fmts`: per-rank formats set on the tensor"""
    ft = H.ft()
    fd = dflt if bdflt is None else bdflt
    if d == 0 and kind != "owned":
        f = ft.Fiber([c for c, _ in tree], [v for _, v in tree], default=fd, shape=shape)
        return f, None
    f = H.build_fiber(tree, d + 1, fd)
    if kind == "owned":
        ids = [f"R{d - i}" for i in range(d + 1)]
        t = ft.Tensor.fromFiber(rank_ids=ids, fiber=f, default=dflt, shape=shape2)
        for rid, fm in zip(ids, fmts or []):
            if fm != "C":
                t.setFormat(rid, fm)
        return t.getRoot(), t
    return f, None


def _unflat(tree, K):
    """encoded leaf fiber (coordinate c0*K+c1) -> the 2-level tree it is the flattening of"""
    out = []
    for c, v in tree:
        c0, c1 = divmod(c, K)
        if out and out[-1][0] == c0:
            out[-1][1].append([c1, v])
        else:
            out.append([c0, [[c1, v]]])
    return out


def _enc_snapshot(snap, K):
    """tuple coordinates [c0, c1] of a snapshot back to the integer encoding"""
    if not isinstance(snap, list):
        return snap
    out = []
    for e in snap:
        c, p = e
        if isinstance(c, list) and len(c) == 2 and all(isinstance(x, int) for x in c):
            c = c[0] * K + c[1]
        out.append([c, p])
    return out


def _operand(case, key):
    """the real operand for case[key] with the decorations the case asks for (active range,
    format, own shape, laziness, tuple coordinates from a flatten).  For a split partition the
    model input is what the partition really holds (abstraction of the state before the
    operation), so case[key] / case["shape"] are overwritten by the observation."""
    d, dflt, kind = case["d"], case["dflt"], case["kind"]
    sfx = "" if key == "a" else "b"
    if key == "b":
        dflt = case.get("dfltb", dflt)      # the right operand may have a default of its own
    ft = H.ft()
    act = case.get("act" + sfx)
    shape = case.get("shape" + sfx, case.get("shape"))
    tree = case[key]
    if case.get("flat"):
        # tuple coordinates produced by an earlier flattenRanks()
        two = H.build_fiber(_unflat(tree, case["flat"]), 2, dflt) if tree else None
        f = two.flattenRanks() if two is not None else ft.Fiber([], [], default=dflt)
    elif act is not None and act["how"] == "split" and d == 0:
        parent = act["parent"]
        pf = ft.Fiber([c for c, _ in parent], [v for _, v in parent], default=dflt, shape=shape)
        parts = pf.splitUniform(act["step"])
        f = None
        for c, p in zip(parts.coords, parts.payloads):
            if c == act["step"] * act["part"]:
                f = p
        if f is None:
            f = ft.Fiber([], [], default=dflt, shape=shape)
        snap = H.snapshot(f)
        if snap != case[key]:
            case[key] = snap
        shp = f.getShape(all_ranks=False)
        if isinstance(shp, int) and shp != case.get("shape"):
            case["shape"] = shp
    elif act is not None and act["how"] == "ctor" and d == 0:
        f = ft.Fiber([c for c, _ in tree], [v for _, v in tree], default=dflt, shape=shape,
                     active_range=(act["lo"], act["hi"]))
    else:
        f = _build(tree, d, dflt, kind, shape, case.get("shape2"), case.get("bdflt"),
                   case.get("fmts" + sfx))[0]
        if act is not None and act["how"] == "set" and d == 0:
            f.setActive((act["lo"], act["hi"]))
    if case.get("fmt" + sfx) and kind != "owned":
        f.getRankAttrs().setFormat(case["fmt" + sfx])     # an unowned fiber's own rank attributes
    return f


def _lazy(case, f):
    """the right operand as a lazy fiber with the same elements"""
    ft = H.ft()
    how = case.get("lazyb")
    if how == "sub":
        return f - ft.Fiber([], [], default=case["dflt"])
    if how == "prune":
        return f.prune(lambda n, c, p: True)
    return f


def _payload_ids(f, acc=None):
    """ids of every Payload / Fiber object reachable from a fiber"""
    ft = H.ft()
    acc = [] if acc is None else acc
    acc.append(id(f))
    for p in f.payloads:
        if isinstance(p, ft.Fiber):
            _payload_ids(p, acc)
        else:
            acc.append(id(p))
    return acc


def _dense(snap, d, dflt, prefix=()):
    """content of a snapshot: {point: value} for non-default leaves (None if ill-formed)"""
    out = {}
    if not isinstance(snap, list):
        return None
    for e in snap:
        c, p = e
        if d == 0:
            if not isinstance(p, int):
                return None
            if p != dflt:
                out.setdefault(prefix + (c,), p)
        else:
            sub = _dense(p, d - 1, dflt, prefix + (c,))
            if sub is None:
                return None
            for k, v in sub.items():
                out.setdefault(k, v)
    return out


def _scalar_arg(case):
    """the scalar of a fiber-scalar form: plain, boxed, doubly boxed or an element"""
    ft = H.ft()
    v, k = case["s"], case.get("skind")
    if k == "P":
        return ft.Payload(v)
    if k == "PP":
        return ft.Payload(ft.Payload(v))
    if k == "E":
        return ft.CoordPayload(9, v)
    return v


_FNS = {"add": operator.add, "mul": operator.mul, "iadd": operator.iadd, "imul": operator.imul,
        "sadd": operator.add, "smul": operator.mul, "isadd": operator.iadd, "ismul": operator.imul,
        "radd": lambda f, s: s + f, "rmul": lambda f, s: s * f}


def _run_fiber(case):
    ft = H.ft()
    op, d, dflt = case["op"], case["d"], case["dflt"]
    K = case.get("flat")
    inplace = op in ("iadd", "imul", "isadd", "ismul")
    reps = case.get("reps", 1)
    side = {}

    def operands():
        grow = case.get("grow")
        if grow:
            # the operand is used once before it grows past its old extent
            full = case["a"]
            case["a"] = full[:-1]
            fa_ = _operand(case, "a")
            case["a"] = full
        else:
            fa_ = _operand(case, "a")
        if "b" in case:
            fb_ = _operand(case, "b")
            other_ = _lazy(case, fb_)
        else:
            fb_, other_ = None, _scalar_arg(case)
        if grow:
            try:
                _FNS[op](fa_, other_)
            except Exception:
                pass
            fa_.append(full[-1][0], full[-1][1])
        return fa_, fb_, other_

    if case.get("metrics") == "build":
        # operands built inside a bracket, used after it was closed
        ft.Metrics.beginCollect()
        try:
            fa, fb, other = operands()
        finally:
            ft.Metrics.endCollect()
    else:
        fa, fb, other = operands()
    before_a = H.snapshot(fa)
    before_b = H.snapshot(fb) if fb is not None else None
    ids_before = set(_payload_ids(fa)) | (set(_payload_ids(fb)) if fb is not None else set())
    fn = _FNS[op]
    try:
        r = _bracket(case, lambda: fn(fa, other))
        first = H.snapshot(r) if isinstance(r, ft.Fiber) else None
        for _ in range(reps - 1):
            r = _bracket(case, lambda: fn(fa, other))
        if not isinstance(r, ft.Fiber):
            case["impl"] = {"err": "ERR:result-not-a-fiber:" + type(r).__name__}
        else:
            out = H.snapshot(r)
            case["impl"] = {"out": _enc_snapshot(out, K) if K else out}
            if inplace:
                side["inplace_returns_self"] = r is fa
            else:
                side["result_is_new_fiber"] = (r is not fa) and (r is not fb)
                side["left_operand_unchanged"] = H.snapshot(fa) == before_a
                if reps > 1:
                    side["repeated_call_same_result"] = first == out
                rid = _payload_ids(r)
                side["result_objects_fresh_and_distinct"] = (not (set(rid) & ids_before)) and len(rid) == len(set(rid))
                if d == 0:
                    side["result_default_is_operands"] = ft.Payload.get(r.getDefault()) == ft.Payload.get(fa.getDefault())
                if d == 0 and case.get("shape") is not None and not K:
                    side["result_shape_is_operands"] = r.getRankAttrs().getShape() == fa.getShape(all_ranks=False)
    except Exception as e:
        case["impl"] = {"err": H.err_class(e)}
    if fb is not None:
        side["right_operand_unchanged"] = H.snapshot(fb) == before_b
    if inplace and "out" in case["impl"] and reps == 1:
        # the property's last clause, measured directly: the in-place form leaves the content
        # that the value-returning form produces on fresh copies of the same operands
        ga = _operand(case, "a")
        go = _lazy(case, _operand(case, "b")) if "b" in case else _scalar_arg(case)
        try:
            v = (ga + go) if op in ("iadd", "isadd") else (ga * go)
            vs = H.snapshot(v)
            side["inplace_matches_value_form"] = (_dense(_enc_snapshot(vs, K) if K else vs, d, dflt) ==
                                                  _dense(case["impl"]["out"], d, dflt))
        except Exception as e:
            side["inplace_matches_value_form"] = False
    case["side"] = side
    return case


def run(case):
    fam = case["fam"]
    if fam == "bin":
        return _run_bin(case)
    if fam == "cmp":
        return _run_cmp(case)
    if fam == "iop":
        return _run_iop(case)
    return _run_fiber(case)


# ---------------------------------------------------------------------------------------
# classification
# ---------------------------------------------------------------------------------------

def nontrivial(case, verdict):
    tags = set(verdict.get("tags", []))
    if case["fam"] in ("bin", "cmp", "iop"):
        return "value-op-raises" not in tags
    if "emptyA" in tags:
        return False
    return "b" not in case or "emptyB" not in tags


def _kind_class(ka, kb):
    if "E" in (ka, kb):
        return "elem-operand"
    return {"PP": "box-box", "PS": "box-scalar", "SP": "scalar-box"}[ka + kb]


def _has_a_only(case):
    """does the left fiber present a top-level coordinate the right one does not present?"""
    d, dflt = case["d"], case["dflt"]

    def presented(t):
        return {c for c, p in t if (_dense([[c, p]], d, dflt) or {})}
    return bool(presented(case["a"]) - presented(case.get("b", [])))


def signature(case, verdict, failed):
    """classification of a failing case for known_findings.json.  A failure that the model of
    today's code predicts (`agree`) is named after its class; one the model does not predict
    gets `deviates-from-model` appended and therefore never matches a known finding."""
    fam, op = case["fam"], case["op"]
    impl = case.get("impl", {})
    what = "/".join(sorted(failed))
    mod = "" if verdict.get("agree", False) else ":deviates-from-model"
    if fam == "bin":
        opclass = {"shl": "logical", "band": "logical", "bor": "logical"}.get(op, op)
        kinds = "any" if op == "fdiv" else _kind_class(case["ka"], case["kb"])
        outcome = impl.get("e", impl.get("k"))
        return f"bin:{opclass}:{kinds}:{outcome}{mod}:{what}"
    if fam == "cmp":
        return f"cmp:{op}:{_kind_class(case['ka'], case['kb'])}{mod}:{what}"
    if fam == "iop":
        ka = {"P": "box", "E": "elem"}[case["ka"]]
        kb = "any" if op == "idiv" else ("elem" if case["kb"] == "E" else "nonelem")
        if "err" in impl:
            outcome = impl["err"]
        else:
            outcome = f"ret-{impl.get('ret')}"
            if impl.get("a") == "obj:CoordPayload":
                outcome += ":holds-element-object"
        return f"iop:{op}:{ka}<-{kb}:{outcome}{mod}:{what}"
    # fibers
    outcome = impl.get("err", "out")
    if op in ("sadd", "radd", "smul", "rmul") and case["d"] > 0:
        return f"fiber:scalar-value-form:depth2:{outcome}{mod}:{what}"
    if op == "imul":
        cls = "a-only-coords" if _has_a_only(case) else "no-a-only-coords"
    elif op == "iadd":
        cls = "dflt0" if case["dflt"] == 0 else "dflt-nonzero"
    else:
        cls = "leaf" if case["d"] == 0 else "depth2"
    return f"fiber:{op}:{cls}:{outcome}{mod}:{what}"


def _tree_shrinks(t):
    if not isinstance(t, list):
        return
    for i in range(len(t)):
        yield t[:i] + t[i + 1:]
    for i, e in enumerate(t):
        if isinstance(e, list) and len(e) == 2 and isinstance(e[1], list):
            for s2 in _tree_shrinks(e[1]):
                yield t[:i] + [[e[0], s2]] + t[i + 1:]


def shrink_candidates(case):
    if case["fam"] == "fiber":
        for key in ("a", "b"):
            if isinstance(case.get(key), list):
                for t2 in _tree_shrinks(case[key]):
                    c = dict(case)
                    c[key] = t2
                    yield c
        return
    for key in ("x", "y"):
        v = case[key]
        for small in (0, 1, 2, -1):
            if v != small and isinstance(v, int):
                c = dict(case)
                c[key] = small
                if case.get("alias"):
                    c["x"] = c["y"] = small
                yield c


def extra_evidence(results):
    fams, combos = {}, set()
    for c, v in results:
        fams[c["fam"]] = fams.get(c["fam"], 0) + 1
        if c["fam"] != "fiber":
            combos.add((c["fam"], c["op"], c["ka"], c["kb"], bool(c.get("alias"))))
    return {"cases_per_family": fams, "operator_kind_combinations": len(combos)}
