"""C20 — the tensor codec loses nothing: correspondence cases for Codec.encode over U / C / B.

One case = (tensor tree, descriptor, tensor shape declared or estimated, imposed shape or none,
leaf scale, aspect).  Leaf values are the tree's integers divided by `scale`: scale 1 = Python ints,
scale 4 = floats (dyadic, so that value * scale is exact); the Lean side always sees the integers.
The aspect selects which clause of the property the Lean side evaluates on the
implementation's observation: "decode" (per-rank arrays decode by layout to the content),
"scan" (each encoded fiber scanned through its handle interface), "lookup" (coordToHandle of
coordinate-list fibers), "size" (getSize = words of the layout), "walk" (depth-first walk of the whole encoded tensor through the handle
interface, the parent's scan suspended while a child's scan runs, = the content).  The "scan" aspect also runs
all fibers of a rank interleaved (every slice set up first, then nextInSlice round-robin).
"""
import io, copy, random, itertools, contextlib
from harness import common as H

PROP = "C20"
ASPECTS = ["decode", "scan", "lookup", "size", "walk"]
RULE = ("cases = (tensor of depth 1-3, descriptor in {U,C,B}^depth, tensor shape declared/estimated, imposed "
        "shape none/equal/larger, leaf values int or float, aspect in decode|scan(isolated + interleaved per rank)|"
        "lookup|size|walk(nested depth-first)); small scope: all 1-D fibers over 3 "
        "coordinates x {absent, explicit 0, v1, v2}, all 2-level trees over 2x2 coordinates x {absent, empty "
        "sub-fiber, leaf fiber over {absent, 0, v}}, 3-level trees over 2x2x2 (quick: seeded sample, thorough: "
        "all), each x all 3^depth descriptors x shape variants; random: depth 1-3, up to 5 coordinates per rank. "
        "non-trivial = tensor has at least one non-zero leaf and the descriptor has a compressed rank or the "
        "tensor has depth >= 2")

_codec = None


def _mods():
    global _codec
    if _codec is None:
        import importlib
        H.ft()
        tc = importlib.import_module("fibertree.codec.tensor_codec")
        fu = importlib.import_module("fibertree.codec.formats.uncompressed")
        fc = importlib.import_module("fibertree.codec.formats.coord_list")
        fb = importlib.import_module("fibertree.codec.formats.bitvector")
        _codec = (tc.Codec, {fu.Uncompressed: "U", fc.CoordinateList: "C", fb.Bitvector: "B"}, fb.TwoHandle)
    return _codec


# ---------------------------------------------------------------------------------------
# generators
# ---------------------------------------------------------------------------------------

def est_shape(tree, depth):
    """shape of a tensor built without a declared shape: per rank, max stored coordinate + 1"""
    sh = [0] * depth

    def walk(t, k):
        for c, p in t:
            sh[k] = max(sh[k], c + 1)
            if k + 1 < depth:
                walk(p, k + 1)
    walk(tree, 0)
    return sh


def _variants(tree, depth, rng, full):
    """(declared, tshape, imposed) variants"""
    est = est_shape(tree, depth)
    out = [(False, est, None)]
    grow = [rng.choice([0, 1, 2]) for _ in range(depth)]
    out.append((False, est, [s + g for s, g in zip(est, grow)]))
    dec = [s + rng.choice([0, 1]) for s in est]
    dec = [max(1, s) for s in dec]
    out.append((True, dec, None))
    if full:
        out.append((True, dec, list(dec)))
        out.append((True, dec, [s + 1 for s in dec]))
    return out


def _cases(tree, depth, rng, full, descs=None, aspects=ASPECTS, scale=1, hfmt=None, dflt=0, cum=None,
           variants=None, reuse=False, rids=None):
    """hfmt: format of the tensor's own ranks ("C"/"U" per rank, None = all "C"); dflt: the tensor's
    default (an integer like the leaves, divided by `scale` when built); cum: the codec's
    cumulative_payloads flags (None = all True); reuse: the Codec object has been used before it
    encodes this tensor — first use = another / the same tensor, with / without an imposed shape
    (one of REUSE; True = chosen per descriptor and shape variant so that all combinations with the
    second use's with / without imposed shape occur)"""
    vs = _variants(tree, depth, rng, full)
    if variants is not None:
        vs = vs[:variants]
    for declared, tsh, ish in vs:
        for desc in (descs or itertools.product("UCB", repeat=depth)):
            for asp in aspects:
                c = {"prop": PROP, "d": depth, "t": tree, "fmts": "".join(desc), "tshape": tsh,
                     "declared": declared, "ish": ish, "scale": scale, "aspect": asp}
                if hfmt:
                    c["hfmt"] = hfmt
                if dflt:
                    c["dflt"] = dflt
                if cum is not None:
                    c["cum"] = cum
                if rids:
                    c["rids"] = rids[("UCB".index(desc[-1]) + 3 * "UCB".index(desc[0]) + (1 if ish else 0)) % len(rids)]
                if reuse:
                    c["reuse"] = reuse if isinstance(reuse, str) else REUSE[(len(desc) + "UCB".index(desc[0]) +
                                                                             (1 if ish else 0)) % 4]
                yield c


WIDE = [0, 9, 10, 31, 32, 33, 63, 64, 100]


def _wide_cases(rng, n):
    """multi-digit coordinates and extents around the 32-bit mask word (31/32/33/63/64/65/101)"""
    for i in range(n):
        d = 1 if i % 3 else 2
        cs = sorted(rng.sample(WIDE, rng.choice([1, 2, 3, 5, 7])))
        if d == 1:
            tree = [[c, rng.choice([1, 2, -3])] for c in cs]
        else:
            tree = [[c, [[c2, rng.choice([1, 2])] for c2 in sorted(rng.sample(WIDE, rng.choice([1, 3, 6])))]]
                    for c in cs[:3]]
        est = est_shape(tree, d)
        for declared, tsh in ((False, est), (True, [((s + 31) // 32) * 32 + rng.choice([0, 0, 1]) for s in est])):
            ish = None if rng.random() < 0.6 else [s + rng.choice([0, 1, 31]) for s in tsh]
            for desc in itertools.product("UCB", repeat=d):
                for asp in ("decode", "size", "lookup", "scan"):
                    yield {"prop": PROP, "d": d, "t": tree, "fmts": "".join(desc), "tshape": tsh,
                           "declared": declared, "ish": ish, "scale": 1, "aspect": asp}


REUSE = ["other", "other+shape", "same", "same+shape"]
# rank ids as the library produces them: dotted ids of split ranks (split once, twice), ids that are
# prefixes of each other, lower-case ids, multi-character ids
RIDS = {1: [["K"], ["K.0"], ["m"], ["Rank_1"]],
        2: [["K.1", "K.0"], ["M", "MK"], ["K", "K.0"], ["n", "M"], ["K.0.1", "K.0.0"]],
        3: [["K.1", "K.0.1", "K.0.0"], ["M", "K.1", "K.0"], ["A", "AB", "ABC"], ["M.1", "M.0", "K"]],
        4: [["M.1", "M.0", "K.1", "K.0"], ["K.1", "K.0.1", "K.0.0.1", "K.0.0.0"]]}
MASKSETS = [[40], [0, 64], [0, 33, 100], [31, 32, 64, 127, 128, 129], [5, 70, 140, 200], [127], [128], [0, 31, 63, 95, 96],
            [32, 33, 34, 160]]


def _mask_cases():
    """deterministic: long runs of clear mask bits (>= one 32-bit word, across 128-bit lines) between set
    bits, extents at / next to multiples of 32 and 128; depth 1 and as the lower rank of depth 2"""
    for cs in MASKSETS:
        leaf = [[c, 1 + (c % 3)] for c in cs]
        for d, tree in ((1, leaf), (2, [[0, leaf], [3, [[cs[0], 2]]]])):
            est = est_shape(tree, d)
            for declared, tsh, ish in ((False, est, None), (True, [((s + 127) // 128) * 128 for s in est], None),
                                       (False, est, [s + 33 for s in est])):
                for desc in itertools.product("UCB", repeat=d):
                    if "B" not in desc:
                        continue
                    for asp in ("decode", "size", "scan", "walk"):
                        yield {"prop": PROP, "d": d, "t": tree, "fmts": "".join(desc), "tshape": tsh,
                               "declared": declared, "ish": ish, "scale": 1, "aspect": asp}


ATTRS = [("U", 0), ("C", 7), ("U", 7), ("U", 2)]


def leaf_fibers(n, states):
    return list(H.all_leaf_fibers(n, states))


def trees2(n_top, leafs):
    """all 2-level trees over n_top coordinates: each slot absent or one of `leafs` (incl. the empty fiber)"""
    for combo in itertools.product([None] + list(range(len(leafs))), repeat=n_top):
        yield [[c, leafs[i]] for c, i in enumerate(combo) if i is not None]


def gen(seed, tier):
    rng = random.Random(seed)
    full = tier != "quick"
    # depth 1: every fiber over 3 coordinates x {absent, explicit 0, 1, 2}
    for i, f in enumerate(leaf_fibers(3, [0, 1, 2])):
        yield from _cases(f, 1, rng, True)
        yield from _cases(f, 1, rng, False, scale=4)
        # the tensor's own rank in format "U" / a non-zero (int, float) default
        h, df = ATTRS[i % 4]
        yield from _cases(f, 1, rng, False, hfmt=h, dflt=df, scale=(4 if df == 2 else 1), variants=2,
                          cum=[i % 2 == 0], reuse=(i % 3 == 0), rids=RIDS[1])
    # depth 2: 2 x 2 coordinates
    l2 = leaf_fibers(2, [0, 5])
    A2 = [(h, df) for h in ("UC", "CU", "UU", "CC") for df in (0, 7, 2) if (h, df) != ("CC", 0)]
    for i, t in enumerate(trees2(2, l2)):
        yield from _cases(t, 2, rng, full, scale=(1 if i % 2 == 0 else 4))
        h, df = A2[i % len(A2)]
        yield from _cases(t, 2, rng, False, hfmt=h, dflt=df, scale=(4 if df == 2 else 1), variants=2,
                          cum=[i % 2 == 0, i % 3 == 0], reuse=(i % 2 == 1), rids=RIDS[2])
    # depth 3: 2 x 2 x 2 coordinates
    l1 = leaf_fibers(2, [7])
    mids = list(trees2(2, l1))
    tops = list(trees2(2, mids))
    if not full:
        tops = rng.sample(tops, 30)
    for i, t in enumerate(tops):
        if i % 2 == 0:
            yield from _cases(t, 3, rng, False, scale=(1 if i % 4 == 0 else 4))
        else:
            yield from _cases(t, 3, rng, False, hfmt="".join(rng.choice("CU") for _ in range(3)),
                              dflt=rng.choice([0, 7]), variants=2, reuse=(i % 4 == 1), rids=RIDS[3])
    # rank ids that differ only in case (a legal tensor; decode aspect only: the fiber objects are unaffected)
    for ridl, tree, dd in ((["K", "k"], [[0, [[1, 5]]], [1, [[0, 3], [1, 5]]]], 2),
                           (["M", "K", "k"], [[0, [[1, [[0, 7]]]]], [1, [[0, [[0, 7], [1, 7]]]]]], 3),
                           (["Ab", "aB"], [[1, [[0, 2]]]], 2)):
        for c in _cases(tree, dd, rng, False, aspects=["decode"], variants=2):
            c["rids"] = ridl
            yield c
    # multi-digit coordinates, extents around the mask word size
    yield from _mask_cases()
    yield from _wide_cases(rng, 12 if tier == "quick" else 400)
    # random
    nrand = 220 if tier == "quick" else 10000
    for i in range(nrand):
        d = rng.choice([1, 2, 2, 3, 3, 4])
        n = rng.choice([2, 3, 4, 5]) if d < 4 else rng.choice([2, 3])
        scale = rng.choice([1, 1, 4])
        dflt = rng.choice([0, 0, 7, -3]) if scale == 1 else rng.choice([0, 2, 28])
        tree = H.gen_tree(rng, d, n, pool=(1, 2, -3, 9, 0, 7), dflt=dflt)
        hfmt = "".join(rng.choice("CCU") for _ in range(d))
        descs = None
        if d >= 3:
            descs = [tuple(rng.choice("UCB") for _ in range(d)) for _ in range(6 if full else 4)]
        asp = ASPECTS if full or i % 2 == 0 else [rng.choice(ASPECTS)]
        for c in _cases(tree, d, rng, False, descs, asp, scale=scale, hfmt=hfmt, dflt=dflt,
                        cum=[rng.random() < 0.5 for _ in range(d)], variants=None if i % 2 else 2,
                        reuse=(rng.choice(REUSE) if rng.random() < 0.5 else False),
                        rids=(RIDS[d] if rng.random() < 0.6 else None)):
            yield c


# ---------------------------------------------------------------------------------------
# running the real code
# ---------------------------------------------------------------------------------------

def _other_tree(tree, depth):
    """a different tensor of the same depth: leaves doubled (+1), one more element at the front/back"""
    if depth == 1:
        t = [[c, 2 * v + 1] for c, v in tree]
        return t + [[(t[-1][0] + 2 if t else 1), 3]]
    t = [[c, _other_tree(s, depth - 1)] for c, s in tree]
    return t + [[(t[-1][0] + 1 if t else 0), _other_tree([], depth - 1)]]


def _build(tree, depth, scale, dflt=0):
    """real Fiber objects; leaves (and the default) are ints (scale 1) or floats value/scale"""
    F = H.ft().Fiber
    if depth == 1:
        vals = [v if scale == 1 else v / scale for _, v in tree]
        return F([c for c, _ in tree], vals, default=(dflt if scale == 1 else dflt / scale))
    return F([c for c, _ in tree], [_build(s, depth - 1, scale, dflt) for _, s in tree])


_BADVAL = 987654321


def _val(v, scale):
    """a leaf value as observed -> the model's integer (value * scale must be exact)"""
    if v is None:
        return None
    if isinstance(v, bool) or not isinstance(v, (int, float)):
        return _BADVAL
    x = v * scale
    return int(x) if x == int(x) else _BADVAL


class _StubCache(dict):
    """the cache interface the format classes use (boltons LRU with max_size=32 as in swoop_util):
    get / [] / counters; bounded, because the format classes print the whole cache on every access"""
    miss_count = 0
    hit_count = 0
    max_size = 32

    def __setitem__(self, k, v):
        if k in self:
            dict.__delitem__(self, k)
        dict.__setitem__(self, k, v)
        while len(self) > self.max_size:
            dict.__delitem__(self, next(iter(self)))


class _Null(io.TextIOBase):
    """sink for the codec's progress prints"""
    def write(self, s):
        return len(s)


def _opt(v):
    return None if v is None else int(v)


def _index_of(lst, obj):
    for i, o in enumerate(lst):
        if o is obj:
            return i
    return -2


def _element(f, name, nxt_rank, leaf, h, scale):
    """what one handle of a slice delivers: coordinate, payload handle and the payload it designates
    (leaf: payloadToValue; above: index in the next rank of the stored child object, or - for C above
    U, which stores no payloads - payloadToFiberHandle)"""
    c = f.handleToCoord(h)
    ph = f.handleToPayload(h)
    if ph is None:
        res = None
    elif leaf:
        res = _val(f.payloadToValue(ph), scale)
    elif name == "C" and len(f.getPayloads()) == 0:
        res = _opt(f.payloadToFiberHandle(ph))
    else:
        pl = f.getPayloads()
        res = _index_of(nxt_rank, pl[ph]) if 0 <= ph < len(pl) else None
    return [_opt(c), _opt(ph), res]


def _scan(f, name, nxt_rank, leaf, scale, base=0):
    """setupSlice(base), nextInSlice() until None"""
    rows = []
    f.setupSlice(base)
    for _ in range(10000):
        h = f.nextInSlice()
        if h is None:
            break
        rows.append(_element(f, name, nxt_rank, leaf, h, scale))
    else:
        rows.append(["nonterminating", None, None])
    return rows


def _scan_interleaved(rank, names, nxt_rank, leaf, scale):
    """all fibers of a rank scanned at the same time: every slice is set up first, then the
    fibers take turns calling nextInSlice() until each has returned None"""
    rows = [[] for _ in rank]
    for f in rank:
        f.setupSlice(0)
    active = list(range(len(rank)))
    for _ in range(10000):
        if not active:
            break
        still = []
        for i in active:
            f = rank[i]
            h = f.nextInSlice()
            if h is None:
                continue
            rows[i].append(_element(f, names.get(type(f), "?"), nxt_rank, leaf, h, scale))
            still.append(i)
        active = still
    else:
        for i in active:
            rows[i].append(["nonterminating", None, None])
    return rows


class _WalkAbort(Exception):
    pass


def _walk(ot, names, d, r, idx, pre, out, budget, scale, dflt):
    """depth-first walk of the encoded tensor through the handle interface only: the scan of a
    fiber stays open while the fibers of its elements are scanned"""
    f = ot[r][idx]
    leaf = r == d
    name = names.get(type(f), "?")
    nxt = ot[r + 1] if r < d else []
    f.setupSlice(0)
    while True:
        budget[0] -= 1
        if budget[0] < 0:
            raise _WalkAbort("nonterminating")
        h = f.nextInSlice()
        if h is None:
            return
        c, ph, res = _element(f, name, nxt, leaf, h, scale)
        if leaf:
            if res is None or res != dflt:
                out.append([pre + [c], res])
        elif res is None or not (0 <= res < len(nxt)):
            out.append([pre + [c, "dangling"], None])
        else:
            _walk(ot, names, d, r + 1, res, pre + [c], out, budget, scale, dflt)


def run(case):
    ft = H.ft()
    Codec, names, TwoHandle = _mods()
    d, tree, desc = case["d"], case["t"], tuple(case["fmts"])
    ids = list(case.get("rids") or [f"R{i}" for i in range(d)])
    scale = case.get("scale", 1)
    dflt = case.get("dflt", 0)
    fiber = _build(tree, d, scale, dflt)
    kw = {"shape": list(case["tshape"])} if case["declared"] else {}
    if dflt:
        kw["default"] = dflt if scale == 1 else dflt / scale
    t = ft.Tensor.fromFiber(rank_ids=ids, fiber=fiber, **kw)
    for rid, h in zip(ids, case.get("hfmt") or ""):
        if h == "U":
            t.setFormat(rid, "U")
    if t.getShape() != case["tshape"]:
        raise RuntimeError(f"tensor shape {t.getShape()} differs from the generator's {case['tshape']}")
    side, impl = {}, {}
    buf = _Null()
    asp = case["aspect"]
    before = H.snapshot(t.getRoot()) if asp == "decode" else None
    try:
        with contextlib.redirect_stdout(buf):
            codec = Codec(desc, list(case.get("cum") or [True] * d))
            mode = case.get("reuse")
            if mode:
                # the codec object has been used before — for another tensor (every leaf doubled, an
                # element added) or for this one, with or without an imposed shape (larger than that
                # tensor's own) — each use with its own output dict and fiber lists
                mode = "other" if mode is True else mode
                if mode.startswith("other"):
                    prev = ft.Tensor.fromFiber(rank_ids=ids, fiber=_build(_other_tree(tree, d), d, scale, dflt),
                                               **({"default": kw["default"]} if "default" in kw else {}))
                else:
                    prev = t
                pshape = [x + 1 + (k % 2) for k, x in enumerate(prev.getShape())] if mode.endswith("+shape") else None
                codec.encode(-1, prev.getRoot(), ids, codec.get_output_dict(ids), [[] for _ in range(d + 1)],
                             shape=pshape)
            out = codec.get_output_dict(ids)
            ot = [[] for _ in range(d + 1)]
            codec.encode(-1, t.getRoot(), ids, out, ot, shape=case["ish"])
            if asp == "decode":
                # state left behind: the tensor is only read, and the codec object can be used again
                side["tensor_unchanged"] = H.snapshot(t.getRoot()) == before
                first = copy.deepcopy(out)
                # … in between once with the other shape setting (imposed <-> not imposed)
                toggled = None if case["ish"] else [x + 2 for x in case["tshape"]]
                codec.encode(-1, t.getRoot(), ids, codec.get_output_dict(ids), [[] for _ in range(d + 1)],
                             shape=toggled)
                out2 = codec.get_output_dict(ids)
                codec.encode(-1, t.getRoot(), ids, out2, [[] for _ in range(d + 1)], shape=case["ish"])
                side["second_encode_same"] = out2 == first
                side["first_arrays_untouched_by_second_encode"] = out == first and out2 is not out
    except Exception as e:
        case["impl"] = {"error": H.err_class(e)}
        case["implerr"] = H.err_class(e)
        case["side"] = {"encode_no_exception:" + H.err_class(e): False}
        return case
    impl["root"] = [int(x) for x in out["payloads_root"]]
    # the arrays of a rank are found under the tensor's own rank id (coords_<id>, payloads_<id>, lower case)
    impl["cs"] = [[int(x) for x in out.get("coords_" + i.lower(), [_BADVAL])] for i in ids]
    impl["ps"] = [[(_val(x, scale) if k == d - 1 else int(x)) for x in out.get("payloads_" + i.lower(), [_BADVAL])]
                  for k, i in enumerate(ids)]
    if set(out) != {"payloads_root"} | {p + i.lower() for i in ids for p in ("coords_", "payloads_")}:
        side["output_dict_has_exactly_the_ranks_arrays"] = False
    cache = _StubCache()
    fibs = []
    ext = case["ish"] or case["tshape"]
    for r, rank in enumerate(ot):
        # r = 0 is the artificial root wrapper, r = k + 1 the tensor's rank k
        leaf = r == d
        nxt = ot[r + 1] if r < d else []
        row = []
        for f in rank:
            f.cache = cache
            name = names.get(type(f), type(f).__name__)
            o = {"fmt": name,
                 "next": names.get(f.next_fmt, "?") if f.next_fmt is not None else None,
                 "shape": _opt(f.shape) if name == "U" else (len(f.coords) if name == "B" else None),
                 "coords": [int(x) for x in f.coords], "occs": [int(x) for x in f.occupancies],
                 "vals": [_val(x, scale) for x in f.payloads] if leaf else [],
                 "npay": len(f.payloads),
                 "kids": [] if leaf else [_index_of(nxt, p) for p in f.payloads]}
            if r > 0:
                o.update({"nnz": _opt(f.nnz), "idx": _opt(f.idx_in_rank), "osf": _opt(f.occupancy_so_far)})
            with contextlib.redirect_stdout(buf):
                if asp == "size":
                    try:
                        o["size"] = int(f.getSize())
                    except AssertionError:
                        o["size"] = -1
                    except Exception as e:
                        o["size"] = -2
                        side["size_no_exception:" + H.err_class(e)] = False
                if asp == "scan":
                    try:
                        o["scan"] = _scan(f, name, nxt, leaf, scale)
                        if _scan(f, name, nxt, leaf, scale) != o["scan"]:
                            side["rescan_same"] = False
                        if r > 0:
                            # slices that start at a coordinate b > 0 (inside the rank's extent)
                            e = ext[r - 1]
                            o["scanb"] = [[b, _scan(f, name, nxt, leaf, scale, base=b)]
                                          for b in sorted({1, 2, e // 2, e}) if 1 <= b <= e]
                        if name == "U" and not leaf and r > 0:
                            ok = all(f.payloadToFiberHandle(ph) == res for _, ph, res in o["scan"] if ph is not None)
                            if not ok:
                                side["U_payloadToFiberHandle_is_child_index"] = False
                    except Exception as e:
                        o["scan"] = [["error", None, None]]
                        side["scan_no_exception:" + H.err_class(e)] = False
                if asp == "lookup" and name == "C":
                    hi = max(case["tshape"] + (case["ish"] or [])) + 2
                    try:
                        o["lookup"] = [[q, _opt(f.coordToHandle(q))] for q in range(-1, hi)]
                    except Exception as e:
                        o["lookup"] = []
                        side["lookup_no_exception:" + H.err_class(e)] = False
            row.append(o)
        if asp == "scan" and r > 0:
            with contextlib.redirect_stdout(buf):
                try:
                    for o, rows in zip(row, _scan_interleaved(rank, names, nxt, leaf, scale)):
                        o["scan2"] = rows
                except Exception as e:
                    for o in row:
                        o["scan2"] = [["error", None, None]]
                    side["interleaved_scan_no_exception:" + H.err_class(e)] = False
        fibs.append(row)
    if asp == "walk":
        rows = []
        with contextlib.redirect_stdout(buf):
            try:
                _walk(ot, names, d, 1, 0, [], rows, [20000], scale, dflt)
            except _WalkAbort:
                rows.append([["nonterminating"], None])
                side["walk_terminates"] = False
            except Exception as e:
                rows.append([["error"], None])
                side["walk_no_exception:" + H.err_class(e)] = False
        impl["walk"] = rows
    # the artificial root wrapper: one U fiber of shape 1 holding the top fiber; it stores the top
    # fiber's occupancy (payloads_root) iff the top format is explicit
    rf = fibs[0][0] if len(fibs[0]) == 1 else None
    explicit = desc[0] in "CB"
    ok = (rf is not None and rf["fmt"] == "U" and rf["shape"] == 1 and rf["kids"] == [0] and
          rf["occs"] == ([0] if explicit else []) and len(impl["root"]) == (1 if explicit else 0) and
          rf.get("size", len(impl["root"])) == len(impl["root"]) and rf.get("scan", [[0, 0, 0]]) == [[0, 0, 0]])
    if not ok:
        side["root_wrapper"] = False
    # nothing mutable is shared: every fiber object and every array is its own list
    lists = [l for rank in ot for f in rank for l in (f.coords, f.payloads, f.occupancies)] + list(out.values())
    if len({id(l) for l in lists}) != len(lists) or len({id(f) for rank in ot for f in rank}) != sum(map(len, ot)):
        side["no_shared_objects"] = False
    impl["rootfib"] = rf
    impl["fibs"] = fibs[1:]
    case["impl"] = impl
    if side:
        case["side"] = side
    return case


# ---------------------------------------------------------------------------------------
# classification
# ---------------------------------------------------------------------------------------

def _has_nonzero(t, depth):
    if depth == 1:
        return any(v != 0 for _, v in t)
    return any(_has_nonzero(s, depth - 1) for _, s in t)


def nontrivial(case, verdict):
    return _has_nonzero(case["t"], case["d"]) and (case["d"] >= 2 or case["fmts"] != "U")


def signature(case, verdict, failed):
    """classification of a failing case for known_findings.json"""
    asp = case["aspect"]
    tags = set(verdict.get("tags", []))
    why = verdict.get("why", "")
    rids = [r.lower() for r in (case.get("rids") or [])]
    if asp == "decode" and "spec" in failed and len(set(rids)) < len(rids) and \
            len(set(case["rids"])) == len(rids) and not verdict.get("agree"):
        # two ranks whose ids differ only in case share one pair of arrays
        return "decode:rank-ids-differ-only-in-case"
    return f"{asp}:{'/'.join(sorted(failed))}:{why[:40]}"


def shrink_candidates(case):
    def trees(t):
        if not isinstance(t, list):
            return
        for i in range(len(t)):
            yield t[:i] + t[i + 1:]
        for i, e in enumerate(t):
            c, sub = e
            if isinstance(sub, list):
                for s2 in trees(sub):
                    yield t[:i] + [[c, s2]] + t[i + 1:]
    for t2 in trees(case["t"]):
        c = dict(case)
        c["t"] = t2
        if not case["declared"]:
            est = est_shape(t2, case["d"])
            if case["ish"] and any(i < e for i, e in zip(case["ish"], est)):
                continue
            c["tshape"] = est
        yield c
    if case["ish"]:
        c = dict(case)
        c["ish"] = None
        yield c
