"""C13 — conversions between representations are lossless: correspondence cases.

Three families (field "op"):
  fromU   Fiber/Tensor.fromUncompressed of a rectangular nest, its shape, and
          uncompress(dims) / uncompress() of the result;
  yaml    fiber2dict/dict2fiber and dump/fromYAMLfile round trips of tensors and fibers
          (rank-0, names, explicit defaults, empty sub-fibers, transformed tensors incl.
          tuple coordinates, non-zero defaults);
  random  Fiber/Tensor.fromRandom with the draws recorded, run twice with the same seed.
"""
import contextlib, copy, io, itertools, json, os, random, tempfile
from harness import common as H

PROP = "C13"
RULE = ("fromU: every rectangular nest over {default, v} (quick: all dims with <=6 cells, depth 1-3; "
        "thorough: <=9 cells (<=8 at depth 4), depth 1-4) x {fiber, tensor} x default {0, 7}, plus seeded random nests "
        "depth 1-4 with int and float entries, all-default nests and all-default sub-nests forced; yaml: every "
        "small tree incl. explicit defaults / empty sub-fibers, rank-0 tensors, names, non-zero defaults, and "
        "tensors transformed by flatten (tuple/pair/linear), split, swizzle, swap; random: all (shape, density, "
        "default) over small grids x seeds. non-trivial = fromU: a non-default and a default entry both occur; "
        "yaml: at least one stored element; random: at least one hit and (density<1 or default hit). Widening: "
        "format U on every subset of ranks, float/negative defaults, multi-digit coordinates, special names / rank ids, "
        "declared shapes, inner defaults, fibers with declared shapes, double flatten, deprecated loader, extents 10-12 ")

FLOATS = [0.5, 1.5, -2.25, 3.125, 7.0, 0.0]
INTS = [1, 2, -3, 7, 0, 5]


# ---------------------------------------------------------------------------------------
# generators
# ---------------------------------------------------------------------------------------

def _dims_upto(depth, cells, maxdim=4):
    """all dims lists of length `depth`, every dim >= 1, product <= cells"""
    out = []

    def rec(pref, prod):
        if len(pref) == depth:
            out.append(list(pref))
            return
        for n in range(1, maxdim + 1):
            if prod * n <= cells:
                rec(pref + [n], prod * n)
    rec([], 1)
    return out


def _nest_from_flat(dims, flat):
    if len(dims) == 1:
        return list(flat[:dims[0]])
    step = 1
    for n in dims[1:]:
        step *= n
    return [_nest_from_flat(dims[1:], flat[i * step:(i + 1) * step]) for i in range(dims[0])]


def _rand_nest(rng, dims, dflt, pool, p_default):
    if len(dims) == 1:
        return [dflt if rng.random() < p_default else rng.choice(pool) for _ in range(dims[0])]
    out = []
    for _ in range(dims[0]):
        r = rng.random()
        if r < 0.15:   # an all-default sub-nest
            out.append(_rand_nest(rng, dims[1:], dflt, [dflt], 1.0))
        else:
            out.append(_rand_nest(rng, dims[1:], dflt, pool, p_default))
    return out


def _gen_fromU(rng, tier):
    cells = 6 if tier == "quick" else 9
    maxdepth = 3 if tier == "quick" else 4
    for depth in range(1, maxdepth + 1):
        lim = cells if depth < 4 else min(cells, 8)
        for dims in _dims_upto(depth, lim):
            n = 1
            for x in dims:
                n *= x
            for dflt, v in ((0, 3), (7, 0)):
                for bits in itertools.product([False, True], repeat=n):
                    flat = [v if b else dflt for b in bits]
                    nest = _nest_from_flat(dims, flat)
                    for kind in ("fiber", "tensor"):
                        yield {"prop": PROP, "op": "fromU", "kind": kind, "d": depth, "dflt": dflt,
                               "dims": dims, "nest": nest}
    nrand = 1500 if tier == "quick" else 80000
    for i in range(nrand):
        depth = rng.choice([1, 2, 2, 3, 3, 4])
        dims = [rng.choice([1, 2, 3, 4, 5]) for _ in range(depth)]
        dflt = rng.choice([0, 0, 7, -3, 0.5])
        pool = rng.choice([INTS, FLOATS, INTS + FLOATS])
        r = rng.random()
        if r < 0.06:
            nest = _rand_nest(rng, dims, dflt, [dflt], 1.0)
        else:
            nest = _rand_nest(rng, dims, dflt, pool, rng.choice([0.2, 0.5, 0.8]))
        if rng.random() < 0.1 and dflt == 0:
            nest = _float_zero(nest, rng)
        yield {"prop": PROP, "op": "fromU", "kind": rng.choice(["fiber", "tensor"]), "d": depth,
               "dflt": dflt, "dims": dims, "nest": nest}


def _float_zero(nest, rng):
    """replace some integer zeros by 0.0 (equal to the default 0, different type)"""
    if isinstance(nest, list):
        return [_float_zero(x, rng) for x in nest]
    if nest == 0 and rng.random() < 0.5:
        return 0.0
    return nest


TRANSFORMS = [None, ["flatten", 0, 1, "tuple"], ["flatten", 0, 1, "pair"], ["flatten", 0, 1, "linear"],
              ["flatten", 1, 1, "tuple"], ["flatten", 0, 2, "tuple"], ["split", 2, 0], ["split", 1, 1],
              ["swizzle"], ["swap", 0], ["flatten-unflatten"]]


def _gen_yaml(rng, tier):
    names = ["", "T", "my tensor", "a: b"]
    # rank-0 tensors
    for v in [0, 1, -3, 2.5, 7]:
        for name in names[:3]:
            for how in ("ctor", "fromU"):
                yield {"prop": PROP, "op": "yaml", "kind": "tensor", "d": 0, "dflt": 0, "name": name,
                       "build": {"rank0": v, "how": how}}
    # small scope: every depth-1 / depth-2 tree over 2-3 coordinates with explicit defaults / empty sub-fibers
    n1 = 3
    leafs = list(H.all_leaf_fibers(n1, [0, 1, 2.5]))
    for dflt in (0, 7):
        for tr in leafs:
            for kind in ("fiber", "tensor"):
                yield {"prop": PROP, "op": "yaml", "kind": kind, "d": 1, "dflt": dflt, "name": "L",
                       "build": {"tree": tr}}
    subs = list(H.all_leaf_fibers(2, [0, 1]))
    for dflt in (0, 7):
        for combo in itertools.product([None] + subs, repeat=2):
            tr = [[c, s] for c, s in enumerate(combo) if s is not None]
            for kind in ("fiber", "tensor"):
                yield {"prop": PROP, "op": "yaml", "kind": kind, "d": 2, "dflt": dflt, "name": "",
                       "build": {"tree": tr}}
    nrand = 500 if tier == "quick" else 24000
    for i in range(nrand):
        depth = rng.choice([1, 2, 2, 3, 3, 4])
        dflt = rng.choice([0, 0, 0, 7])
        name = rng.choice(names)
        kind = rng.choice(["tensor", "tensor", "fiber"])
        if rng.random() < 0.5:
            pool = rng.choice([INTS, FLOATS, INTS + FLOATS])
            tr = H.gen_tree(rng, depth, rng.choice([2, 3, 4]), pool, dflt)
            yield {"prop": PROP, "op": "yaml", "kind": kind, "d": depth, "dflt": dflt, "name": name,
                   "build": {"tree": tr}}
        else:
            dims = [rng.choice([1, 2, 3]) for _ in range(depth)]
            pool = rng.choice([INTS, FLOATS])
            nest = _rand_nest(rng, dims, dflt, pool, rng.choice([0.3, 0.6]))
            tf = rng.choice(TRANSFORMS)
            if tf is not None and (depth < 2 or (tf[0] == "flatten" and tf[1] + tf[2] >= depth)
                                   or (tf[0] == "split" and tf[2] >= depth)
                                   or (tf[0] == "swap" and depth < 2)):
                tf = None
            yield {"prop": PROP, "op": "yaml", "kind": "tensor", "d": depth, "dflt": dflt, "name": name,
                   "build": {"nest": nest, "transform": tf, "perm_seed": rng.randrange(1000)}}


def _gen_random(rng, tier):
    dens = [0.0, 0.25, 0.5, 0.75, 1.0]
    shapes = [[1], [3], [5], [2, 2], [3, 2], [2, 3], [1, 4], [2, 2, 2], [3, 1, 2], [2, 0], [0], [2, 2, 2, 2]]
    seeds = [0, 1] if tier == "quick" else [0, 1, 2, 3, 4, 5, 6, 7]
    for shape in shapes:
        for q in dens:
            for dflt in (0, 7, 2):
                for interval in (3, 10):
                    for seed in seeds:
                        for kind in ("fiber", "tensor"):
                            yield {"prop": PROP, "op": "random", "kind": kind, "shape": shape,
                                   "density": q, "interval": interval, "seed": seed, "dflt": dflt}
    nrand = 300 if tier == "quick" else 16000
    for i in range(nrand):
        depth = rng.choice([1, 2, 3, 4])
        shape = [rng.choice([1, 2, 3, 4, 6]) for _ in range(depth)]
        dflt = rng.choice([0, 0, 7, 1])
        if rng.random() < 0.5:
            density = rng.choice(dens)
        else:
            density = [rng.choice([0.5, 1.0, 1.0]) if dflt == 0 else 1.0 for _ in range(depth - 1)] + [rng.choice(dens)]
        yield {"prop": PROP, "op": "random", "kind": rng.choice(["fiber", "tensor"]), "shape": shape,
               "density": density, "interval": rng.choice([1, 2, 5, 10, 100]), "seed": rng.randrange(10 ** 6),
               "dflt": dflt}


NAMES_WIDE = ["null", "123", "yes", " lead", "\u00e9", "'q'", "a\nb", "~", "[x]", "{k: v}", "#c", "0x1F"]
DFLTS_WIDE = [0, 7, 0.5, 7.0, -3]
CMAPS = [[9, 10, 100, 101, 1000], [1, 9, 10, 11, 99], [0, 10, 20, 100, 200]]


def _subsets(n):
    for k in range(1, 2 ** n):
        yield [i for i in range(n) if k >> i & 1]


def _gen_wide(rng, tier):
    """input classes added by the widening round: rank format U (Tensor.setFormat / an unowned
    fiber's own RankAttrs), float and negative defaults, multi-digit coordinates, YAML-special names
    and rank ids, declared shapes larger than needed, fibers whose own default differs from the
    tensor's, fibers with declared shapes, twice-flattened tensors, larger extents"""
    quick = tier == "quick"
    # --- fromU under format U: every small nest x every non-empty set of U ranks
    for depth in (1, 2, 3):
        lim = 4 if (depth < 3 or not quick) else 2
        for dims in _dims_upto(depth, lim):
            n = 1
            for x in dims:
                n *= x
            for dflt, v in ((0, 3), (7, 0)):
                for bits in itertools.product([False, True], repeat=n):
                    nest = _nest_from_flat(dims, [v if b else dflt for b in bits])
                    for fmt in _subsets(depth):
                        for kind in ("fiber", "tensor"):
                            yield {"prop": PROP, "op": "fromU", "kind": kind, "d": depth, "dflt": dflt,
                                   "dims": dims, "nest": nest, "fmt": fmt}
    for i in range(300 if quick else 12000):
        depth = rng.choice([1, 2, 2, 3, 4])
        dims = [rng.choice([1, 2, 3, 4]) for _ in range(depth)]
        if depth <= 2 and rng.random() < 0.3:
            dims[rng.randrange(depth)] = rng.choice([10, 11, 12])
        dflt = rng.choice(DFLTS_WIDE)
        pool = rng.choice([INTS, FLOATS, INTS + FLOATS])
        nest = _rand_nest(rng, dims, dflt, pool if rng.random() > 0.08 else [dflt], rng.choice([0.2, 0.5, 0.8]))
        fmt = [l for l in range(depth) if rng.random() < 0.4] if rng.random() < 0.6 else []
        yield {"prop": PROP, "op": "fromU", "kind": rng.choice(["fiber", "tensor"]), "d": depth,
               "dflt": dflt, "dims": dims, "nest": nest, "fmt": fmt}
    # --- yaml: leaf fibers with multi-digit coordinates and float / negative defaults
    leafs = list(H.all_leaf_fibers(3, [0, 1, 2.5]))
    for dflt in (0.5, 7.0, -3):
        for tr in leafs:
            for kind in ("fiber", "tensor"):
                yield {"prop": PROP, "op": "yaml", "kind": kind, "d": 1, "dflt": dflt, "name": "L",
                       "build": {"tree": tr, "cmap": CMAPS[0]}}
    # special names / rank ids
    two = [[0, [[1, 2]]], [2, [[0, 5], [1, 0]]]]
    for nm in NAMES_WIDE:
        yield {"prop": PROP, "op": "yaml", "kind": "tensor", "d": 2, "dflt": 0, "name": nm,
               "build": {"tree": two, "rank_ids": [nm, "B"]}}
        yield {"prop": PROP, "op": "yaml", "kind": "tensor", "d": 0, "dflt": 0, "name": nm,
               "build": {"rank0": 3, "how": "ctor"}}
    # fibers with declared shapes (Fiber.fromUncompressed), every small nest
    for depth in (1, 2):
        for dims in _dims_upto(depth, 4):
            n = 1
            for x in dims:
                n *= x
            for dflt, v in ((0, 3), (7, 0)):
                for bits in itertools.product([False, True], repeat=n):
                    nest = _nest_from_flat(dims, [v if b else dflt for b in bits])
                    yield {"prop": PROP, "op": "yaml", "kind": "fiber", "d": depth, "dflt": dflt, "name": "",
                           "build": {"fiber_nest": nest}}
    # inner fibers built with default 0 inside Tensor.fromFiber(default=7); declared shape larger than needed
    subs = list(H.all_leaf_fibers(2, [0, 7]))
    for combo in itertools.product([None] + subs, repeat=2):
        tr = [[c, s2] for c, s2 in enumerate(combo) if s2 is not None]
        yield {"prop": PROP, "op": "yaml", "kind": "tensor", "d": 2, "dflt": 7, "name": "",
               "build": {"tree": tr, "inner_dflt": 0}}
        yield {"prop": PROP, "op": "yaml", "kind": "tensor", "d": 2, "dflt": 0, "name": "",
               "build": {"tree": tr, "extra_shape": [1, 2]}}
    for i in range(400 if quick else 16000):
        depth = rng.choice([1, 2, 2, 3, 3, 4])
        dflt = rng.choice(DFLTS_WIDE)
        name = rng.choice(NAMES_WIDE + ["", "T"])
        r = rng.random()
        if r < 0.45:
            pool = rng.choice([INTS, FLOATS, INTS + FLOATS])
            b = {"tree": H.gen_tree(rng, depth, rng.choice([2, 3, 4, 5]), pool, dflt)}
            kind = rng.choice(["tensor", "tensor", "fiber"])
            if rng.random() < 0.5:
                b["cmap"] = rng.choice(CMAPS)
            if kind == "tensor":
                if rng.random() < 0.3:
                    b["inner_dflt"] = rng.choice([0, 0, 1])
                if rng.random() < 0.3:
                    b["extra_shape"] = [rng.choice([0, 1, 3]) for _ in range(depth)]
                if rng.random() < 0.3:
                    ids = rng.sample(NAMES_WIDE + ["A", "B", "C", "D"], depth)
                    b["rank_ids"] = ids
            yield {"prop": PROP, "op": "yaml", "kind": kind, "d": depth, "dflt": dflt, "name": name, "build": b}
        elif r < 0.65:
            dims = [rng.choice([1, 2, 3, 4]) for _ in range(depth)]
            nest = _rand_nest(rng, dims, dflt, rng.choice([INTS, FLOATS]), rng.choice([0.3, 0.6, 0.9]))
            yield {"prop": PROP, "op": "yaml", "kind": "fiber", "d": depth, "dflt": dflt, "name": "",
                   "build": {"fiber_nest": nest}}
        else:
            dims = [rng.choice([1, 2, 3]) for _ in range(depth)]
            nest = _rand_nest(rng, dims, dflt, rng.choice([INTS, FLOATS]), rng.choice([0.3, 0.6]))
            tf = rng.choice(TRANSFORMS + [["flatten2"], ["flatten2"]])
            if tf is not None and (depth < 2 or (tf[0] == "flatten" and tf[1] + tf[2] >= depth)
                                   or (tf[0] == "split" and tf[2] >= depth)
                                   or (tf[0] == "flatten2" and depth < 3)):
                tf = None
            yield {"prop": PROP, "op": "yaml", "kind": "tensor", "d": depth, "dflt": dflt, "name": name,
                   "build": {"nest": nest, "transform": tf, "perm_seed": rng.randrange(1000)}}
    # --- fiber-level dump/load of fibers taken out of transformed tensors (tuple coordinates at the top or below)
    ftf = [["flatten", 0, 1, "tuple"], ["flatten", 0, 1, "pair"], ["flatten", 1, 1, "tuple"], ["flatten", 0, 2, "tuple"],
           ["flatten2"], ["split", 1, 0], ["swap", 0], None]
    for dims in ([2, 2], [2, 1, 2]):
        n = 1
        for x in dims:
            n *= x
        for bits in itertools.product([False, True], repeat=n):
            nest = _nest_from_flat(dims, [3 if b2 else 0 for b2 in bits])
            for tf in ftf:
                if tf is not None and ((tf[0] == "flatten" and tf[1] + tf[2] >= len(dims)) or (tf[0] == "flatten2" and len(dims) < 3)):
                    continue
                yield {"prop": PROP, "op": "yaml", "kind": "fiber", "d": len(dims), "dflt": 0, "name": "",
                       "build": {"nest": nest, "transform": tf, "perm_seed": 0}}
    for i in range(150 if quick else 6000):
        depth = rng.choice([2, 3, 3, 4])
        dflt = rng.choice(DFLTS_WIDE)
        dims = [rng.choice([1, 2, 3]) for _ in range(depth)]
        nest = _rand_nest(rng, dims, dflt, rng.choice([INTS, FLOATS]), rng.choice([0.3, 0.6]))
        tf = rng.choice(ftf + TRANSFORMS)
        if tf is not None and ((tf[0] == "flatten" and tf[1] + tf[2] >= depth) or (tf[0] == "split" and tf[2] >= depth)
                               or (tf[0] == "flatten2" and depth < 3)):
            tf = None
        yield {"prop": PROP, "op": "yaml", "kind": "fiber", "d": depth, "dflt": dflt, "name": "",
               "build": {"nest": nest, "transform": tf, "perm_seed": rng.randrange(1000)}}
    # --- defaults that are not numbers: None ("no empty value"), "" and () — every entry is non-default
    NN = [{"nonnum": "None"}, {"nonnum": "str"}, {"nonnum": "tuple"}]
    for dims in _dims_upto(1, 3) + _dims_upto(2, 4):
        n = 1
        for x in dims:
            n *= x
        for bits in itertools.product([False, True], repeat=n):
            nest = _nest_from_flat(dims, [3 if b2 else 0 for b2 in bits])
            for dflt in NN[:1] if quick and len(dims) == 2 else NN:
                for kind in ("fiber", "tensor"):
                    yield {"prop": PROP, "op": "fromU", "kind": kind, "d": len(dims), "dflt": dflt,
                           "dims": dims, "nest": nest}
                    if n <= 2 or not quick:
                        yield {"prop": PROP, "op": "yaml", "kind": kind, "d": len(dims), "dflt": dflt, "name": "N",
                               "build": {"fiber_nest": nest} if kind == "fiber" else {"nest": nest, "transform": None}}
    for shape in ([3], [2, 2], [2, 1, 2]):
        for q in (0.0, 0.5, 1.0):
            for dflt in NN:
                for kind in ("fiber", "tensor"):
                    yield {"prop": PROP, "op": "random", "kind": kind, "shape": shape, "density": q,
                           "interval": 3, "seed": 1, "dflt": dflt}
    for i in range(100 if quick else 4000):
        depth = rng.choice([1, 2, 3])
        dims = [rng.choice([1, 2, 3]) for _ in range(depth)]
        dflt = rng.choice(NN)
        nest = _rand_nest(rng, dims, 0, rng.choice([INTS, FLOATS]), 0.4)
        kind = rng.choice(["fiber", "tensor"])
        if rng.random() < 0.5:
            yield {"prop": PROP, "op": "fromU", "kind": kind, "d": depth, "dflt": dflt, "dims": dims, "nest": nest}
        else:
            yield {"prop": PROP, "op": "yaml", "kind": kind, "d": depth, "dflt": dflt, "name": rng.choice(["", "T"]),
                   "build": {"fiber_nest": nest} if kind == "fiber" else {"nest": nest, "transform": None}}
    # --- random: extents beyond one digit
    for shape in ([12], [11, 2], [2, 11], [10, 1, 2]):
        for q in (0.0, 0.25, 0.5, 0.75, 1.0):
            for dflt in (0, 7):
                for seed in ((0, 1) if quick else (0, 1, 2, 3)):
                    for kind in ("fiber", "tensor"):
                        yield {"prop": PROP, "op": "random", "kind": kind, "shape": shape, "density": q,
                               "interval": 10, "seed": seed, "dflt": dflt}


def gen(seed, tier):
    rng = random.Random(seed)
    yield from _gen_fromU(rng, tier)
    yield from _gen_yaml(rng, tier)
    yield from _gen_random(rng, tier)
    yield from _gen_wide(random.Random(seed + 1), tier)


# ---------------------------------------------------------------------------------------
# abstraction function
# ---------------------------------------------------------------------------------------

NONNUM = {"None": None, "str": "", "tuple": ()}


def _pyd(d):
    """the Python default a case's "dflt" stands for: a number, or {"nonnum": kind} for None / "" / ()"""
    return NONNUM[d["nonnum"]] if isinstance(d, dict) else d


def _dnum(v):
    """a default as JSON (inverse of _pyd)"""
    Payload = H.ft().Payload
    v = Payload.get(v)
    for k, x in NONNUM.items():
        if v is x or (type(v) is type(x) and x is not None and v == x):
            return {"nonnum": k}
    return _num(v)


def _leaf_default(root, depth, fallback):
    """the default the object's leaf-level fibers report (tensor: the leaf rank's); `fallback` when no
    leaf-level fiber exists (an empty fiber above the leaf level)"""
    Fiber, Payload = H.ft().Fiber, H.ft().Payload
    found = []

    def walk(f, lvl):
        if lvl == depth - 1:
            found.append(_dnum(f.getDefault()))
            return
        for p in f.payloads:
            p = Payload.get(p)
            if isinstance(p, Fiber):
                walk(p, lvl + 1)
    if isinstance(root, Fiber):
        walk(root, 0)
    if not found:
        return fallback
    return found[0] if all(x == found[0] for x in found) else {"obj": "mixed-defaults"}


def _num(v):
    if isinstance(v, bool):
        return {"obj": "bool"}
    if isinstance(v, (int, float)):
        if v != v or v in (float("inf"), float("-inf")):
            return {"obj": "nonfinite"}
        return v
    return {"obj": type(v).__name__}


def _coord(c):
    """a coordinate (or shape entry) as JSON: int stays, a TUPLE becomes a list; a Python LIST (never a legal
    coordinate: not hashable, not comparable with tuples) is tagged so that the driver rejects it"""
    if isinstance(c, tuple):
        return [_coord(x) for x in c]
    if isinstance(c, list):
        return {"list": [_coord(x) for x in c]}
    if isinstance(c, bool) or not isinstance(c, int):
        return {"obj": type(c).__name__}
    return c


def _shape(sh):
    return [_coord(x) for x in sh] if isinstance(sh, (list, tuple)) else _plain(sh)


def snap(obj):
    """raw walk over coords/payloads; leaves are the unboxed numbers"""
    Fiber, Payload = H.ft().Fiber, H.ft().Payload
    if isinstance(obj, Payload):
        obj = obj.value
        if isinstance(obj, Payload):
            return {"obj": "dbox"}
    if isinstance(obj, Fiber):
        if len(obj.coords) != len(obj.payloads):
            return {"obj": "mismatch"}
        return [[_coord(c), snap(p)] for c, p in zip(obj.coords, obj.payloads)]
    return _num(obj)


def _plain(x):
    """tuples -> lists, numbers stay, for JSON"""
    if isinstance(x, (tuple, list)):
        return [_plain(y) for y in x]
    if isinstance(x, dict):
        return {str(k): _plain(v) for k, v in x.items()}
    if isinstance(x, (int, float, str)) or x is None:
        return x
    return {"obj": type(x).__name__}


def _try(fn):
    try:
        with contextlib.redirect_stdout(io.StringIO()):
            return fn(), None
    except BaseException as e:      # SystemExit (exit(1) in parse) is an observation too
        if isinstance(e, KeyboardInterrupt):
            raise
        return None, H.err_class(e)


# ---------------------------------------------------------------------------------------
# runners
# ---------------------------------------------------------------------------------------

def _run_fromU(case):
    ft = H.ft()
    nest0 = copy.deepcopy(case["nest"])
    dims, dflt = case["dims"], _pyd(case["dflt"])
    impl, side, errs = {}, {}, {}
    if case["kind"] == "fiber":
        obj, e = _try(lambda: ft.Fiber.fromUncompressed(case["nest"], default=dflt))
        root = obj
    else:
        ids = [f"R{len(dims) - 1 - i}" for i in range(len(dims))]
        obj, e = _try(lambda: ft.Tensor.fromUncompressed(rank_ids=ids, root=case["nest"], default=dflt))
        root = obj.getRoot() if obj is not None else None
    if not e and case.get("fmt"):
        _, e = _try(lambda: _set_format_u(obj, root, case["fmt"], case["kind"] == "tensor"))
    if e:
        errs["build"] = e
        impl.update({"tree": None, "shape": None, "unc": None, "unc0": None})
    else:
        impl["tree"] = snap(root)
        # the default the built object itself reports for its leaf level (content is relative to it)
        impl["dflt"] = (_dnum(obj.getDefault()) if case["kind"] == "tensor"
                        else _leaf_default(root, len(dims), case["dflt"]))
        sh, e = _try(lambda: obj.getShape())
        impl["shape"] = _plain(sh)
        if e:
            errs["shape"] = e
        u, e = _try(lambda: root.uncompress(list(dims)))
        impl["unc"] = _unc(u, len(dims))
        if e:
            errs["unc"] = e
        elif impl["unc"] is None:
            errs["unc"] = "NOT-A-NEST-OF-VALUES"

        u0, e = _try(lambda: root.uncompress())
        impl["unc0"] = _unc(u0, len(dims))
        if e:
            errs["unc0"] = e
        elif impl["unc0"] is None:
            errs["unc0"] = "NOT-A-NEST-OF-VALUES"

        side["result_unchanged_by_uncompress"] = snap(root) == impl["tree"]
        # the same object asked again answers the same; the answer is made of fresh, pairwise distinct lists
        u2, _ = _try(lambda: root.uncompress(list(dims)))
        side["uncompress_repeatable"] = _unc(u2, len(dims)) == impl["unc"]
        if isinstance(u, list) and isinstance(u2, list):
            ids = _list_ids(u) + _list_ids(u2)
            side["uncompress_lists_fresh"] = len(ids) == len(set(ids)) and not (set(ids) & set(_list_ids(case["nest"])))
    side["nest_unchanged"] = case["nest"] == nest0 and _types(case["nest"]) == _types(nest0)
    case["impl"], case["side"] = impl, side
    if errs:
        case["implerr"] = errs
    return case


def _list_ids(n):
    return ([id(n)] + [i for x in n for i in _list_ids(x)]) if isinstance(n, list) else []


def _set_format_u(obj, root, levels, is_tensor):
    """rank format "U" on the given levels: Tensor.setFormat, or each unowned fiber's own RankAttrs"""
    Fiber, Payload = H.ft().Fiber, H.ft().Payload
    if is_tensor:
        ids = obj.getRankIds()
        for l in levels:
            obj.setFormat(ids[l], "U")
        return

    def walk(f, lvl):
        if lvl in levels:
            f.getRankAttrs().setFormat("U")
        for p in f.payloads:
            p = Payload.get(p)
            if isinstance(p, Fiber):
                walk(p, lvl + 1)
    walk(root, 0)


def _types(n):
    return [_types(x) for x in n] if isinstance(n, list) else type(n).__name__


def _unc(u, depth=None):
    """an uncompressed nest as JSON; None when it is not a nest of numbers of the expected depth
    (e.g. filled with class objects, or of the wrong depth because the shape used was too short)"""
    if u is None:
        return None

    def ok(x, d):
        if d == 0:
            return not isinstance(x, list) and not isinstance(_num(x), dict)
        return isinstance(x, list) and all(ok(y, d - 1) for y in x)
    if depth is not None and not ok(u, depth):
        return None
    if isinstance(u, list):
        return [_unc(x) for x in u]
    return _num(u)


def _build_yaml_obj(case):
    """returns (object, default) : a Tensor or a Fiber built through public constructors"""
    ft = H.ft()
    b, d, dflt = case["build"], case["d"], _pyd(case["dflt"])
    name = case.get("name", "")
    if "rank0" in b:
        if b["how"] == "ctor":
            t = ft.Tensor(rank_ids=[], name=name)
            t.getRoot().value = b["rank0"]
        else:
            t = ft.Tensor.fromUncompressed(rank_ids=[], root=b["rank0"])
            t.setName(name)
        return t
    if "fiber_nest" in b:     # a fiber that carries declared shapes
        return ft.Fiber.fromUncompressed(copy.deepcopy(b["fiber_nest"]), default=dflt)
    if "tree" in b:
        tree = _cmap(b["tree"], b["cmap"]) if b.get("cmap") else b["tree"]
        f = _build_fiber(tree, d, b.get("inner_dflt", dflt) if case["kind"] == "tensor" else dflt)
        if case["kind"] == "fiber":
            return f
        ids = b.get("rank_ids") or [f"R{d - 1 - i}" for i in range(d)]
        if b.get("extra_shape"):   # a declared shape larger than needed
            est = f.estimateShape() if d > 0 else []
            shape = [x + y for x, y in zip(est, b["extra_shape"])]
            return ft.Tensor.fromFiber(rank_ids=ids, fiber=f, shape=shape, default=dflt, name=name)
        return ft.Tensor.fromFiber(rank_ids=ids, fiber=f, default=dflt, name=name)
    ids = [chr(ord("A") + i) for i in range(d)]
    t = ft.Tensor.fromUncompressed(rank_ids=ids, root=copy.deepcopy(b["nest"]), default=dflt, name=name)
    tf = b.get("transform")
    if tf:
        if tf[0] == "flatten":
            t = t.flattenRanks(depth=tf[1], levels=tf[2], coord_style=tf[3])
        elif tf[0] == "split":
            t = t.splitUniform(tf[1], depth=tf[2])
        elif tf[0] == "swizzle":
            perm = list(ids)
            random.Random(b.get("perm_seed", 0)).shuffle(perm)
            t = t.swizzleRanks(perm)
        elif tf[0] == "swap":
            t = t.swapRanks(tf[1])
        elif tf[0] == "flatten-unflatten":
            t = t.flattenRanks().unflattenRanks()
        elif tf[0] == "flatten2":
            t = t.flattenRanks().flattenRanks()
        t.setName(name)   # transforms decorate the name; the round trip is what is examined
    if case["kind"] == "fiber":   # dump / load at FIBER level: the (tensor-owned) root of the transformed tensor
        case["fdepth"] = len(t.getRankIds())
        return t.getRoot()
    return t


def _cmap(tree, cmap):
    if not isinstance(tree, list):
        return tree
    return [[cmap[c], _cmap(sub, cmap)] for c, sub in tree]


def _fiber_ids(root):
    Fiber, Payload = H.ft().Fiber, H.ft().Payload
    root = Payload.get(root)
    if not isinstance(root, Fiber):
        return []
    return [id(root)] + [i for p in root.payloads for i in _fiber_ids(p)]


def _build_fiber(tree, depth, dflt):
    F = H.ft().Fiber
    if depth == 1:
        return F([c for c, _ in tree], [v for _, v in tree], default=dflt)
    return F([c for c, _ in tree], [_build_fiber(s, depth - 1, dflt) for _, s in tree], default=dflt)


def _odflt(obj, is_tensor, depth, case):
    """the leaf default the object really has (some transforms do not carry it)"""
    Payload = H.ft().Payload
    return Payload.get(obj.getDefault()) if is_tensor and depth >= 1 else _pyd(case["dflt"])


_TMP = {}


def _proc_tmp():
    """one scratch directory per worker process (file names are re-used across cases on purpose)"""
    pid = os.getpid()
    if pid not in _TMP:
        import atexit, shutil
        d = tempfile.mkdtemp(prefix=f"c13-{pid}-")
        _TMP[pid] = d
        atexit.register(shutil.rmtree, d, True)
    return _TMP[pid]


def _run_yaml(case):
    ft = H.ft()
    Fiber, Tensor, Payload = ft.Fiber, ft.Tensor, ft.Payload
    obj, e = _try(lambda: _build_yaml_obj(case))
    if e:   # constructing the object (fromUncompressed / fromFiber / a transform) failed: an observation
        case["orig"] = None
        case["impl"], case["side"], case["implerr"] = {"built": False}, {}, {"build": e}
        return case
    is_tensor = isinstance(obj, Tensor)
    root = obj.getRoot() if is_tensor else obj
    if is_tensor:
        depth = len(obj.getRankIds())
        orig = {"tree": snap(root), "rank_ids": [json.dumps(_plain(r)) for r in obj.getRankIds()],
                "shape": _shape(obj.getShape()), "name": obj.getName()}
    else:
        depth = case.get("fdepth", case["d"])
        orig = {"tree": snap(root), "rank_ids": [], "shape": [], "name": ""}
        orig["fshape"] = _plain(_try(lambda: obj.getShape())[0])
    orig["depth"] = depth
    # the leaf default the object really has (some transforms, e.g. unflattenRanks, do not carry it)
    odflt = _odflt(obj, is_tensor, depth, case)
    orig["dflt"] = _dnum(odflt)
    # the default asked for at construction (transforms may legitimately not carry it: C14)
    if not (case["build"].get("transform") or "rank0" in case["build"]):
        orig["req_dflt"] = case["dflt"]
    case["orig"] = orig
    impl, side, errs = {}, {}, {}

    # dictionary form
    def to_dict():
        return Payload.payload2dict(root) if isinstance(root, Payload) else root.fiber2dict()
    dct, e = _try(to_dict)
    if e:
        errs["dict"] = e
    impl["dict"] = _plain(dct) if dct is not None else None
    # the dictionary form holds no default: dict2fiber takes it as an argument (like Fiber.fromYAMLfile)
    back, e = _try(lambda: Fiber.dict2fiber(copy.deepcopy(dct), default=_odflt(obj, is_tensor, depth, case)))
    if e:
        errs["dict2fiber"] = e
    impl["dict_rt"] = snap(back) if back is not None else None
    if back is not None:
        if isinstance(root, Payload):
            eqv, e = _try(lambda: bool(root == back))
        else:
            eqv, e = _try(lambda: bool(back == root) and bool(root == back))
        if e:
            errs["dict_eq"] = e
        impl["dict_eq"] = bool(eqv)
    else:
        impl["dict_eq"] = False

    # YAML file
    # the SAME path is used by every case of this process, and within the case it is first written and loaded
    # with a different object of the same kind (state kept per file name must not leak into the round trip)
    tmp = _proc_tmp()
    if True:
        path = os.path.join(tmp, "tensor.yaml" if is_tensor else "fiber.yaml")
        decoy = (Tensor.fromFiber(rank_ids=["Q"], fiber=Fiber([5], [41]), name="decoy") if is_tensor
                 else Fiber([5], [41]))
        _try(lambda: decoy.dump(path))
        _try(lambda: Tensor.fromYAMLfile(path) if is_tensor else Fiber.fromYAMLfile(path))
        if is_tensor:
            _try(lambda: Tensor(yamlfile=path))
        _, e = _try(lambda: obj.dump(path))
        loaded = cloaded = None
        if e:
            errs["dump"] = e
        else:
            text1 = open(path).read()
            if is_tensor:
                loaded, e = _try(lambda: Tensor.fromYAMLfile(path))
                # the deprecated loader
                cloaded, ce = _try(lambda: Tensor(yamlfile=path))
                if ce:
                    errs["ctor_load"] = ce
            else:
                # a fiber file holds neither default nor shape: both are loader arguments
                own = obj.getRankAttrs().getShape()
                kw = {"shape": own} if own is not None else {}
                loaded, e = _try(lambda: Fiber.fromYAMLfile(path, default=odflt, **kw))
            if e:
                errs["load"] = e
            # the same object dumped again writes the same file
            path2 = os.path.join(tmp, "y.yaml")
            _, e2 = _try(lambda: obj.dump(path2))
            side["dump_repeatable"] = e2 is None and open(path2).read() == text1
    if is_tensor:
        if cloaded is None:
            impl["ctor"] = None
        else:
            croot = cloaded.getRoot()
            a, _e1 = _try(lambda: bool(cloaded == obj))
            b2, _e2 = _try(lambda: bool(obj == cloaded))
            impl["ctor"] = {"tree": snap(croot), "rank_ids": [json.dumps(_plain(r)) for r in cloaded.getRankIds()],
                            "shape": _shape(cloaded.getShape()), "name": cloaded.getName(),
                            "eq": bool(a) and bool(b2)}
    if loaded is None:
        impl["loaded"] = None
        impl["eq"] = impl["eq_rev"] = False
    else:
        lroot = loaded.getRoot() if is_tensor else loaded
        if is_tensor:
            impl["loaded"] = {"tree": snap(lroot), "rank_ids": [json.dumps(_plain(r)) for r in loaded.getRankIds()],
                              "shape": _shape(loaded.getShape()), "name": loaded.getName()}
            if depth >= 1:
                impl["loaded_dflt"] = _dnum(loaded.getDefault())
        else:
            impl["loaded"] = {"tree": snap(lroot), "rank_ids": [], "shape": [], "name": ""}
            impl["loaded_fshape"] = _plain(_try(lambda: loaded.getShape())[0])
        # no fiber object is reachable twice, none is shared with the original
        lids = _fiber_ids(lroot)
        side["loaded_fibers_fresh"] = len(lids) == len(set(lids)) and not (set(lids) & set(_fiber_ids(root)))
        a, e1 = _try(lambda: bool(loaded == obj))
        b, e2 = _try(lambda: bool(obj == loaded))
        if e1 or e2:
            errs["eq"] = e1 or e2
        impl["eq"], impl["eq_rev"] = bool(a), bool(b)
    side["original_unchanged"] = snap(root) == orig["tree"]
    case["impl"], case["side"] = impl, side
    if errs:
        case["implerr"] = errs
    return case


class _Recorder:
    """stands in for the `random` module inside fibertree.core.fiber: forwards everything,
    records float draws (random()) and integer draws (randint/randrange/...)"""

    def __init__(self, real):
        self._real = real
        self.us, self.ints = [], []

    def __getattr__(self, name):
        attr = getattr(self._real, name)
        if not callable(attr) or name in ("seed", "getstate", "setstate", "Random", "SystemRandom"):
            return attr

        def wrapped(*a, **k):
            r = attr(*a, **k)
            if isinstance(r, float):
                self.us.append(r)
            elif isinstance(r, int) and not isinstance(r, bool):
                self.ints.append(r)
            return r
        return wrapped


def _run_random(case):
    ft = H.ft()
    fm = ft.fiber_mod
    shape, density, interval = case["shape"], case["density"], case["interval"]
    seed, dflt = case["seed"], _pyd(case["dflt"])
    impl, side, errs = {}, {}, {}

    def build():
        if case["kind"] == "fiber":
            return ft.Fiber.fromRandom(list(shape), copy.deepcopy(density), interval, seed, default=dflt)
        ids = [f"R{len(shape) - 1 - i}" for i in range(len(shape))]
        return ft.Tensor.fromRandom(rank_ids=ids, shape=list(shape), density=copy.deepcopy(density),
                                    interval=interval, seed=seed, default=dflt)
    real = fm.random
    rec = _Recorder(real)
    fm.random = rec
    try:
        o1, e = _try(build)
    finally:
        fm.random = real
    if e:
        errs["build"] = e
        impl.update({"tree": None, "shape": None, "us": [], "is": []})
    else:
        r1 = o1.getRoot() if case["kind"] == "tensor" else o1
        impl["tree"] = snap(r1)
        impl["shape"] = _plain(o1.getShape()) if case["kind"] == "tensor" else None
        impl["dflt"] = (_dnum(o1.getDefault()) if case["kind"] == "tensor" and len(shape) >= 1
                        else _leaf_default(r1, len(shape), case["dflt"]))
        impl["us"] = [int(u * (1 << 53)) for u in rec.us]
        impl["is"] = list(rec.ints)
        side["draws_exact"] = all(int(u * (1 << 53)) == u * (1 << 53) for u in rec.us)
        # same seed again, after disturbing the global generator
        random.random(); random.randint(1, 5)
        o2, e2 = _try(build)
        if e2:
            errs["rebuild"] = e2
            side["reproducible"] = False
        else:
            r2 = o2.getRoot() if case["kind"] == "tensor" else o2
            side["reproducible"] = snap(r2) == impl["tree"]
    case["impl"], case["side"] = impl, side
    if errs:
        case["implerr"] = errs
    return case


def run(case):
    case = dict(case)
    op = case["op"]
    if op == "fromU":
        return _run_fromU(case)
    if op == "yaml":
        return _run_yaml(case)
    if op == "random":
        return _run_random(case)
    raise ValueError(op)


# ---------------------------------------------------------------------------------------
# classification
# ---------------------------------------------------------------------------------------

def nontrivial(case, verdict):
    t = set(verdict.get("tags", []))
    if case["op"] == "fromU":
        return "mixed" in t
    if case["op"] == "yaml":
        return "stored" in t or "rank0" in t
    return "hit" in t and bool(t & {"miss", "dropDefault", "full"})


def _flat(n):
    if isinstance(n, list):
        for x in n:
            yield from _flat(x)
    else:
        yield n


def _has_tuple(tree):
    if not isinstance(tree, list):
        return False
    for e in tree:
        if isinstance(e, list) and len(e) == 2:
            if isinstance(e[0], list) or _has_tuple(e[1]):
                return True
    return False


def _leaves(tree):
    if isinstance(tree, list):
        for e in tree:
            if isinstance(e, list) and len(e) == 2:
                yield from _leaves(e[1])
    else:
        yield tree


# Known failure classes (root causes), in priority order.  A failing clause is attributed to a class
# only when the case satisfies the class's input predicate; a failing clause that cannot be attributed
# makes the signature "unclassified" and is therefore never hidden by known_findings.json.
CLASSES = ["U2:fiber-shape-of-all-default-nest", "U3:uncompress-of-unowned-fiber-with-format-U-above-the-leaf",
           "Y4:fiber-yaml-drops-declared-shapes-of-nested-fibers"]


def _absent_below(nest, dflt, level, levels):
    """does some list at one of `levels` (0 = outermost) have an all-default child sub-nest?"""
    if not isinstance(nest, list) or not nest or not isinstance(nest[0], list):
        return False
    here = level in levels and any(all(x == dflt for x in _flat(ch)) for ch in nest)
    return here or any(_absent_below(ch, dflt, level + 1, levels) for ch in nest)


def _attribute(case, clause):
    op, impl = case["op"], case.get("impl") or {}
    if op == "fromU":
        alldef = all(x == case["dflt"] for x in _flat(case["nest"]))
        deep = len(case["dims"]) >= 2
        if alldef and deep and case["kind"] == "fiber" and impl.get("shape") == [case["dims"][0]]:
            # the one-element shape itself, and uncompress() without argument which uses it
            if clause in ("shape", "uncompress-noarg"):
                return CLASSES[0]
        upper = [l for l in case.get("fmt") or [] if l < len(case["dims"]) - 1]
        if (clause in ("uncompress", "uncompress-noarg") and case["kind"] == "fiber" and upper
                and (alldef or _absent_below(case["nest"], case["dflt"], 0, upper))):
            return CLASSES[1]
    if op == "yaml":
        orig, b = case.get("orig") or {}, case.get("build") or {}
        fs, lfs = orig.get("fshape"), impl.get("loaded_fshape")
        if (clause == "fiber-shape" and case["kind"] == "fiber" and ("fiber_nest" in b or "nest" in b) and orig.get("depth", 0) >= 2
                and isinstance(fs, list) and isinstance(lfs, list) and fs[:1] == lfs[:1]):
            return CLASSES[2]
    return None


def signature(case, verdict, failed):
    """classification of a failing case for known_findings.json"""
    why = verdict.get("why", "") if isinstance(verdict, dict) else ""
    clauses = sorted(set(w for w in why.split(",") if w))
    other = sorted(f for f in failed if f != "spec")
    classes, unattributed = set(), []
    for cl in clauses:
        a = _attribute(case, cl)
        if a is None:
            unattributed.append(cl)
        else:
            classes.add(a)
    if other or unattributed or not classes:
        return f"{case['op']}:{case.get('kind')}:unclassified:{'+'.join(unattributed + other) or 'spec'}"
    return min(classes, key=CLASSES.index)


def shrink_candidates(case):
    """smaller cases of the same family"""
    if case["op"] == "fromU":
        dims, nest = case["dims"], case["nest"]
        # drop the last slice along any axis
        for ax in range(len(dims)):
            if dims[ax] > 1:
                c = dict(case)
                c["dims"] = dims[:ax] + [dims[ax] - 1] + dims[ax + 1:]
                c["nest"] = _drop(nest, ax)
                yield c
        # remove the outermost level when it has one entry
        if len(dims) > 1 and dims[0] == 1:
            c = dict(case)
            c["dims"], c["nest"], c["d"] = dims[1:], nest[0], case["d"] - 1
            yield c
        # turn one non-default entry into the default
        flat = list(_flat(nest))
        for i, x in enumerate(flat):
            if x != case["dflt"]:
                f2 = list(flat)
                f2[i] = case["dflt"]
                c = dict(case)
                c["nest"] = _nest_from_flat(dims, f2)
                yield c
    elif case["op"] == "yaml":
        b = case["build"]
        if "tree" in b:
            for t2 in _tree_shrinks(b["tree"]):
                c = dict(case)
                c["build"] = {"tree": t2}
                yield c
        elif "nest" in b:
            if b.get("transform"):
                c = dict(case)
                c["build"] = dict(b, transform=None)
                yield c
            nest, dims = b["nest"], _dims_of(b["nest"])
            for ax in range(len(dims)):
                if dims[ax] > 1:
                    c = dict(case)
                    c["build"] = dict(b, nest=_drop(nest, ax))
                    yield c
            flat = list(_flat(nest))
            for i, x in enumerate(flat):
                if x != case["dflt"] and sum(1 for y in flat if y != case["dflt"]) > 1:
                    f2 = list(flat)
                    f2[i] = case["dflt"]
                    c = dict(case)
                    c["build"] = dict(b, nest=_nest_from_flat(dims, f2))
                    yield c
        if case.get("name"):
            c = dict(case)
            c["name"] = ""
            yield c
    elif case["op"] == "random":
        sh = case["shape"]
        for i in range(len(sh)):
            if sh[i] > 1:
                c = dict(case)
                c["shape"] = sh[:i] + [sh[i] - 1] + sh[i + 1:]
                yield c


def _tree_shrinks(t):
    if not isinstance(t, list):
        return
    for i in range(len(t)):
        yield t[:i] + t[i + 1:]
    for i, e in enumerate(t):
        if isinstance(e, list) and len(e) == 2 and isinstance(e[1], list):
            for s2 in _tree_shrinks(e[1]):
                yield t[:i] + [[e[0], s2]] + t[i + 1:]


def _dims_of(nest):
    dims = []
    while isinstance(nest, list):
        dims.append(len(nest))
        nest = nest[0]
    return dims


def _drop(nest, ax):
    if ax == 0:
        return nest[:-1]
    return [_drop(x, ax - 1) for x in nest]


def extra_evidence(results):
    ops = {}
    for c, v in results:
        k = f"{c['op']}:{c.get('kind')}"
        ops[k] = ops.get(k, 0) + 1
    return {"per_op": ops,
            "not_modelled_layers": ["YAML text (yaml.dump / yaml.safe_load) — abstracted as identity on tuple-free "
                                    "dictionaries, failure on tuples", "the Mersenne-Twister stream — the model is a "
                                    "function of the recorded draws; reproducibility is observed by running twice"]}
