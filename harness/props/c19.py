"""C19 — intersection / merge cost models.

kind "and":   a loop nest of 0-2 outer ranks runs `a_k & b_k` once per outer point with the
              two intersect_<i> traces consumable; after every group of consecutive fibers
              the traces are consumed and fed to a TwoFinger, a SkipAhead and two
              LeaderFollower intersectors (the same rows to each).
kind "lf":    the same with `Fiber.intersection(a, b, style="leader-follower")`, leader
              trace fed to a LeaderFollowerIntersector.
kind "swaps": `Compute.numSwaps(tensor, depth, radix, next_latency)`.
"""
import random, itertools, json
from harness import common as H

PROP = "C19"
RULE = ("cases: (and) 1-5 consecutive fibers, each a pair of leaf fibers [[coord, value]…] incl. empty "
        "operands and explicit defaults, under 0-2 outer loop ranks, every grouping of the fibers into "
        "addTraces calls (fiber by fiber, one shot, mixed, with calls that receive nothing before the first / "
        "between / after the last intersection); small scope = all pairs of coordinate subsets "
        "of {0..n-1}; (lf) same operands through the leader-follower intersection; (swaps) trees of "
        "2-4 ranks, merge depth 0-1, radix 2..5 or inf, latency 1..3 or 'N', sub-fibers incl. empty ones "
        "and ones holding only explicit defaults (which count like any other). non-trivial = (and) >= 1 merge step and at least one of "
        "match / run of length >= 2 / trailing use / several fibers; (lf) a non-empty leader; (swaps) at "
        "least one merge of >= 2 lists")

_model = None


def model():
    """the cost-model classes of the implementation (imported lazily, like H.ft())"""
    global _model
    if _model is None:
        import importlib, os
        H.ft()
        isect = importlib.import_module("fibertree.model.intersect")
        comp = importlib.import_module("fibertree.model.compute")
        assert os.path.realpath(isect.__file__).startswith(os.path.realpath(H.REPO)), isect.__file__

        class NS:
            pass
        ns = NS()
        ns.TwoFinger = isect.TwoFingerIntersector
        ns.SkipAhead = isect.SkipAheadIntersector
        ns.LeaderFollower = isect.LeaderFollowerIntersector
        ns.Compute = comp.Compute
        _model = ns
    return _model


# ---------------------------------------------------------------------------------------
# generators
# ---------------------------------------------------------------------------------------

def subsets(n):
    for mask in range(1 << n):
        yield [c for c in range(n) if mask >> c & 1]


def leaf(coords, val=1):
    return [[c, val] for c in coords]


def compositions(k):
    """all ways to cut k consecutive fibers into groups (lists of group sizes)"""
    if k == 0:
        yield []
        return
    for first in range(1, k + 1):
        for rest in compositions(k - first):
            yield [first] + rest


def and_case(kind, pairs, sizes, nout, prefixes=None, dflt=0, variant=(), vals="int", windows=None):
    """pairs: [(a, b)] operand specs, sizes: group sizes, prefixes: outer points (ascending).
    An operand spec is a leaf fiber [[coord, value], …] (values: model ints, see `real_val`),
    {"u": [lo, hi], "leaf": …, "how": "declared" | "estimated" | "active"} (rank format "U"),
    or {"lazy": "and" | "sub", "x": leaf, "y": leaf} (a lazy fiber as operand)."""
    k = len(pairs)
    if prefixes is None:
        if nout == 0:
            prefixes = [[] for _ in range(k)]
        elif nout == 1:
            prefixes = [[2 * i + 1] for i in range(k)]
        elif nout == 2:
            prefixes = [[i // 2, 3 * (i % 2) + 1] for i in range(k)]
        else:
            prefixes = [[i // 4, (i // 2) % 2, 3 * (i % 2) + 1] for i in range(k)]
    c = {"prop": PROP, "kind": kind, "n": nout + 1, "dflt": dflt,
         "pairs": [[a, b] for a, b in pairs], "prefixes": prefixes, "sizes": sizes}
    if windows and any(w is not None for w in windows):
        # windows[i] = None | [lo, hi, "iterRange" | "iterActive"]: the i-th intersection is
        # walked over that coordinate window only
        c["windows"] = list(windows)
        variant = list(variant) + ["windowed-walk"]
    if variant:
        c["variant"] = list(variant)
    if vals != "int":
        c["vals"] = vals
        c["variant"] = c.get("variant", []) + ["vals=" + vals]
    return c


def u_operand(coords, how, extra=0):
    """leaf fiber on a rank of format "U": presents its whole active range"""
    top = (max(coords) + 1) if coords else 0
    if how == "estimated":
        rng = [0, top]
    elif how == "declared":
        rng = [0, top + extra]
    else:                       # restricted active range inside a declared shape
        rng = [1, max(top + extra - 1, 1)]
    return {"u": rng, "leaf": leaf(coords), "how": how, "shape": top + extra}


def lazy_operand(op, x, y):
    return {"lazy": op, "x": leaf(x), "y": leaf(y)}


def real_val(v, dflt, vals):
    """the payload value the real fiber gets for the model's int `v` (injective, and `v == dflt`
    iff the real value equals the real default)"""
    if vals == "float":
        return v + 0.5
    if vals == "neg":
        return -v - 1
    if vals == "bool":
        return v != dflt
    return v


def gen_and_small(tier):
    n1, n2, n3 = (4, 3, 2) if tier == "quick" else (5, 4, 3)
    s1, s2, s3 = list(subsets(n1)), list(subsets(n2)), list(subsets(n3))
    for a in s1:
        for b in s1:
            for nout in (0, 1):
                yield and_case("and", [(leaf(a), leaf(b))], [1], nout)
    p2 = [(leaf(a), leaf(b)) for a in s2 for b in s2]
    for x in p2:
        for y in p2:
            for sizes in ([1, 1], [2]):
                yield and_case("and", [x, y], sizes, 1)
    p3 = [(leaf(a), leaf(b)) for a in s3 for b in s3]
    # three fibers: every grouping; in the thorough tier (n = 3: 262144 triples) the
    # fiber-by-fiber grouping is enumerated on the n = 2 triples only
    p3s = [(leaf(a), leaf(b)) for a in subsets(2) for b in subsets(2)]
    small = {repr(p) for p in p3s}
    for x in p3:
        for y in p3:
            for z in p3:
                for sizes in compositions(3):
                    if tier != "quick" and sizes == [1, 1, 1] and not (
                            repr(x) in small and repr(y) in small and repr(z) in small):
                        continue
                    if tier == "quick" and sizes == [1, 1, 1] and (len(x[0]) + len(y[1]) + len(z[0])) % 2:
                        continue        # quick: fiber by fiber on every other triple only
                    if tier != "quick" and len(sizes) == 2 and (len(x[0]) + 2 * len(y[1]) + len(z[0]) + sizes[0]) % 4:
                        continue        # thorough (262144 triples): each mixed grouping on a quarter of them
                    yield and_case("and", [x, y, z], sizes, 2 if len(sizes) == 2 else 1)
    # calls that receive nothing: before the first intersection (as when the traces are handed
    # over at the top of every outer iteration), between two intersections, after the last one
    for a in s1:
        for b in s1:
            for sizes in ([0, 1], [1, 0], [0, 1, 0]):
                yield and_case("and", [(leaf(a), leaf(b))], sizes, 1)
    for x in p2:
        for y in p2:
            for sizes in (([0, 1, 1], [1, 0, 1, 0]) if tier == "quick" else
                          ([[0, 1, 1], [1, 0, 1, 0]][(len(x[0]) + len(y[1])) % 2],)):
                yield and_case("and", [x, y], sizes, 1)
    for i, x in enumerate(p2):
        for y in p2[i % 3:: 3]:
            yield and_case("and", [x, y], [0, 2, 0], 1)
    for x in p3s:
        for y in p3s:
            for z in p3s[:: (2 if tier == "quick" else 1)]:
                yield and_case("and", [x, y, z], [0, 1, 0, 2], 1)
    for x in p2:
        for sizes in ([0, 1], [0, 1, 0]):
            yield and_case("lf", [x], sizes, 0)
        for y in p2[:: (1 if tier != "quick" else 3)]:
            for sizes in ([0, 1, 1], [1, 0, 1, 0]):
                yield and_case("lf", [x, y], sizes, 1)
    yield from gen_and_widened(tier, s2, p2)
    # calls only, no intersection at all: every model reports 0
    for kind in ("and", "lf"):
        for sizes in ([0], [0, 0]):
            yield and_case(kind, [], sizes, 0)
    # the same operand pair repeated by a plain Python loop, without any outer rank (as in
    # test_intersector): stamps and points restart identically in every pass.  Fed pass by pass all
    # models apply; consumed in one shot / mixed the passes cannot be told apart from the trace and
    # only the leader-follower counts are specified (every use must still be recorded)
    for a in s2:
        for b in s2:
            yield and_case("and", [(leaf(a), leaf(b))] * 3, [1, 1, 1], 0)
            for sizes in ([3], [2, 1], [0, 1, 2]):
                yield and_case("and", [(leaf(a), leaf(b))] * 3, sizes, 0, variant=["passes-without-outer-rank"])
            yield and_case("and", [(leaf(a), leaf(b)), (leaf(b), leaf(a)), (leaf(a), leaf(b)), (leaf(a), leaf(b))],
                           [4], 0, variant=["passes-without-outer-rank"])
            yield and_case("lf", [(leaf(a), leaf(b))] * 3, [3], 0, variant=["passes-without-outer-rank"])
    # operands carrying different rank ids (the traces are declared under the first operand's rank)
    for i, x in enumerate(p2):
        y = p2[(11 * i + 5) % len(p2)]
        for sizes in ([1, 1], [2]):
            yield and_case("and", [x, y], sizes, 1, variant=["rank-ids-differ"])
        yield and_case("and", [x], [1], 0, variant=["rank-ids-differ", "intersection-two-finger"])
    # leader-follower intersection
    for x in p2:
        yield and_case("lf", [x], [1], 0)
        for y in p2[:: (1 if tier != "quick" else 3)]:
            for sizes in ([1, 1], [2]):
                yield and_case("lf", [x, y], sizes, 1)


COORD_MAPS = [[2, 9, 10, 99, 100, 1000], [-7, -1, 0, 9, 10, 11], [0, 1, 2, 3, 4, 5]]


def remap(lf, m):
    return [[m[c], v] for c, v in lf]


def gen_and_widened(tier, s2, p2):
    """operand / driving variants (one or two fibers, every grouping incl. an empty first call)"""
    sub = s2 if tier != "quick" else s2[::1]
    groupings1 = ([1], [0, 1])
    groupings2 = ([1, 1], [2], [0, 1, 1])
    # rank format "U" on one or both operands: declared (larger than needed), estimated, restricted
    for a in sub:
        for b in sub:
            for how_a, how_b in (("declared", None), (None, "estimated"), ("estimated", "declared"), ("active", "active")):
                if (how_a == "estimated" and not a) or (how_b == "estimated" and not b):
                    continue
                oa = u_operand(a, how_a, 1) if how_a else leaf(a)
                ob = u_operand(b, how_b, 2) if how_b else leaf(b)
                for sizes in groupings1:
                    yield and_case("and", [(oa, ob)], sizes, 1, variant=["format-U"])
                if how_a != "active":
                    yield and_case("and", [(oa, ob)], [1], 1, variant=["format-U", "tensor-owned"])
                yield and_case("and", [(oa, ob), (leaf(b), leaf(a))], [2], 1, variant=["format-U"])
    # lazy fibers as operands, on either side
    for x in sub:
        for y in sub:
            for z in sub[:: (1 if tier != "quick" else 2)]:
                for spec in (("and", 0), ("sub", 0), ("and", 1), ("sub", 1)):
                    lz = lazy_operand(spec[0], x, y)
                    pair = (lz, leaf(z)) if spec[1] == 0 else (leaf(z), lz)
                    yield and_case("and", [pair], [1], 1, variant=["lazy-operand"])
                yield and_case("and", [(lazy_operand("and", x, y), lazy_operand("sub", z, x)), (leaf(y), leaf(z))],
                               [2], 1, variant=["lazy-operand"])
                yield and_case("and", [(lazy_operand("sub", x, y), lazy_operand("and", z, x))], [1], 1,
                               variant=["lazy-operand"])
    # how the harness drives the library: operands built before beginCollect, the same Fiber
    # objects intersected again, the same lazy result iterated again, Fiber.intersection()
    for x in p2:
        for var, sizes in (("prebuilt", [1, 1]), ("same-operands", [2]), ("same-result", [0, 1, 1]),
                           ("same-result", [2]), ("intersection-two-finger", [1, 1])):
            yield and_case("and", [x, x], sizes, 1, variant=[var])
    # an operand mutated in place between two intersections (grown past its old extent by
    # Fiber.append, and an explicit default set at an absent point by getPayloadRef), same objects
    for i, x in enumerate(p2):
        grown = (x[0] + [[7, 1]], x[1] + [[8, 1]]) if i % 2 else (x[0] + [[7, 1], [9, 1]], x[1])
        for sizes in ([1, 1], [2]):
            yield and_case("and", [x, grown], sizes, 1, variant=["operand-mutated-between"])
    # the intersection walked over a coordinate window only ((a & b).iterRange(lo, hi), or
    # iterActive() under the active range of the first operand): the walk stops at the first
    # delivered element at or beyond hi; more fibers follow in the same collection
    for i, x in enumerate(p2):
        for j, y in enumerate(p2):
            hi = 1 + (i + j) % 2
            how = "iterActive" if (i + 2 * j) % 3 == 0 else "iterRange"
            lo = (i + j) % 2 if how == "iterRange" else 0
            yield and_case("and", [x, y], [1, 1] if (i + j) % 4 < 2 else [2], 1, windows=[[lo, hi, how], None])
            if (i + j) % 4 == 0:
                yield and_case("and", [x, y, x], [3], 1, windows=[None, [0, hi, "iterRange"], None])
                yield and_case("lf", [x, y], [1, 1], 1, windows=[[0, hi, "iterRange"], None])
    # operand identity: the very same Fiber object on both sides (a & a: the diagonal pair of a
    # row-against-row loop), the same object twice among the operands of an n-ary intersection,
    # a fiber against a lazy view of itself; more fibers follow
    s4 = list(subsets(4))
    for i, x in enumerate(s4):
        y = s4[(5 * i + 3) % len(s4)]
        for sizes in ([1, 1], [2], [0, 1, 1]):
            yield and_case("and", [(leaf(x), leaf(x)), (leaf(x), leaf(y))], sizes, 1, variant=["shared-objects"])
            yield and_case("and", [(leaf(y), leaf(x)), (leaf(y), leaf(y))], sizes, 1, variant=["shared-objects"])
        yield and_case("lf", [(leaf(x), leaf(x)), (leaf(y), leaf(x))], [1, 1], 1, variant=["shared-objects"])
        yield and_case("and", [(leaf(x), leaf(x))] * 2, [2], 1, variant=["shared-objects", "intersection-two-finger"])
    for x in sub:
        for y in sub:
            for var in (["shared-objects"], ["shared-objects", "nary"]):
                yield and_case("and", [(lazy_operand("and", x, y), leaf(x)), (leaf(y), leaf(x))], [2], 1, variant=var)
            yield and_case("and", [(leaf(x), lazy_operand("sub", x, y)), (leaf(x), lazy_operand("and", x, x))],
                           [1, 1], 1, variant=["shared-objects"])
            yield and_case("and", [(lazy_operand("and", y, x), lazy_operand("and", x, y))], [0, 1], 1,
                           variant=["shared-objects"])
    # value kinds, multi-digit / negative coordinates, three outer ranks
    for i, x in enumerate(p2):
        y = p2[(7 * i + 3) % len(p2)]
        for vals in ("float", "bool", "neg"):
            yield and_case("and", [x, y], [2], 1, vals=vals)
        for m in COORD_MAPS[:2]:
            c = and_case("and", [(remap(x[0], m), remap(x[1], m)), (remap(y[0], m), remap(y[1], m))], [2], 1,
                         prefixes=[[m[1]], [m[3]]], variant=["coords-multidigit"])
            yield c
        yield and_case("and", [x, y, x, y, y], [2, 0, 3], 3, variant=["outer-ranks=3"])


def rand_leaf(rng, n, dflt, p=0.5, pdef=0.1):
    out = []
    for c in range(n):
        if rng.random() < p:
            out.append([c, dflt if rng.random() < pdef else rng.choice([1, 2, -3, 7 if dflt != 7 else 5])])
    return out


def rand_prefixes(rng, k, nout):
    if nout == 0:
        return [[] for _ in range(k)]
    if nout == 1:
        cs = sorted(rng.sample(range(3 * k + 2), k))
        return [[c] for c in cs]
    if nout == 2:   # ascending points of a 2-level tree (multi-digit coordinates included)
        pts = sorted(rng.sample([(m, j) for m in (0, 2, 9, 10) for j in (1, 5, 9, 10, 100)], k))
        return [list(p) for p in pts]
    pts = sorted(rng.sample([(q, m, j) for q in (0, 3) for m in range(3) for j in range(4)], k))
    return [list(p) for p in pts]


def gen_and_random(rng, count):
    for i in range(count):
        kind = "lf" if i % 8 == 7 else "and"
        k = rng.choice([1, 2, 2, 3, 3, 4, 5])
        nout = rng.choice([1, 1, 2, 3, 0]) if k > 1 else rng.choice([0, 1, 2, 3])
        dflt = rng.choice([0, 0, 7])
        n = rng.choice([3, 5, 8, 12])
        nmax = n
        pairs = []
        for _ in range(k):
            n = max(2, n + rng.choice([-2, 0, 0, 3]))      # ragged: later fibers wider / narrower
            nmax = max(nmax, n)
            pa, pb = rng.choice([(0.5, 0.5), (0.8, 0.3), (0.2, 0.9), (0.0, 0.5), (0.6, 0.0), (0.9, 0.9)])
            pairs.append((rand_leaf(rng, n, dflt, pa), rand_leaf(rng, n, dflt, pb)))
        variant, vals, m = [], "int", None
        r = rng.random()
        if r < 0.12:                     # rank format "U" on some operands (small coordinates)
            pairs = [tuple(u_operand([c for c, _ in o], rng.choice(["declared", "estimated", "active"]), rng.choice([0, 1, 3]))
                           if rng.random() < 0.5 and o else o for o in pr) for pr in pairs]
            variant.append("format-U")
        elif r < 0.24:                   # lazy operands
            def lz(o):
                other = rand_leaf(rng, n, dflt, 0.5, 0.0)
                return {"lazy": rng.choice(["and", "sub"]), "x": o, "y": other}
            # (the follower of a leader-follower intersection is looked up by coordinate and
            #  cannot be lazy: only the leader is made lazy there)
            pairs = [tuple(lz(o) if rng.random() < 0.5 and not (kind == "lf" and side == 1) else o
                           for side, o in enumerate(pr)) for pr in pairs]
            variant.append("lazy-operand")
        elif r < 0.36:
            vals = rng.choice(["float", "bool", "neg"])
        elif r < 0.48:                   # multi-digit / negative coordinates (monotone renaming)
            m = sorted(rng.sample(range(-20, 1200), nmax))
            pairs = [(remap(pa, m), remap(pb, m)) for pa, pb in pairs]
            variant.append("coords-multidigit")
        if kind == "and" and rng.random() < 0.15:
            variant.append(rng.choice(["prebuilt", "intersection-two-finger"]))
        if kind == "and" and rng.random() < 0.08:
            variant.append("rank-ids-differ")
        if rng.random() < 0.08 and vals == "int" and m is None and "format-U" not in variant \
                and "rank-ids-differ" not in variant:
            # operand identity in the random stream: the second operand IS the first one
            pairs = [(pa, pa) if rng.random() < 0.5 and isinstance(pa, list) else (pa, pb) for pa, pb in pairs]
            variant.append("shared-objects")
        if rng.random() < 0.1 and "lazy-operand" not in variant and "shared-objects" not in variant and not any(
                isinstance(o, dict) and o.get("how") == "active" for pr in pairs for o in pr):
            variant.append("tensor-owned")
        sizes = rng.choice(list(compositions(k)))
        if rng.random() < 0.3:
            sizes = [1] * k
        if rng.random() < 0.35:          # calls that receive nothing
            sizes = list(sizes)
            for _ in range(rng.choice([1, 1, 2, 3])):
                sizes.insert(rng.randrange(len(sizes) + 1), 0)
            if rng.random() < 0.3:       # "top of every outer iteration, and once after the loop"
                sizes = [0] + [1] * k
        windows = None
        if not variant and m is None and rng.random() < 0.2:      # windowed walks of some intersections
            windows = [[rng.randrange(0, 3), rng.randrange(1, nmax + 1), "iterRange"] if rng.random() < 0.5 else None
                       for _ in range(k)]
        yield and_case(kind, pairs, sizes, nout, rand_prefixes(rng, k, nout), dflt, variant=variant, vals=vals,
                       windows=windows)


RADICES = [2, 3, 4, 5, "inf"]
LATS = [1, 2, "N"]


def swaps_case(tree, e, depth, radix, lat, dflt=0, variant=()):
    c = {"prop": PROP, "kind": "swaps", "e": e, "depth": depth, "dflt": dflt, "t": tree,
         "radix": radix, "lat": lat}
    if variant:
        c["variant"] = list(variant)
    return c


SWAP_VARIANTS = ["format-U-all", "format-U-leaf", "format-U-top", "fiber-default-differs", "float-values",
                 "called-twice", "bool-values"]


def remap_tree(t, depth_levels, m):
    """monotone renaming of the coordinates of every rank"""
    if depth_levels == 0:
        return t
    return [[m[c], remap_tree(sub, depth_levels - 1, m)] for c, sub in t]


def valued_children(ncoords, values):
    """all leaf fibers over coordinates 0..ncoords-1 with every stored value from `values`"""
    for s in subsets(ncoords):
        for vs in itertools.product(values, repeat=len(s)):
            yield [[c, v] for c, v in zip(s, vs)]


def gen_swaps_small(tier):
    # merge level directly under the root (depth 0), leaves below (e = 0)
    mmax, nc = (3, 3) if tier == "quick" else (4, 3)
    kids = [leaf(s) for s in subsets(nc)]
    for m in range(0, mmax + 1):
        for combo in itertools.product(kids, repeat=m):
            tree = [[2 * i, ch] for i, ch in enumerate(combo)]
            for radix in (RADICES if (tier != "quick" or m < 3) else [2, 3, "inf"]):
                for lat in LATS:
                    yield swaps_case(tree, 0, 0, radix, lat)
    # many short lists: several rounds
    kids2 = [leaf(s) for s in subsets(2)]
    for m in ((5,) if tier == "quick" else (5, 6)):
        for combo in itertools.product(kids2, repeat=m):
            tree = [[i, ch] for i, ch in enumerate(combo)]
            for radix in (2, 3, 4):
                for lat in (2, "N"):
                    yield swaps_case(tree, 0, 0, radix, lat)
    # payload values incl. explicit defaults (same skeletons, different values)
    kids3 = list(valued_children(2, [0, 1]))
    for m in range(1, 4):
        for combo in itertools.product(kids3, repeat=m):
            tree = [[i, ch] for i, ch in enumerate(combo)]
            for radix, lat in ((2, 1), (3, "N")):
                yield swaps_case(tree, 0, 0, radix, lat)


def gen_swaps_widened(tier):
    """how the tensor is built / described (formats, defaults, value kinds), unusual arguments,
    multi-digit and negative coordinates, merge level two below the root"""
    kids = [leaf(s) for s in subsets(3)]
    i = 0
    for m in range(1, 4):
        for combo in itertools.product(kids, repeat=m):
            tree = [[2 * j, ch] for j, ch in enumerate(combo)]
            i += 1
            var = SWAP_VARIANTS[i % len(SWAP_VARIANTS)]
            yield swaps_case(tree, 0, 0, 2, 1 if i % 2 else "N", variant=[var])
            if i % 3 == 0:
                mp = COORD_MAPS[i % 2]
                yield swaps_case(remap_tree(tree, 2, mp), 0, 0, 3, "N" if i % 2 else 2, variant=["coords-multidigit"])
            if i % 5 == 0:
                yield swaps_case(tree, 0, 0, 2, 0, variant=["latency-0"])
                yield swaps_case(tree, 0, 0, 100, 3, variant=["radix-large"])
    # depth 2 (four ranks): roots of <= 2 fibers of <= 2 fibers of <= 2 leaf fibers
    kids2 = [leaf(s) for s in subsets(2)]
    mids = [[[j, ch] for j, ch in enumerate(combo)] for m in (0, 1, 2) for combo in itertools.product(kids2[1:], repeat=m)]
    tops = [[[j, md] for j, md in enumerate(combo)] for m in (1, 2) for combo in itertools.product(mids[::2], repeat=m)]
    for m in (1, 2):
        for combo in itertools.product(tops[:: (3 if tier == "quick" else 1)], repeat=m):
            tree = [[5 * j, tp] for j, tp in enumerate(combo)]
            yield swaps_case(tree, 0, 2, 2, "N", variant=["depth-2"])
            yield swaps_case(tree, 0, 2, "inf", 2, variant=["depth-2"])


def gen_swaps_depth1(tier):
    """merge level one below the root (depth 1): every root of <= 2 second-level fibers, each of
    <= 2 leaf fibers over 2 coordinates (incl. empty ones, which the walk skips)"""
    kids = [leaf(s) for s in subsets(2)]
    mids = [[[i, ch] for i, ch in enumerate(combo)] for m in range(0, 3)
            for combo in itertools.product(kids, repeat=m)]
    for m in range(0, 3):
        for combo in itertools.product(mids, repeat=m):
            tree = [[3 * i, mid] for i, mid in enumerate(combo)]
            for radix, lat in ((2, 1), (2, "N")) if tier == "quick" else ((2, 1), (2, "N"), ("inf", 2), (3, "N")):
                yield swaps_case(tree, 0, 1, radix, lat)


def gen_swaps_random(rng, count):
    for _ in range(count):
        e = rng.choice([0, 0, 1])
        depth = rng.choice([0, 0, 1, 2])
        dflt = rng.choice([0, 0, 7])
        n = rng.choice([2, 3, 4, 6])
        pdef = rng.choice([0.0, 0.0, 0.15, 0.4])
        tree = H.gen_tree(rng, e + 2 + depth, n, (1, 2, -3, 5), dflt, p_absent=rng.choice([0.2, 0.4]),
                          p_default=pdef, p_emptysub=rng.choice([0.0, 0.1]),
                          p_alldefault=rng.choice([0.0, 0.1]))
        variant = [rng.choice(SWAP_VARIANTS)] if rng.random() < 0.4 else []
        if rng.random() < 0.15:
            mp = sorted(rng.sample(range(-30, 1500), n))
            tree = remap_tree(tree, e + 2 + depth, mp)
            variant.append("coords-multidigit")
        yield swaps_case(tree, e, depth, rng.choice(RADICES + [2, 2, 7, 100]), rng.choice(LATS + [3, 10, 0]), dflt,
                         variant=variant)


def gen(seed, tier):
    yield from gen_and_small(tier)
    yield from gen_swaps_small(tier)
    yield from gen_swaps_depth1(tier)
    yield from gen_swaps_widened(tier)
    rng = random.Random(seed)
    yield from gen_and_random(rng, 3200 if tier == "quick" else 100000)
    yield from gen_swaps_random(rng, 2400 if tier == "quick" else 80000)


# ---------------------------------------------------------------------------------------
# running the real code
# ---------------------------------------------------------------------------------------

RANKS = ["N", "M", "J"]


def _outer_tree(prefixes, nout):
    """a fiber tree of `nout` ranks whose leaf points are `prefixes`, and for every fiber
    the iteration stamps (position of each coordinate in its own loop)"""
    Fiber = H.ft().Fiber
    if nout == 0:
        return None, [[] for _ in prefixes]
    ids = RANKS[-nout:]

    def build(pts, level):
        if level == nout - 1:
            cs = [p[level] for p in pts]
            f = Fiber(cs, [1] * len(cs))
        else:
            groups = []
            for p in pts:
                if not groups or groups[-1][0] != p[level]:
                    groups.append((p[level], []))
                groups[-1][1].append(p)
            f = Fiber([g[0] for g in groups], [build(g[1], level + 1) for g in groups])
        f.getRankAttrs().setId(ids[level])
        return f
    root = build(prefixes, 0)
    stamps = []
    for p in prefixes:
        st, pts = [], prefixes
        for level in range(nout):
            firsts = []
            for q in pts:
                if not firsts or firsts[-1] != q[level]:
                    firsts.append(q[level])
            st.append(firsts.index(p[level]))
            pts = [q for q in pts if q[level] == p[level]]
        stamps.append(st)
    return root, stamps


def _walk(f, nout, level=0):
    """the loop nest over the outer ranks (ticking iteration, as a HiFiber kernel does)"""
    if nout == 0:
        yield ()
        return
    for c, p in f:
        if level == nout - 1:
            yield (c,)
        else:
            for rest in _walk(p, nout, level + 1):
                yield (c,) + rest


def _feed(obj, *traces):
    try:
        keep = [[list(r) for r in t] for t in traces]
        obj.addTraces(*traces)
        if keep != [[list(r) for r in t] for t in traces]:
            return "mutated"
        return True
    except _Timeout:
        raise
    except Exception:
        return False


def _leaf_fiber(lf, dflt, vals, **kw):
    Fiber = H.ft().Fiber
    f = Fiber([c for c, _ in lf], [real_val(v, dflt, vals) for _, v in lf],
              default=real_val(dflt, dflt, vals), **kw)
    f.getRankAttrs().setId("K")
    return f


_keep = []     # tensors owning operand fibers stay alive for the duration of a case


def _owned(lf, dflt, vals, fmt=None, shape=None):
    """the operand as the root fiber of a one-rank tensor (format set through the tensor)"""
    Tensor = H.ft().Tensor
    f = _leaf_fiber(lf, dflt, vals)
    kw = {"shape": [shape]} if shape is not None else {}
    t = Tensor.fromFiber(rank_ids=["K"], fiber=f, default=real_val(dflt, dflt, vals), **kw)
    if fmt:
        t.setFormat("K", fmt)
    _keep.append(t)
    return t.getRoot()


def build_operand(spec, dflt, vals, owned=False, shared=None):
    """a real operand of `a & b` from its spec (public constructors / operators only).
    `shared`: a dict; leaf fibers with the same spec are then ONE Fiber object (operand
    identity: `a & a`, `(a & b) & a`, a fiber against a lazy view of itself)."""
    if shared is not None and isinstance(spec, list):
        key = json.dumps(spec)
        if key not in shared:
            shared[key] = build_operand(spec, dflt, vals, owned)
        return shared[key]
    if shared is not None and isinstance(spec, dict) and "lazy" in spec:
        x = build_operand(spec["x"], dflt, vals, owned, shared)
        y = build_operand(spec["y"], dflt, vals, owned, shared)
        z = (x & y) if spec["lazy"] == "and" else (x - y)
        z.getRankAttrs().setId("K")
        return z
    if owned and isinstance(spec, list):
        return _owned(spec, dflt, vals)
    if owned and "u" in spec and spec["how"] in ("estimated", "declared"):
        return _owned(spec["leaf"], dflt, vals, "U", spec["shape"] if spec["how"] == "declared" else None)
    if isinstance(spec, list):
        return _leaf_fiber(spec, dflt, vals)
    if "u" in spec:
        how = spec["how"]
        if how == "estimated":
            f = _leaf_fiber(spec["leaf"], dflt, vals)
        elif how == "declared":
            f = _leaf_fiber(spec["leaf"], dflt, vals, shape=spec["shape"])
        else:
            f = _leaf_fiber(spec["leaf"], dflt, vals, shape=spec["shape"], active_range=tuple(spec["u"]))
        f.getRankAttrs().setFormat("U")
        return f
    x = _leaf_fiber(spec["x"], dflt, vals)
    y = _leaf_fiber(spec["y"], dflt, vals)
    z = (x & y) if spec["lazy"] == "and" else (x - y)
    z.getRankAttrs().setId("K")
    return z


def run_and(case):
    ft, M = H.ft(), model()
    Fiber, Metrics = ft.Fiber, ft.Metrics
    nout, dflt, kind = case["n"] - 1, case["dflt"], case["kind"]
    pairs, prefixes, sizes = case["pairs"], case["prefixes"], case["sizes"]
    variant, vals = set(case.get("variant", [])), case.get("vals", "int")
    root, stamps = _outer_tree(prefixes, nout)
    # what the Lean side needs: fibers grouped, each with its outer iteration stamps and point
    groups, i = [], 0
    for s in sizes:
        groups.append([{"oi": stamps[j], "pre": prefixes[j], "a": pairs[j][0], "b": pairs[j][1]}
                       for j in range(i, i + s)])
        i += s
    windows = case.get("windows") or [None] * len(pairs)
    j = 0
    for g in groups:
        for f in g:
            if windows[j] is not None:
                f["win"] = windows[j][:2]
            j += 1
    case["groups"] = groups
    built = {}
    shared_of = {}
    del _keep[:]

    def operands(idx):
        """fresh operands for every intersection, unless the variant says otherwise"""
        if "operand-mutated-between" in variant and idx > 0 and idx not in built:
            a, b = built[0]
            for f, old, new in ((a, pairs[idx - 1][0], pairs[idx][0]), (b, pairs[idx - 1][1], pairs[idx][1])):
                for c, v in new[len(old):]:
                    f.append(c, real_val(v, dflt, vals))
            built[idx] = (a, b)
        key = idx if not ({"same-operands", "same-result"} & variant) else json.dumps(pairs[idx])
        if key not in built:
            ow = "tensor-owned" in variant
            w = windows[idx]
            sh = {} if "shared-objects" in variant else None
            shared_of[idx] = sh if sh is not None else {}
            if w is not None and w[2] == "iterActive":
                # the lazy result inherits the active range of its first operand
                a = _leaf_fiber(pairs[idx][0], dflt, vals, active_range=(w[0], w[1]))
            else:
                a = build_operand(pairs[idx][0], dflt, vals, ow, sh)
            b = build_operand(pairs[idx][1], dflt, vals, ow, sh)
            # (not together with shared objects: the second operand may then BE a component of a
            #  lazy first operand, whose inner intersection would run under a rank no loop registers)
            if "rank-ids-differ" in variant and "shared-objects" not in variant and b is not a and not ow:
                b.getRankAttrs().setId("KB")
            built[key] = (a, b)
        return built[key]

    results = {}

    def result(idx):
        a, b = operands(idx)
        key = json.dumps(pairs[idx]) if "same-result" in variant else idx
        if key not in results:
            if kind == "lf":
                results[key] = Fiber.intersection(a, b, style="leader-follower")
            elif "intersection-two-finger" in variant:
                results[key] = Fiber.intersection(a, b)
            elif "nary" in variant and isinstance(pairs[idx][0], dict) and pairs[idx][0].get("lazy") == "and" \
                    and isinstance(pairs[idx][1], list):
                # Fiber.intersection(x, y, z) = (x & y) & z: the traced intersection is the outer one
                sh = shared_of.get(idx, {})
                x = build_operand(pairs[idx][0]["x"], dflt, vals, False, sh)
                y = build_operand(pairs[idx][0]["y"], dflt, vals, False, sh)
                results[key] = Fiber.intersection(x, y, build_operand(pairs[idx][1], dflt, vals, False, sh))
            else:
                results[key] = a & b
        return results[key]

    if "prebuilt" in variant:             # operands exist before the collection bracket opens
        for idx in range(len(pairs)):
            operands(idx)
    side = {}
    if kind == "and":
        objs = {"tf": M.TwoFinger(), "sa": M.SkipAhead(), "lf0": M.LeaderFollower(), "lf1": M.LeaderFollower()}
    else:
        objs = {"lf": M.LeaderFollower()}
    alive = {k: True for k in objs}
    batches = []

    def consume():
        """hand whatever has accumulated since the last call to every cost model"""
        t0 = Metrics.consumeTrace("K", "intersect_0")
        t1 = Metrics.consumeTrace("K", "intersect_1")
        if kind == "and":
            batches.append([t0, t1])
            for k, tr in (("tf", (t0, t1)), ("sa", (t0, t1)), ("lf0", (t0,)), ("lf1", (t1,))):
                if alive[k]:
                    alive[k] = _feed(objs[k], *[list(x) for x in tr])
                    if alive[k] == "mutated":
                        side["traces_unchanged"] = False
                        alive[k] = True
        else:
            batches.append(t0)
            if alive["lf"]:
                alive["lf"] = _feed(objs["lf"], list(t0))
                if alive["lf"] == "mutated":
                    side["traces_unchanged"] = False
                    alive["lf"] = True

    Metrics.beginCollect()
    try:
        Metrics.trace("K", "intersect_0", consumable=True)
        Metrics.trace("K", "intersect_1", consumable=True)
        walker = _walk(root, nout) if len(pairs) > 0 else iter(())
        idx = 0
        for size in sizes:       # a group of size 0: a call that receives nothing new
            for _ in range(size):
                if nout > 0 or idx == 0:
                    next(walker)
                a, b = operands(idx)
                before = (H.snapshot(a), H.snapshot(b)) if not a.isLazy() and not b.isLazy() else None
                w = windows[idx]
                if w is None:
                    walk = result(idx)
                elif w[2] == "iterActive":
                    walk = result(idx).iterActive()
                else:
                    walk = result(idx).iterRange(w[0], w[1])
                for _ in walk:
                    pass
                if before is not None and before != (H.snapshot(a), H.snapshot(b)):
                    side["operands_unchanged"] = False
                idx += 1
            consume()
        for _ in walker:   # let the outer loops finish
            pass
    finally:
        # endCollect insists that consumable traces were consumed; drop what an aborted run left
        for r in list(Metrics.traces):
            for t in list(Metrics.traces[r]):
                ftr, mem, st = Metrics.traces[r][t]
                Metrics.traces[r][t] = (ftr, [] if mem is not None else None, st)
        Metrics.endCollect()
    impl = {"batches": batches}
    for k, o in objs.items():
        impl[k] = o.getNumIntersects() if alive[k] else "ERR"
    case["impl"] = impl
    if side:
        case["side"] = side
    return case


def _build_tree(tree, levels, dflt, vals, fdflt):
    """real fibers for a model tree: leaf values through `real_val`, every fiber with default
    `fdflt` (which the variant may choose different from the tensor's)"""
    F = H.ft().Fiber
    if levels == 1:
        return F([c for c, _ in tree], [real_val(v, dflt, vals) for _, v in tree], default=fdflt)
    return F([c for c, _ in tree], [_build_tree(sub, levels - 1, dflt, vals, fdflt) for _, sub in tree],
             default=fdflt)


def run_swaps(case):
    ft, M = H.ft(), model()
    e, depth, dflt = case["e"], case["depth"], case["dflt"]
    variant = set(case.get("variant", []))
    nr = e + 2 + depth
    radix = float("inf") if case["radix"] == "inf" else case["radix"]
    vals = "float" if "float-values" in variant else ("bool" if "bool-values" in variant else "int")
    tdflt = real_val(dflt, dflt, vals)
    fdflt = real_val(dflt + 3, dflt, vals) if "fiber-default-differs" in variant and vals == "int" else tdflt
    try:
        root = _build_tree(case["t"], nr, dflt, vals, fdflt)
        ids = [f"R{nr - i}" for i in range(nr)]
        t = ft.Tensor.fromFiber(rank_ids=ids, fiber=root, default=tdflt)
        fmt_ranks = (ids if "format-U-all" in variant else ids[-1:] if "format-U-leaf" in variant
                     else ids[:1] if "format-U-top" in variant else [])
        for r in fmt_ranks:
            t.setFormat(r, "U")
        before = H.snapshot(t.getRoot())
        case["impl"] = M.Compute.numSwaps(t, depth, radix, case["lat"])
        side = {"tensor_unchanged": H.snapshot(t.getRoot()) == before}
        if "called-twice" in variant:
            side["second_call_equal"] = M.Compute.numSwaps(t, depth, radix, case["lat"]) == case["impl"]
        case["side"] = side
    except _Timeout:
        raise
    except Exception as ex:
        case["impl"] = "ERR"
        case["implerr"] = H.err_class(ex)
    return case


class _Timeout(Exception):
    pass


def _alarm(signum, frame):
    raise _Timeout()


CPU_LIMIT = 4.0          # seconds of CPU time per attempt (a case normally takes ~1 ms)
_timeouts = {}           # kind -> number of timeouts seen by this worker process


def _attempt(case, limit):
    import signal
    old = signal.signal(signal.SIGVTALRM, _alarm)
    signal.setitimer(signal.ITIMER_VIRTUAL, limit)
    try:
        return run_swaps(case) if case["kind"] == "swaps" else run_and(case)
    except _Timeout:
        Metrics = H.ft().Metrics
        if Metrics.isCollecting():
            Metrics.traces = {}
            Metrics.endCollect()
        return None
    finally:
        signal.setitimer(signal.ITIMER_VIRTUAL, 0)
        signal.signal(signal.SIGVTALRM, old)


def run(case):
    """A changed implementation may not terminate (e.g. a merge round that does not shrink the
    list of lists): every case runs under an alarm on the CPU time of this process (not
    wall-clock: a loaded machine must not produce timeouts), is retried once with twice the
    budget (a garbage-collection pause of a worker that holds 10^4 results can cost seconds),
    and only then a timeout is an observation (ERR).  After 3 timeouts of one kind a
    worker stops running that kind and reports the remaining cases as timed out too, so that
    the check still ends."""
    H.ft()
    model()              # imports happen outside the alarm
    kind = case["kind"]
    if _timeouts.get(kind, 0) >= 3:
        return _timed_out(case, "ERR:Timeout-not-run")
    for limit in (CPU_LIMIT, 2 * CPU_LIMIT):
        out = _attempt(case, limit)
        if out is not None:
            return out
    _timeouts[kind] = _timeouts.get(kind, 0) + 1
    return _timed_out(case, "ERR:Timeout")


def _timed_out(case, what):
    case["implerr"] = what
    if case["kind"] == "swaps":
        case["impl"] = "ERR"
    else:
        if "groups" not in case:
            case["groups"] = []
        case["impl"] = {"batches": [], "tf": "ERR", "sa": "ERR", "lf0": "ERR", "lf1": "ERR", "lf": "ERR"}
    return case


# ---------------------------------------------------------------------------------------
# classification
# ---------------------------------------------------------------------------------------

def nontrivial(case, verdict):
    t = set(verdict.get("tags", []))
    if case["kind"] == "swaps":
        return "merge" in t
    if case["kind"] == "lf":
        return "emptyA" not in t or len(case["pairs"]) > 1
    steps = {"match", "advA", "advB"} & t
    return bool(steps) and bool(t & {"match", "longRun", "trailA", "trailB", "fiber-by-fiber", "one-shot",
                                     "mixed-batching"})


def signature(case, verdict, failed):
    """classification of a failing case (no class of C19 is a known finding: the one-shot
    over-count, the payload dependence of numSwaps, the handling of an empty first call and the
    ticking of the operands of a lazy difference were repaired in the library)"""
    kind = case["kind"]
    why = verdict.get("why", "")
    part = why[why.find("specfail="):] if "specfail=" in why else ""
    return f"{kind}:{'/'.join(sorted(failed))}:{part}"


def _tree_shrinks(t):
    if not isinstance(t, list):
        return
    for i in range(len(t)):
        yield t[:i] + t[i + 1:]
    for i, el in enumerate(t):
        if isinstance(el, list) and len(el) == 2 and isinstance(el[1], list):
            for s2 in _tree_shrinks(el[1]):
                yield t[:i] + [[el[0], s2]] + t[i + 1:]


def shrink_candidates(case):
    if case["kind"] == "swaps":
        for t2 in _tree_shrinks(case["t"]):
            c = dict(case)
            c["t"] = t2
            yield c
        return
    pairs, prefixes, sizes = case["pairs"], case["prefixes"], case["sizes"]
    base = {k: v for k, v in case.items() if k != "groups"}
    # drop a call that receives nothing
    for gi, sz in enumerate(sizes):
        if sz == 0:
            c = dict(base)
            c["sizes"] = sizes[:gi] + sizes[gi + 1:]
            yield c
    # drop a fiber
    for i in range(len(pairs)):
        if len(pairs) == 1:
            break
        acc, s2 = 0, list(sizes)
        for gi, s in enumerate(sizes):
            if i < acc + s:
                s2[gi] -= 1
                break
            acc += s
        s2 = [s for gj, s in enumerate(s2) if s > 0 or sizes[gj] == 0]
        c = dict(base)
        c["pairs"] = pairs[:i] + pairs[i + 1:]
        c["prefixes"] = prefixes[:i] + prefixes[i + 1:]
        c["sizes"] = s2
        yield c
    # drop an element of an operand
    for i, (a, b) in enumerate(pairs):
        for side, f in ((0, a), (1, b)):
            if not isinstance(f, list):      # format-U / lazy operand specs are kept as they are
                continue
            for j in range(len(f)):
                p2 = [list(p) for p in pairs]
                p2[i][side] = f[:j] + f[j + 1:]
                c = dict(base)
                c["pairs"] = p2
                yield c


def extra_evidence(results):
    kinds = {}
    for c, _ in results:
        kinds[c["kind"]] = kinds.get(c["kind"], 0) + 1
    return {"cases_by_kind": kinds}
