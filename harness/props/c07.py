"""C07 — every traversal mode enumerates exactly the slice of content it names."""
import random, itertools, importlib
from harness import common as H

PROP = "C07"
RULE = ("cases = (traversal op, fiber(s) of payload depth 0-1 incl. explicit defaults / empty sub-fibers, rank format C/U, "
        "declared shape, active range, free / tensor-owned, op arguments). small scope: every leaf fiber over 3 (quick) / 4 "
        "(thorough) coordinates x {absent, explicit default, value} x every (start, end) in {None, -1..n+1}^2 x every start_pos "
        "for iterRange / iterOccupancy / iterActive / __iter__; x every range x steps 1-3 x {plain, Ref} for shape iteration; "
        "pairs of fibers for the six dense co-iterators; x affine maps k in {+-1, +-2}, m in -3..3 x intervals x start_pos for "
        "project; x predicate masks x start_pos for prune; every lazy result is traversed twice and materialised with fromLazy. "
        "random: depth 1-2 trees, default 0 or 7, both formats, shapes, active ranges, k <= 3 co-iterated fibers, outer "
        "iterRange on lazy results. non-trivial = the slice / range / result is non-empty and the case exercises at least one of: "
        "a skipped empty element, a break at the end bound, an element below start, a positive start_pos, an absent coordinate "
        "filled by the default or inserted, an interval cut, a reversal, an uncompressed rank. multi-step cases (op seq): on the "
        "SAME fiber objects a first traversal or read-only call (getActive, getShape, ==, len, project, prune, isEmpty, &), then "
        "growth (append past the end, assignment through getPayloadRef), then a second traversal; every traversal is compared "
        "with the model and the spec on the trees as they are at that moment (the model has no hidden state); non-trivial = a "
        "traversal after growth or after a read-only call")

RANGE_OPS = ["range", "occ", "active", "iter"]
SHAPE_OPS = ["rshape", "shape", "ashape", "rshaperef", "shaperef", "ashaperef"]
CO_OPS = ["co" + o for o in SHAPE_OPS]
OLD_SAVED = 77
TOUCHES = ("getActive", "getShape", "eq", "len", "project", "prune", "isEmpty", "and")

_attrs = None


def _RankAttrs():
    global _attrs
    if _attrs is None:
        H.ft()
        _attrs = importlib.import_module("fibertree.core.rank_attrs").RankAttrs
    return _attrs


# ---------------------------------------------------------------------------------------
# generators
# ---------------------------------------------------------------------------------------

def _base(op, t, **kw):
    c = {"prop": PROP, "op": op, "d": 0, "dflt": 0, "t": t, "fmt": "C", "shape": None, "active": None,
         "kind": "free"}
    c.update(kw)
    return c


def _sps(t):
    return [None] + list(range(len(t)))


def gen_small(tier):
    n = 3 if tier == "quick" else 4
    fibs = list(H.all_leaf_fibers(n, [0, 1]))
    bounds = [None] + list(range(-1, n + 2))
    # occupancy / range / active / __iter__ with every start position
    for t in fibs:
        for s in bounds:
            for e in bounds:
                for sp in _sps(t):
                    yield _base("range", t, s=s, e=e, sp=sp, old=OLD_SAVED)
        for sp in _sps(t) + [len(t)]:          # len(t): the illegal position
            yield _base("occ", t, sp=sp, old=OLD_SAVED)
            for fmt in ("C", "U"):
                yield _base("iter", t, sp=sp, fmt=fmt, old=OLD_SAVED)
            for shape, active in ((None, None), (2, None), (0, None), (None, [1, 3]), (5, [0, 0]), (None, [2, n + 2])):
                yield _base("active", t, sp=sp, shape=shape, active=active, old=OLD_SAVED)
    # shape iteration, plain and Ref
    rb = list(range(-1, n + 2))
    for t in fibs:
        for s in rb:
            for e in rb:
                for step in (1, 2, 3):
                    if step > 1 and e <= s:
                        continue
                    yield _base("rshape", t, s=s, e=e, step=step)
                    yield _base("rshaperef", t, s=s, e=e, step=step)
        for shape, active in ((None, None), (2, None), (0, None), (5, None), (None, [1, 3]), (5, [0, 0]),
                              (None, [-1, 2]), (3, [2, n + 2])):
            for op in ("shape", "ashape", "shaperef", "ashaperef"):
                for fmt in ("C", "U"):
                    yield _base(op, t, shape=shape, active=active, fmt=fmt)
    # dense co-iteration: pairs (quick: over 2 coordinates, thorough: 3)
    m = 2 if tier == "quick" else 3
    cof = list(H.all_leaf_fibers(m, [0, 1]))
    for a in cof:
        for b in cof:
            for op in ("corshape", "corshaperef"):
                for (s, e, step) in ((-1, m + 1, 1), (0, m, 2), (1, 1, 1), (m, 0, 1)):
                    yield _base(op, None, ts=[a, b], s=s, e=e, step=step)
            for op in ("coshape", "coashape", "coshaperef", "coashaperef"):
                for shape, active in ((None, None), (m + 1, None), (None, [1, m + 1])):
                    yield _base(op, None, ts=[a, b], shape=shape, active=active)
    for a in fibs:
        for op in CO_OPS:
            yield _base(op, None, ts=[a], s=0, e=n, step=1)
    # project
    ms = (-2, 0, 3) if tier == "quick" else tuple(range(-3, 4))
    for t in fibs:
        for k in (1, 2, -1, -2):
            for mm in ms:
                tr = sorted(k * c + mm for c in range(n))
                ivs = [None, [tr[0], tr[-1] + 1], [tr[0] + 1, tr[-1]], [tr[1], tr[1] + 1], [tr[-1] + 1, tr[-1] + 3],
                       [tr[0] - 2, tr[0]], [tr[1], tr[1]]]
                if tier == "quick":
                    ivs = ivs[:4]
                for iv in ivs:
                    for sp in _sps(t):
                        if sp is not None and k < 0 and sp > 0:
                            continue           # reversed + start_pos is rejected whatever the position
                        yield _base("project", t, k=k, m=mm, iv=iv, sp=sp)
                for dflt in (7,):
                    t7 = [[c, (dflt if v == 0 else (0 if v == 1 else v))] for c, v in t]   # explicit default 7, value 0
                    yield _base("project", t7, k=k, m=mm, iv=None, sp=None, dflt=dflt)
    # prune: every predicate mask over the enumerated elements
    for t in fibs:
        for fmt in ("C", "U"):
            ln = len(t) if fmt == "C" else n
            for bits in itertools.product((0, 1, 2), repeat=min(ln, 3)):
                if tier == "quick" and 2 in bits and bits.count(2) > 1:
                    continue
                for sp in _sps(t):
                    yield _base("prune", t, fmt=fmt, pred={"kind": "imask", "bits": list(bits)}, sp=sp,
                                shape=(n if fmt == "U" else None))
            yield _base("prune", t, fmt=fmt, pred={"kind": "cmod", "a": 2, "b": 1}, sp=None)


def _rand_cfg(rng, n):
    shape = rng.choice([None, None, 0, n, n + 2, max(1, n - 2)])
    active = rng.choice([None, None, None, "r"])
    if active == "r":
        a = rng.randrange(-1, n + 1)
        active = [a, a + rng.randrange(0, n + 2)]
    return shape, active


def gen_random(seed, tier):
    rng = random.Random(seed)
    nrand = 8000 if tier == "quick" else 500000
    pool = (1, 2, -3, 7, 0)
    for i in range(nrand):
        d = rng.choice([0, 0, 1])
        dflt = rng.choice([0, 0, 7])
        n = rng.choice([3, 5, 8])
        kind = "owned" if d >= 1 or rng.random() < 0.4 else "free"
        fmt = rng.choice(["C", "C", "U"])
        shape, active = _rand_cfg(rng, n)
        if kind == "owned" and not shape:
            shape = n                      # tensors are built with a declared shape (see DESIGN, unowned guesses)
        t = H.gen_tree(rng, d + 1, n, pool, dflt)
        common = dict(d=d, dflt=dflt, fmt=fmt, shape=shape, active=active, kind=kind)
        fam = rng.choice(["range", "shape", "co", "project", "project", "prune"])
        rb = lambda: rng.randrange(-2, n + 3)
        ob = lambda: rng.choice([None, rng.randrange(-2, n + 3)])
        sp = rng.choice([None, None] + list(range(len(t)))) if t else rng.choice([None, None, 0])
        if fam == "range":
            op = rng.choice(RANGE_OPS)
            yield _base(op, t, s=ob(), e=ob(), sp=sp, old=OLD_SAVED, **common)
        elif fam == "shape":
            op = rng.choice(SHAPE_OPS)
            yield _base(op, t, s=rb(), e=rb(), step=rng.choice([1, 1, 2, 3, 4]), **common)
        elif fam == "co":
            op = rng.choice(CO_OPS)
            ts = [t] + [H.gen_tree(rng, d + 1, n, pool, dflt) for _ in range(rng.choice([0, 1, 1, 2]))]
            yield _base(op, None, ts=ts, s=rb(), e=rb(), step=rng.choice([1, 1, 2, 3]), **common)
        elif fam == "project":
            k = rng.choice([1, 1, 2, 3, -1, -1, -2])
            mm = rng.randrange(-4, 5)
            iv = None
            if rng.random() < 0.6:
                lo = k * rng.randrange(-1, n + 1) + mm + rng.choice([-1, 0, 1])
                iv = [lo, lo + rng.randrange(0, 2 * n)]
            if k < 0 and rng.random() < 0.9:
                sp = None
            os_, oe_ = (ob(), ob()) if rng.random() < 0.25 else (None, None)
            if os_ is not None:
                os_ = k * os_ + mm
            if oe_ is not None:
                oe_ = k * oe_ + mm
            yield _base("project", t, k=k, m=mm, iv=iv, sp=sp, os=os_, oe=oe_, **common)
        else:
            bits = [rng.choice([0, 1, 1, 2]) for _ in range(n + 3)]
            pred = rng.choice([{"kind": "imask", "bits": bits}, {"kind": "cmod", "a": rng.choice([2, 3]), "b": rng.choice([0, 1])},
                               {"kind": "cmodimask", "a": 2, "b": 0, "bits": bits}, {"kind": "all"}])
            os_, oe_ = (ob(), ob()) if rng.random() < 0.25 else (None, None)
            yield _base("prune", t, pred=pred, sp=sp, os=os_, oe=oe_, **common)


# multi-step cases: the same fiber objects are traversed, read, grown and traversed again
SEQ_FIRST = [{"op": "active"}, {"op": "ashape"}, {"op": "shape"}, {"op": "occ"}, {"op": "iter"}, {"op": "coashape"},
             {"op": "ashaperef"}] + [{"op": "touch", "what": w} for w in TOUCHES]
SEQ_SECOND = [{"op": "active"}, {"op": "ashape"}, {"op": "ashaperef"}, {"op": "shape"}, {"op": "iter"},
              {"op": "coashape"}, {"op": "coashaperef"}, {"op": "occ"}, {"op": "range", "s": 0, "e": None},
              {"op": "project", "k": 1, "m": 0, "iv": None}, {"op": "prune", "pred": {"kind": "all"}}]


def _seq(t, steps, **kw):
    return _base("seq", t, steps=steps, others=kw.pop("others", []), **kw)


def gen_seq_small(tier):
    n = 3
    fibs = list(H.all_leaf_fibers(n, [0, 1]))
    if tier == "quick":
        fibs = fibs[::2]
    k = 0
    for t in fibs:
        last = t[-1][0] if t else -1
        grows = [[{"op": "append", "c": last + 2, "v": 4}],
                 [{"op": "refassign", "c": last + 3, "v": 5}],
                 [{"op": "refassign", "c": 1, "v": 6}, {"op": "append", "c": max(last, 1) + 1, "v": 0}],
                 []]
        for first in SEQ_FIRST:
            for grow in grows:
                for second in SEQ_SECOND:
                    k += 1
                    if tier == "quick" and k % 3:
                        continue
                    for fmt, shape in (("C", None), ("U", None), ("C", 2)):
                        if fmt == "U" and k % 2:
                            continue
                        if shape is not None and k % 5:
                            continue
                        yield _seq(t, [dict(first)] + [dict(g) for g in grow] + [dict(second)], fmt=fmt, shape=shape,
                                   others=[[[1, 3]]])


def gen_seq_random(seed, tier):
    rng = random.Random(seed * 7919 + 13)
    nrand = 1500 if tier == "quick" else 60000
    travs = SEQ_SECOND + [{"op": "rshape", "s": -1, "e": 7, "step": 2}, {"op": "corshape", "s": 0, "e": 6, "step": 1},
                          {"op": "shaperef"}, {"op": "coshape"}]
    for _ in range(nrand):
        dflt = rng.choice([0, 0, 7])
        n = rng.choice([2, 3, 5])
        t = H.gen_tree(rng, 1, n, (1, 2, -3, 7, 0), dflt)
        shape, active = _rand_cfg(rng, n)
        if rng.random() < 0.6:
            active = None
        fmt = rng.choice(["C", "C", "U"])
        steps = []
        top = t[-1][0] if t else -1
        for _ in range(rng.choice([2, 3, 4, 6])):
            r = rng.random()
            if r < 0.25:
                top += rng.choice([1, 1, 2, 3])
                steps.append({"op": "append", "c": top, "v": rng.choice([1, 2, dflt, 0])})
            elif r < 0.4:
                c = rng.randrange(-1, top + 4)
                top = max(top, c)
                steps.append({"op": "refassign", "c": c, "v": rng.choice([1, 2, dflt, 0])})
            elif r < 0.55:
                steps.append({"op": "touch", "what": rng.choice(TOUCHES)})
            else:
                st = dict(rng.choice(travs))
                if st["op"] in ("active", "occ", "range", "iter") and rng.random() < 0.2:
                    st["sp"] = 0
                steps.append(st)
        steps.append(dict(rng.choice(SEQ_SECOND)))
        others = [H.gen_tree(rng, 1, n, (1, 2, -3, 7, 0), dflt) for _ in range(rng.choice([0, 1, 2]))]
        yield _seq(t, steps, dflt=dflt, fmt=fmt, shape=shape, active=active, others=others)


def gen(seed, tier):
    yield from gen_small(tier)
    yield from gen_seq_small(tier)
    yield from gen_random(seed, tier)
    yield from gen_seq_random(seed, tier)


# ---------------------------------------------------------------------------------------
# running the real code
# ---------------------------------------------------------------------------------------

def _build(case, tree):
    """the fiber under test, configured as the case says (format, declared shape, active range, owner)"""
    ft = H.ft()
    d, dflt = case["d"], case["dflt"]
    shape, active, fmt = case.get("shape"), case.get("active"), case.get("fmt", "C")
    act = tuple(active) if active is not None else None
    if case.get("kind") == "owned":
        f = H.build_fiber(tree, d + 1, dflt)
        ids = [f"R{d - i}" for i in range(d + 1)]
        shp = [shape] + [64] * d
        t = ft.Tensor.fromFiber(rank_ids=ids, fiber=f, shape=shp, default=dflt)
        t.setFormat(ids[0], fmt)
        root = t.getRoot()
        root.setActive(act)
        return root, t
    F = ft.Fiber
    coords = [c for c, _ in tree]
    if d == 0:
        payloads = [v for _, v in tree]
    else:
        payloads = [H.build_fiber(s, d, dflt) for _, s in tree]
    f = F(coords, payloads, default=dflt, shape=shape, rank_attrs=_RankAttrs()(fmt=fmt), active_range=act)
    return f, None


def _rows(fiber, ys):
    return [[c, H.pos_of(fiber.payloads, p), H.snapshot(p)] for c, p in ys]


def _pairs(it):
    out = []
    for c, p in it:
        out.append((c, p))
    return out


def _pred(spec):
    kind = spec["kind"]
    bits = spec.get("bits", [])
    tri = {0: False, 1: True, 2: None}

    def mask(i):
        return tri[bits[i]] if i < len(bits) else False
    if kind == "imask":
        return lambda i, c, p: mask(i)
    if kind == "cmod":
        return lambda i, c, p: c % spec["a"] == spec["b"]
    if kind == "cmodimask":
        return lambda i, c, p: (c % spec["a"] == spec["b"]) or bool(mask(i))
    if kind == "all":
        return lambda i, c, p: True
    raise ValueError(kind)


def _traverse(case, op, fibers, side):
    """one traversal `op` (arguments in `case`) on already built fibers; returns the observation dict"""
    ft = H.ft()
    f = fibers[0]
    impl = {}
    sp = case.get("sp")
    try:
        if op in RANGE_OPS:
            f.setSavedPos(case.get("old", 0))
            if op == "range":
                it = f.iterRange(case.get("s"), case.get("e"), start_pos=sp)
            elif op == "occ":
                it = f.iterOccupancy(start_pos=sp)
            elif op == "active":
                it = f.iterActive(start_pos=sp)
            else:
                it = f.__iter__(start_pos=sp)
            ys = _pairs(it)
            impl["y1"] = _rows(f, ys)
            impl["saved"] = f.getSavedPos()
        elif op in SHAPE_OPS:
            s, e, step = case.get("s"), case.get("e"), case.get("step", 1)
            it = {"rshape": lambda: f.iterRangeShape(s, e, step), "shape": f.iterShape, "ashape": f.iterActiveShape,
                  "rshaperef": lambda: f.iterRangeShapeRef(s, e, step), "shaperef": f.iterShapeRef,
                  "ashaperef": f.iterActiveShapeRef}[op]()
            ys = _pairs(it)
            impl["y1"] = _rows(f, ys)
        elif op in CO_OPS:
            s, e, step = case.get("s"), case.get("e"), case.get("step", 1)
            F = ft.Fiber
            lz = {"corshape": lambda: F.coiterRangeShape(fibers, s, e, step), "coshape": lambda: F.coiterShape(fibers),
                  "coashape": lambda: F.coiterActiveShape(fibers),
                  "corshaperef": lambda: F.coiterRangeShapeRef(fibers, s, e, step),
                  "coshaperef": lambda: F.coiterShapeRef(fibers), "coashaperef": lambda: F.coiterActiveShapeRef(fibers)}[op]()
            y1 = _pairs(lz)
            y2 = _pairs(lz)
            for key, ys in (("y1", y1), ("y2", y2)):
                impl[key] = [[c, [[H.pos_of(fb.payloads, p), H.snapshot(p)] for fb, p in zip(fibers, ps)]] for c, ps in ys]
            same = len(y1) == len(y2) and all(
                c1 == c2 and all(a is b for a, b in zip(p1, p2)) for (c1, p1), (c2, p2) in zip(y1, y2)) \
                if op.endswith("ref") else True
            side["second_traversal_same_objects"] = side.get("second_traversal_same_objects", True) and same
        elif op in ("project", "prune"):
            if op == "project":
                k, m = case["k"], case["m"]
                iv = tuple(case["iv"]) if case.get("iv") is not None else None
                lz = f.project(trans_fn=lambda c: k * c + m, interval=iv, start_pos=sp)
            else:
                lz = f.prune(trans_fn=_pred(case["pred"]), start_pos=sp)
            os_, oe_ = case.get("os"), case.get("oe")
            plain = os_ is None and oe_ is None
            trav = (lambda: lz) if plain else (lambda: lz.iterRange(os_, oe_))
            y1 = _pairs(trav())
            y2 = _pairs(trav())
            impl["y1"] = _rows(f, y1)
            impl["y2"] = _rows(f, y2)
            if plain:
                mat = ft.Fiber.fromLazy(lz)
                impl["mat"] = H.snapshot(mat)
                eager = ft.Fiber([c for c, _ in y1], [p for _, p in y1], default=case["dflt"])
                side["materialises_equal"] = side.get("materialises_equal", True) and bool(mat == eager)
            side["lazy_is_lazy"] = side.get("lazy_is_lazy", True) and bool(lz.isLazy())
        else:
            raise ValueError(op)
    except AssertionError:
        impl["err"] = "rejected"
    except (Exception, StopIteration) as e:  # a crash is an observation
        impl["err"] = H.err_class(e)
    return impl


def _touch(what, f, dflt):
    """a read-only public call whose result is not under test here: it must leave no trace"""
    ft = H.ft()
    if what == "getActive":
        f.getActive()
    elif what == "getShape":
        f.getShape(all_ranks=False)
    elif what == "eq":
        f == ft.Fiber(list(f.coords), [p.value for p in f.payloads], default=dflt)
    elif what == "len":
        len(f)
    elif what == "project":
        list(f.project(lambda c: c + 1))
    elif what == "prune":
        list(f.prune(lambda i, c, p: True))
    elif what == "isEmpty":
        f.isEmpty()
    elif what == "and":
        list(f & ft.Fiber(list(f.coords), [1 for _ in f.coords]))
    else:
        raise ValueError(what)


def _run_seq(case):
    """several steps on the SAME fiber objects: traversals, read-only calls, growth"""
    fibers = [_build(case, t)[0] for t in [case["t"]] + case.get("others", [])]
    f = fibers[0]
    obs, side = [], {}
    pure = True
    for st in case["steps"]:
        op = st["op"]
        before = [H.snapshot(x) for x in fibers]
        o = {}
        if op == "append":
            try:
                f.append(st["c"], st["v"])
            except AssertionError:
                o["err"] = "rejected"
        elif op == "refassign":
            ref = f.getPayloadRef(st["c"])
            ref <<= st["v"]
        elif op == "touch":
            try:
                _touch(st["what"], f, case["dflt"])
            except Exception as e:
                o["err"] = H.err_class(e)
        else:
            sub = dict(case)
            sub.update(st)
            o = _traverse(sub, op, fibers if op in CO_OPS else [f], side)
        after = [H.snapshot(x) for x in fibers]
        o["before_all"], o["after_all"] = before, after
        o["after"] = after if op in CO_OPS else after[0]
        if not (op.endswith("ref") or op in ("append", "refassign")):
            pure = pure and before == after
        obs.append(o)
    side["operands_unchanged"] = pure
    case["impl"] = {"steps": obs}
    case["side"] = side
    return case


def run(case):
    op = case["op"]
    if op == "seq":
        return _run_seq(case)
    side = {}
    if op.startswith("co"):
        fibers = [_build(case, t)[0] for t in case["ts"]]
    else:
        fibers = [_build(case, case["t"])[0]]
    before = [H.snapshot(x) for x in fibers]
    impl = _traverse(case, op, fibers, side)
    after = [H.snapshot(x) for x in fibers]
    impl["after"] = after if op.startswith("co") else after[0]
    if not op.endswith("ref"):
        side["operands_unchanged"] = before == after
    case["impl"] = impl
    case["side"] = side
    return case


# ---------------------------------------------------------------------------------------
# classification
# ---------------------------------------------------------------------------------------

INTERESTING = {"skip-empty", "break", "below-start", "sp+", "absent-coord", "inserted", "iv-break", "iv-below", "rev",
               "fmt:U", "explicit-empty", "outer-range", "outside-range"}


def nontrivial(case, verdict):
    t = set(verdict.get("tags", []))
    if case["op"] == "seq":
        return bool(t & {"traversal-after-growth", "traversal-after-touch"})
    if "OUT_OF_MODEL" in t or "illegal-start" in t:
        return False
    if t & {"slice-empty", "range-empty", "result-empty"} or any(x.startswith("model-") for x in t):
        return False
    return bool(t & INTERESTING)


def signature(case, verdict, failed):
    """classification of a failing case for known_findings.json"""
    t = set(verdict.get("tags", []))
    op = case["op"]
    err = (case.get("impl") or {}).get("err")
    fl = "/".join(sorted(failed))
    if op == "seq":
        why = verdict.get("why", "")
        return f"seq:{fl}:{why.split(':')[0][:40]}"
    return f"{op}:{fl}:{err or 'no-exception'}"


def shrink_candidates(case):
    if case["op"] == "seq":
        st = case["steps"]
        for i in range(len(st) - 1):
            c = dict(case)
            c["steps"] = st[:i] + st[i + 1:]
            yield c
        if case.get("others"):
            c = dict(case)
            c["others"] = case["others"][:-1]
            yield c
        t = case["t"]
        for i in range(len(t)):
            c = dict(case)
            c["t"] = t[:i] + t[i + 1:]
            yield c
        return
    key = "ts" if case["op"].startswith("co") else "t"
    if key == "t":
        t = case["t"]
        for i in range(len(t)):
            c = dict(case)
            c["t"] = t[:i] + t[i + 1:]
            if c.get("sp") is not None and c["sp"] >= max(1, len(c["t"])):
                c["sp"] = max(0, len(c["t"]) - 1)
            yield c
    else:
        for j, t in enumerate(case["ts"]):
            for i in range(len(t)):
                c = dict(case)
                c["ts"] = case["ts"][:j] + [t[:i] + t[i + 1:]] + case["ts"][j + 1:]
                yield c
    for k in ("sp", "iv", "os", "oe", "active", "shape"):
        if case.get(k) is not None and not (k == "shape" and case.get("kind") == "owned"):
            c = dict(case)
            c[k] = None
            yield c
